//@@ unit SENDINNER
#![feature(allocator_api)]
#![allow(unused_imports, unused_variables, dead_code, unused_mut, unused_parens)]
use vstd::prelude::*;

verus! {

//@@ trusted the four lines that serialize the message into a fresh buffer (`BytesMut::new()`, `Serializer::from((&mut payload).writer())`, `Serializable(message).serialize(&mut serializer)?`, `payload.freeze()`) are ONE stand-in `serialize_message(&message)`: its result is the message's encoding (`encoding_of`, unit MESSAGE / Kani codec for what that is) or the serializer's error; a rewritten serialization loses the anchor (exit 2)
//@@ trusted SenderLink::send_payload (unit SENDSPLIT) is a stand-in that records what it is handed; `self.incoming.recv()` only CREATES the future that lets the link notice a detach while it waits for credit (it is polled inside the link); async bodies with .await erased (R3)

macro_rules! opaque {
    ($($n:ident),*) => { verus!{ $(
        #[verifier::external_body]
        pub struct $n { _p: u8 }
    )* } }
}
opaque!(Msg, Payload, DeliveryState, Settlement, SerErr, LinkStateError, OutTx, InRx, DetachedFut, SendErr);
pub type MessageFormat = u32;
/// Sendable<T> (link/delivery.rs): the three fields send_with_state takes apart
pub struct Sendable { pub message: Msg, pub message_format: MessageFormat, pub settled: Option<bool> }
pub uninterp spec fn encoding_of(m: Msg) -> Result<Payload, SerErr>;
#[verifier::external_body]
pub fn serialize_message(m: &Msg) -> (r: Result<Payload, SerErr>) ensures r == encoding_of(*m) { unimplemented!() }
/// `E: From<L::TransferError> + From<serde_amqp::Error>` instantiated at SendError (R7)
pub trait ErrInto<T>: Sized { spec fn conv(self) -> T; fn err_into(self) -> (r: T) ensures r == self.conv(); }
pub uninterp spec fn ser_err(e: SerErr) -> SendErr;
pub uninterp spec fn link_err(e: LinkStateError) -> SendErr;
impl ErrInto<SendErr> for SerErr { open spec fn conv(self) -> SendErr { ser_err(self) } #[verifier::external_body] fn err_into(self) -> (r: SendErr) { unimplemented!() } }
impl ErrInto<SendErr> for LinkStateError { open spec fn conv(self) -> SendErr { link_err(self) } #[verifier::external_body] fn err_into(self) -> (r: SendErr) { unimplemented!() } }
impl ErrInto<SendErr> for SendErr { open spec fn conv(self) -> SendErr { self } fn err_into(self) -> (r: SendErr) { let e = self; assert(e == <SendErr as ErrInto<SendErr>>::conv(self)); e } }
impl InRx {
    #[verifier::external_body]
    pub fn recv(&mut self) -> (r: DetachedFut) ensures *final(self) == *old(self) { unimplemented!() }
}
/// one call of SenderLink::send_payload: (payload, message-format, settled, state, batchable)
pub struct SentCall { pub payload: Payload, pub message_format: MessageFormat, pub settled: Option<bool>, pub state: Option<DeliveryState>, pub batchable: bool }
pub struct LinkS { pub calls: Ghost<Seq<SentCall>> }
pub uninterp spec fn link_send_result(l: LinkS, c: SentCall) -> Result<Settlement, LinkStateError>;
impl LinkS {
    /// SenderLink::send_payload (unit SENDSPLIT)
    #[verifier::external_body]
    pub fn send_payload(&mut self, writer: &OutTx, detached: DetachedFut, payload: Payload, message_format: MessageFormat, settled: Option<bool>, state: Option<DeliveryState>, batchable: bool) -> (r: Result<Settlement, LinkStateError>)
        ensures final(self).calls@ == old(self).calls@.push(SentCall { payload, message_format, settled, state, batchable }),
            r == link_send_result(*old(self), SentCall { payload, message_format, settled, state, batchable }),
    { unimplemented!() }
}
pub struct SenderInner { pub link: LinkS, pub outgoing: OutTx, pub incoming: InRx }

impl SenderInner {
//@@ fn file=fe2o3-amqp/src/link/sender.rs impl=`~impl<L>SenderInner<L>whereL:endpoint::SenderLink<TransferError=LinkStateError,` name=send_payload
//@@ qmark
//@@ generics
//@@ nowhere
//@@ ret Result<Settlement, SendErr>
//@@ spec
    ensures
        final(self).link.calls@ == old(self).link.calls@.push(SentCall { payload, message_format, settled, state, batchable }),        // [C01.sender-inner.payload-handed-on-unchanged] [C02.sender-inner.settled-and-state-handed-on] what the link is asked to send is what the endpoint was given: payload, format, settled flag, state, batchable
        match link_send_result(old(self).link, SentCall { payload, message_format, settled, state, batchable }) { Ok(s) => r == Ok::<Settlement, SendErr>(s), Err(e) => r == Err::<Settlement, SendErr>(link_err(e)) },   // [C02.sender-inner.settlement-is-this-deliverys] the settlement handed back is the one the link produced for THIS delivery
        final(self).outgoing == old(self).outgoing,
//@@ end

//@@ fn file=fe2o3-amqp/src/link/sender.rs impl=`~impl<L>SenderInner<L>whereL:endpoint::SenderLink<TransferError=LinkStateError,` name=send_with_state
//@@ qmark
//@@ generics
//@@ nowhere
//@@ param sendable : Sendable
//@@ ret Result<Settlement, SendErr>
//@@ subst `use bytes::BufMut;` => `` rule=R6
//@@ subst `use serde::Serialize;` => `` rule=R6
//@@ subst `use serde_amqp::ser::Serializer;` => `` rule=R6
//@@ subst `let mut payload = BytesMut::new(); let mut serializer = Serializer::from((&mut payload).writer()); Serializable(message).serialize(&mut serializer)?; let payload = payload.freeze();` => `let payload = serialize_message(&message)?;` rule=R9
//@@ spec
    ensures
        encoding_of(sendable.message) is Err ==> r == Err::<Settlement, SendErr>(ser_err(encoding_of(sendable.message)->Err_0)) && final(self).link.calls@ == old(self).link.calls@,   // [C01.sender-inner.unserializable-message-sends-nothing] a message that cannot be encoded is reported, nothing is sent
        encoding_of(sendable.message) is Ok ==> final(self).link.calls@ == old(self).link.calls@.push(SentCall { payload: encoding_of(sendable.message)->Ok_0, message_format: sendable.message_format, settled: sendable.settled, state, batchable }),   // [C01.sender-inner.payload-is-the-messages-encoding] the delivery's payload is the encoding of THIS message, whole; its format and settled flag are the sendable's; [C02.sender-inner.settled-and-state-handed-on]
//@@ end

//@@ fn file=fe2o3-amqp/src/link/sender.rs impl=`~impl<L>SenderInner<L>whereL:endpoint::SenderLink<TransferError=LinkStateError,` name=send_ref_with_state
//@@ qmark
//@@ generics
//@@ nowhere
//@@ param sendable : &Sendable
//@@ ret Result<Settlement, SendErr>
//@@ subst `use bytes::BufMut;` => `` rule=R6
//@@ subst `use serde::Serialize;` => `` rule=R6
//@@ subst `use serde_amqp::ser::Serializer;` => `` rule=R6
//@@ subst `let mut payload = BytesMut::new(); let mut serializer = Serializer::from((&mut payload).writer()); Serializable(message).serialize(&mut serializer)?; let payload = payload.freeze();` => `let payload = serialize_message(message)?;` rule=R9
//@@ spec
    ensures
        encoding_of(sendable.message) is Err ==> r == Err::<Settlement, SendErr>(ser_err(encoding_of(sendable.message)->Err_0)) && final(self).link.calls@ == old(self).link.calls@,
        encoding_of(sendable.message) is Ok ==> final(self).link.calls@ == old(self).link.calls@.push(SentCall { payload: encoding_of(sendable.message)->Ok_0, message_format: sendable.message_format, settled: sendable.settled, state, batchable }),   // [C01.sender-inner.payload-is-the-messages-encoding] (send_ref: the message is only borrowed, the same delivery results)
//@@ end
}

// ================================================================ SenderInner::resend (link resumption: a delivery the peer has no record of is sent again under a new tag)
//@@ trusted for `resend` the link is a second stand-in (LinkR): get_delivery_tag_or_detached (the credit wait that ALSO watches the link's incoming channel: unit SENDSPLIT / LINKFLOW), generate_non_resuming_transfer_performative and send_transfer_without_modifying_unsettled_map (unit SENDSPLIT) record what they are handed; the unsettled map is a map view; a bare `flow_state.consume(..)` -- a credit wait nothing can interrupt -- is a stand-in whose call is an obligation
opaque!(DeliveryTag, ChanId, ReceiverSettleMode);
pub struct HandleS { pub h: u32 }
/// performatives::Transfer (field order and descriptor: unit WIRELAYOUT)
pub struct Transfer { pub handle: HandleS, pub delivery_id: Option<u32>, pub delivery_tag: Option<DeliveryTag>, pub message_format: Option<u32>, pub settled: Option<bool>, pub more: bool,
    pub rcv_settle_mode: Option<ReceiverSettleMode>, pub state: Option<DeliveryState>, pub resume: bool, pub aborted: bool, pub batchable: bool }
pub struct UnsettledMessage { pub payload: Payload, pub state: Option<DeliveryState>, pub message_format: u32, pub sender: ChanId }
impl Payload { #[verifier::external_body] pub fn clone(&self) -> (r: Payload) ensures r == *self { unimplemented!() } }
impl DeliveryTag {
    #[verifier::external_body] pub fn clone(&self) -> (r: DeliveryTag) ensures r == *self { unimplemented!() }
    #[verifier::external_body] pub fn from(t: [u8; 4]) -> (r: DeliveryTag) ensures r == tag_of(t) { unimplemented!() }
}
pub uninterp spec fn tag_of(t: [u8; 4]) -> DeliveryTag;
impl UnsettledMessage {
    /// UnsettledMessage::settle (unit LINK): the send waiting on this delivery is resolved
    #[verifier::external_body]
    pub fn settle(self) -> (r: Result<(), Option<DeliveryState>>) { unimplemented!() }
}
pub struct FlowStateR { pub p: u8 }
impl FlowStateR {
    /// `flow_state.consume(n).await` on its own
    #[verifier::external_body]
    pub fn consume(&self, n: u32) -> (r: [u8; 4])
        requires false,     // [C14.wait.credit-wait-watches-the-channel] a sender that waits for link credit also watches its incoming channel (get_delivery_tag_or_detached): the peer's detach, or the session going away, ends the wait with an error -- a bare wait for credit hangs for ever once nobody can grant any
    { unimplemented!() }
}
pub struct XferCall { pub tag: DeliveryTag, pub message_format: u32, pub settled: Option<bool>, pub state: Option<DeliveryState>, pub batchable: bool }
pub uninterp spec fn transfer_for(c: XferCall) -> Transfer;
pub enum SenderSettleMode { Unsettled, Settled, Mixed }
#[derive(Clone, Copy)]
pub struct OutputHandleS { pub h: u32 }
impl OutputHandleS {
    /// OutputHandle -> Handle (unit CONVERSIONS: the number is unchanged)
    pub fn into(self) -> (r: HandleS) ensures r.h == self.h { HandleS { h: self.h } }
}
/// `resolved`: the completion channels that have been resolved (the send waiting on each has its answer), in order
pub struct LinkR { pub unsettled: Option<Map<DeliveryTag, UnsettledMessage>>, pub waits: Ghost<nat>, pub sent: Ghost<Seq<(Transfer, Payload)>>, pub flow_state: FlowStateR,
    pub output_handle: Option<OutputHandleS>, pub snd_settle_mode: SenderSettleMode, pub resolved: Ghost<Seq<ChanId>> }
#[verifier::external_body] pub fn link_illegal_state() -> (r: LinkStateError) { unimplemented!() }
/// `sender.send(None)` on a delivery's completion channel (R9: a channel is a ghost trace)
#[verifier::external_body]
pub fn resolve_waiter(link: &mut LinkR, sender: ChanId)
    ensures final(link).resolved@ == old(link).resolved@.push(sender), final(link).unsettled == old(link).unsettled, final(link).sent == old(link).sent, final(link).waits == old(link).waits,
        final(link).output_handle == old(link).output_handle,
{ unimplemented!() }
/// UnsettledMessage::new(payload, state, format, sender)
pub fn unsettled_new(payload: Payload, state: Option<DeliveryState>, message_format: u32, sender: ChanId) -> (r: UnsettledMessage)
    ensures r == (UnsettledMessage { payload, state, message_format, sender })
{ UnsettledMessage { payload, state, message_format, sender } }
impl Payload { #[verifier::external_body] pub fn new_empty() -> (r: Payload) { unimplemented!() } }
impl DeliveryState { #[verifier::external_body] pub fn clone(&self) -> (r: DeliveryState) ensures r == *self { unimplemented!() } }
pub fn clone_state(s: &Option<DeliveryState>) -> (r: Option<DeliveryState>) ensures r == *s { match s { Some(x) => Some(x.clone()), None => None } }
impl LinkR {
    #[verifier::external_body]
    pub fn get_delivery_tag_or_detached(&mut self, writer: &OutTx, detached: DetachedFut) -> (r: Result<[u8; 4], LinkStateError>)
        ensures final(self).unsettled == old(self).unsettled, final(self).sent == old(self).sent, final(self).waits@ == old(self).waits@ + 1, final(self).resolved == old(self).resolved, final(self).output_handle == old(self).output_handle,
    { unimplemented!() }
    #[verifier::external_body]
    pub fn generate_non_resuming_transfer_performative(&self, delivery_tag: DeliveryTag, message_format: u32, settled: Option<bool>, state: Option<DeliveryState>, batchable: bool) -> (r: Result<Transfer, LinkStateError>)
        ensures r is Ok ==> r->Ok_0 == transfer_for(XferCall { tag: delivery_tag, message_format, settled, state, batchable }),
    { unimplemented!() }
    #[verifier::external_body]
    pub fn send_transfer_without_modifying_unsettled_map(&mut self, writer: &OutTx, transfer: Transfer, payload: Payload) -> (r: Result<bool, LinkStateError>)
        ensures final(self).unsettled == old(self).unsettled, final(self).waits == old(self).waits, final(self).resolved == old(self).resolved, final(self).output_handle == old(self).output_handle,
            r is Ok ==> final(self).sent@ == old(self).sent@.push((transfer, payload)), r is Err ==> final(self).sent@ == old(self).sent@,
    { unimplemented!() }
}
/// `guard.get_or_insert(OrderedMap::new()).insert(k, v)` on the unsettled map (R15)
#[verifier::external_body]
pub fn opt_map_insert(m: &mut Option<Map<DeliveryTag, UnsettledMessage>>, k: DeliveryTag, v: UnsettledMessage)
    ensures *final(m) == Some((match *old(m) { Some(mm) => mm, None => Map::empty() }).insert(k, v)),
{ unimplemented!() }
pub type MessageFormatR = u32;
//@@ type file=fe2o3-amqp/src/link/resumption.rs kind=enum name=ResumingDelivery
//@@ subst `oneshot::Sender<Option<DeliveryState>>` => `ChanId` rule=R9
//@@ subst `MessageFormat` => `MessageFormatR` rule=R11
//@@ end
pub struct SenderInnerR { pub link: LinkR, pub outgoing: OutTx, pub incoming: InRx }
impl SenderInnerR {
//@@ fn file=fe2o3-amqp/src/link/sender.rs impl=`impl SenderInner<SenderLink<Target>>` name=resend dropuses
//@@ qmark
//@@ blockarms
//@@ generics
//@@ nowhere
//@@ ret Result<(), SendErr>
//@@ subst `let mut guard = self.link.unsettled.write(); guard .get_or_insert(OrderedMap::new()) .insert(new_delivery_tag, unsettled_message);` => `opt_map_insert(&mut self.link.unsettled, new_delivery_tag, unsettled_message);` rule=R15,R4
//@@ spec
    ensures
        final(self).link.waits@ <= old(self).link.waits@ + 1,
        r is Ok ==> final(self).link.sent@.len() == old(self).link.sent@.len() + 1 && ({
            let (t, p) = final(self).link.sent@.last();
            &&& p == unsettled_message.payload                                                  // [C01.resend.same-payload] what is sent again is the delivery's own payload
            &&& exists|tag: [u8; 4]| t == transfer_for(XferCall { tag: tag_of(tag), message_format: unsettled_message.message_format, settled: None, state: None, batchable: false })     // a fresh, non-resuming transfer with the delivery's message format
                    && (final(self).link.unsettled != old(self).link.unsettled ==> final(self).link.unsettled == Some((match old(self).link.unsettled { Some(mm) => mm, None => Map::empty() }).insert(tag_of(tag), unsettled_message)))       // [C02.resend.completion-channel-travels-with-the-delivery] unless the delivery went out settled, it is unsettled again under the NEW tag -- payload, state, format AND the channel its send waits on: the outcome the peer reports for the new tag resolves the original send
        }),
//@@ end

//@@ fn file=fe2o3-amqp/src/link/sender.rs impl=`impl SenderInner<SenderLink<Target>>` name=abort
//@@ qmark
//@@ subst `LinkStateError::IllegalState` => `link_illegal_state()` rule=R11b
//@@ blockarms
//@@ param sender : Option<ChanId>
//@@ param message_format : u32
//@@ ret Result<(), SendErr>
//@@ subst `let payload = Bytes::new();` => `let payload = Payload::new_empty();` rule=R9
//@@ subst `let _ = sender.send(None);` => `resolve_waiter(&mut self.link, sender);` rule=R9
//@@ subst `let unsettled = UnsettledMessage::new(payload, None, message_format, sender); let mut guard = self.link.unsettled.write(); guard .get_or_insert(OrderedMap::new()) .insert(delivery_tag, unsettled);` => `let unsettled = unsettled_new(payload, None, message_format, sender); opt_map_insert(&mut self.link.unsettled, delivery_tag, unsettled);` rule=R15,R4
//@@ spec
    ensures
        r is Ok ==> final(self).link.sent@.len() == old(self).link.sent@.len() + 1 && ({
            let t = final(self).link.sent@.last().0;
            &&& t.delivery_tag == Some(delivery_tag) && t.resume && t.aborted && !t.more && !t.batchable && t.delivery_id is None        // [C02.resume.abort-names-the-delivery] a delivery only the receiver still knows is aborted under ITS tag: resume = true, aborted = true
            &&& (sender is Some ==> (final(self).link.resolved@ == old(self).link.resolved@.push(sender->Some_0) && final(self).link.unsettled == old(self).link.unsettled)
                    || (final(self).link.resolved@ == old(self).link.resolved@ && final(self).link.unsettled is Some && final(self).link.unsettled->Some_0.contains_key(delivery_tag) && final(self).link.unsettled->Some_0[delivery_tag].sender == sender->Some_0))     // [C02.resume.waiter-not-lost] a send that still waits on that delivery is either answered now or stays registered under the delivery's tag: its completion channel is never dropped on the floor
        }),
//@@ end

//@@ fn file=fe2o3-amqp/src/link/sender.rs impl=`impl SenderInner<SenderLink<Target>>` name=resume
//@@ qmark
//@@ subst `LinkStateError::IllegalState` => `link_illegal_state()` rule=R11b
//@@ blockarms
//@@ ret Result<(), SendErr>
//@@ subst `unsettled_message.state.clone()` => `clone_state(&unsettled_message.state)` rule=R16
//@@ subst `let mut guard = self.link.unsettled.write(); guard .get_or_insert(OrderedMap::new()) .insert(delivery_tag, unsettled_message);` => `opt_map_insert(&mut self.link.unsettled, delivery_tag, unsettled_message);` rule=R15,R4
//@@ spec
    ensures
        r is Ok ==> final(self).link.sent@.len() == old(self).link.sent@.len() + 1 && ({
            let (t, p) = final(self).link.sent@.last();
            &&& t.delivery_tag == Some(delivery_tag) && t.resume && !t.aborted && t.state == unsettled_message.state && t.message_format == Some(unsettled_message.message_format)
                && !t.more && !t.batchable && t.delivery_id is None && t.settled == Some(old(self).link.snd_settle_mode is Settled)      // (settled as the link's snd-settle-mode says; the session assigns the delivery-id; `more` is decided by the splitter)
            // [C02.resume.resumed-under-its-own-tag] a delivery both ends remember is resumed under ITS tag, with the state the sender has on record
            &&& p == unsettled_message.payload       // [C01.resume.same-payload]
            &&& (final(self).link.unsettled != old(self).link.unsettled ==> final(self).link.unsettled == Some((match old(self).link.unsettled { Some(mm) => mm, None => Map::empty() }).insert(delivery_tag, unsettled_message)))      // [C02.resume.waiter-not-lost] unless it went out settled, the delivery -- with the channel its send waits on -- is unsettled again under the same tag
        }),
//@@ end

//@@ fn file=fe2o3-amqp/src/link/sender.rs impl=`impl SenderInner<SenderLink<Target>>` name=restate_outcome
//@@ qmark
//@@ subst `LinkStateError::IllegalState` => `link_illegal_state()` rule=R11b
//@@ blockarms
//@@ param sender : ChanId
//@@ param message_format : u32
//@@ ret Result<(), SendErr>
//@@ subst `let _ = sender.send(None);` => `resolve_waiter(&mut self.link, sender);` rule=R9
//@@ subst `let unsettled = UnsettledMessage::new(payload, None, message_format, sender); let mut guard = self.link.unsettled.write(); guard .get_or_insert(OrderedMap::new()) .insert(delivery_tag, unsettled);` => `let unsettled = unsettled_new(payload, None, message_format, sender); opt_map_insert(&mut self.link.unsettled, delivery_tag, unsettled);` rule=R15,R4
//@@ spec
    ensures
        r is Ok ==> final(self).link.sent@.len() == old(self).link.sent@.len() + 1 && ({
            let t = final(self).link.sent@.last().0;
            &&& t.delivery_tag == Some(delivery_tag) && t.resume && !t.aborted && t.state == Some(state) && t.settled == Some(false) && !t.more && !t.batchable && t.delivery_id is None       // [C02.resume.outcome-restated] the outcome the sender has on record is stated again for THAT delivery, unsettled
            &&& (final(self).link.resolved@ == old(self).link.resolved@.push(sender) && final(self).link.unsettled == old(self).link.unsettled)
                    || (final(self).link.resolved@ == old(self).link.resolved@ && final(self).link.unsettled is Some && final(self).link.unsettled->Some_0.contains_key(delivery_tag) && final(self).link.unsettled->Some_0[delivery_tag].sender == sender)      // [C02.resume.waiter-not-lost]
        }),
//@@ end

//@@ fn file=fe2o3-amqp/src/link/sender.rs impl=`impl SenderInner<SenderLink<Target>>` name=handle_resuming_delivery
//@@ qmark
//@@ blockarms
//@@ ret Result<(), SendErr>
//@@ spec
    ensures
        resuming is Resend ==> r is Ok && final(resend_buf)@ == old(resend_buf)@.push(resuming->Resend_0) && final(self).link == old(self).link,       // [C02.resume.resend-deferred] a delivery the receiver has no record of is put aside to be sent again under a new tag -- once, after the resumable ones; nothing is written for it here and its completion channel travels with it
        !(resuming is Resend) ==> final(resend_buf)@ == old(resend_buf)@,
        r is Ok && !(resuming is Resend) ==> final(self).link.sent@.len() == old(self).link.sent@.len() + 1
            && final(self).link.sent@.last().0.delivery_tag == Some(delivery_tag) && final(self).link.sent@.last().0.resume,       // [C02.resume.one-resuming-transfer-per-delivery] every other case writes exactly one resuming transfer, under the delivery's own tag
        r is Ok && resuming is Abort ==> final(self).link.sent@.last().0.aborted,
        r is Ok && (resuming is Resume || resuming is RestateOutcome) ==> !final(self).link.sent@.last().0.aborted,
//@@ end
}

} // verus!
fn main() {}
