//@@ unit SENDINNER
#![feature(allocator_api)]
#![allow(unused_imports, unused_variables, dead_code, unused_mut, unused_parens)]
use vstd::prelude::*;

verus! {

//@@ trusted the four lines that serialize the message into a fresh buffer (`BytesMut::new()`, `Serializer::from((&mut payload).writer())`, `Serializable(message).serialize(&mut serializer)?`, `payload.freeze()`) are ONE stand-in `serialize_message(&message)`: its result is the message's encoding (`encoding_of`, unit MESSAGE / Kani codec for what that is) or the serializer's error; a rewritten serialization loses the anchor (exit 2)
//@@ trusted SenderLink::send_payload (unit SENDSPLIT) is a stand-in that records what it is handed; `self.incoming.recv()` only CREATES the future that lets the link notice a detach while it waits for credit (it is polled inside the link); async bodies with .await erased (R3)

macro_rules! opaque {
    ($($n:ident),*) => { verus!{ $(
        #[verifier::external_body]
        pub struct $n { _p: u8 }
    )* } }
}
opaque!(Msg, Payload, DeliveryState, Settlement, SerErr, LinkStateError, OutTx, InRx, DetachedFut, SendErr);
pub type MessageFormat = u32;
/// Sendable<T> (link/delivery.rs): the three fields send_with_state takes apart
pub struct Sendable { pub message: Msg, pub message_format: MessageFormat, pub settled: Option<bool> }
pub uninterp spec fn encoding_of(m: Msg) -> Result<Payload, SerErr>;
#[verifier::external_body]
pub fn serialize_message(m: &Msg) -> (r: Result<Payload, SerErr>) ensures r == encoding_of(*m) { unimplemented!() }
/// `E: From<L::TransferError> + From<serde_amqp::Error>` instantiated at SendError (R7)
pub trait ErrInto<T>: Sized { spec fn conv(self) -> T; fn err_into(self) -> (r: T) ensures r == self.conv(); }
pub uninterp spec fn ser_err(e: SerErr) -> SendErr;
pub uninterp spec fn link_err(e: LinkStateError) -> SendErr;
impl ErrInto<SendErr> for SerErr { open spec fn conv(self) -> SendErr { ser_err(self) } #[verifier::external_body] fn err_into(self) -> (r: SendErr) { unimplemented!() } }
impl ErrInto<SendErr> for LinkStateError { open spec fn conv(self) -> SendErr { link_err(self) } #[verifier::external_body] fn err_into(self) -> (r: SendErr) { unimplemented!() } }
impl ErrInto<SendErr> for SendErr { open spec fn conv(self) -> SendErr { self } fn err_into(self) -> (r: SendErr) { let e = self; assert(e == <SendErr as ErrInto<SendErr>>::conv(self)); e } }
impl InRx {
    #[verifier::external_body]
    pub fn recv(&mut self) -> (r: DetachedFut) ensures *final(self) == *old(self) { unimplemented!() }
}
/// one call of SenderLink::send_payload: (payload, message-format, settled, state, batchable)
pub struct SentCall { pub payload: Payload, pub message_format: MessageFormat, pub settled: Option<bool>, pub state: Option<DeliveryState>, pub batchable: bool }
pub struct LinkS { pub calls: Ghost<Seq<SentCall>> }
pub uninterp spec fn link_send_result(l: LinkS, c: SentCall) -> Result<Settlement, LinkStateError>;
impl LinkS {
    /// SenderLink::send_payload (unit SENDSPLIT)
    #[verifier::external_body]
    pub fn send_payload(&mut self, writer: &OutTx, detached: DetachedFut, payload: Payload, message_format: MessageFormat, settled: Option<bool>, state: Option<DeliveryState>, batchable: bool) -> (r: Result<Settlement, LinkStateError>)
        ensures final(self).calls@ == old(self).calls@.push(SentCall { payload, message_format, settled, state, batchable }),
            r == link_send_result(*old(self), SentCall { payload, message_format, settled, state, batchable }),
    { unimplemented!() }
}
pub struct SenderInner { pub link: LinkS, pub outgoing: OutTx, pub incoming: InRx }

impl SenderInner {
//@@ fn file=fe2o3-amqp/src/link/sender.rs impl=`~impl<L>SenderInner<L>whereL:endpoint::SenderLink<TransferError=LinkStateError,` name=send_payload
//@@ qmark
//@@ generics
//@@ nowhere
//@@ ret Result<Settlement, SendErr>
//@@ spec
    ensures
        final(self).link.calls@ == old(self).link.calls@.push(SentCall { payload, message_format, settled, state, batchable }),        // [C01.sender-inner.payload-handed-on-unchanged] [C02.sender-inner.settled-and-state-handed-on] what the link is asked to send is what the endpoint was given: payload, format, settled flag, state, batchable
        match link_send_result(old(self).link, SentCall { payload, message_format, settled, state, batchable }) { Ok(s) => r == Ok::<Settlement, SendErr>(s), Err(e) => r == Err::<Settlement, SendErr>(link_err(e)) },   // [C02.sender-inner.settlement-is-this-deliverys] the settlement handed back is the one the link produced for THIS delivery
        final(self).outgoing == old(self).outgoing,
//@@ end

//@@ fn file=fe2o3-amqp/src/link/sender.rs impl=`~impl<L>SenderInner<L>whereL:endpoint::SenderLink<TransferError=LinkStateError,` name=send_with_state
//@@ qmark
//@@ generics
//@@ nowhere
//@@ param sendable : Sendable
//@@ ret Result<Settlement, SendErr>
//@@ subst `use bytes::BufMut;` => `` rule=R6
//@@ subst `use serde::Serialize;` => `` rule=R6
//@@ subst `use serde_amqp::ser::Serializer;` => `` rule=R6
//@@ subst `let mut payload = BytesMut::new(); let mut serializer = Serializer::from((&mut payload).writer()); Serializable(message).serialize(&mut serializer)?; let payload = payload.freeze();` => `let payload = serialize_message(&message)?;` rule=R9
//@@ spec
    ensures
        encoding_of(sendable.message) is Err ==> r == Err::<Settlement, SendErr>(ser_err(encoding_of(sendable.message)->Err_0)) && final(self).link.calls@ == old(self).link.calls@,   // [C01.sender-inner.unserializable-message-sends-nothing] a message that cannot be encoded is reported, nothing is sent
        encoding_of(sendable.message) is Ok ==> final(self).link.calls@ == old(self).link.calls@.push(SentCall { payload: encoding_of(sendable.message)->Ok_0, message_format: sendable.message_format, settled: sendable.settled, state, batchable }),   // [C01.sender-inner.payload-is-the-messages-encoding] the delivery's payload is the encoding of THIS message, whole; its format and settled flag are the sendable's; [C02.sender-inner.settled-and-state-handed-on]
//@@ end

//@@ fn file=fe2o3-amqp/src/link/sender.rs impl=`~impl<L>SenderInner<L>whereL:endpoint::SenderLink<TransferError=LinkStateError,` name=send_ref_with_state
//@@ qmark
//@@ generics
//@@ nowhere
//@@ param sendable : &Sendable
//@@ ret Result<Settlement, SendErr>
//@@ subst `use bytes::BufMut;` => `` rule=R6
//@@ subst `use serde::Serialize;` => `` rule=R6
//@@ subst `use serde_amqp::ser::Serializer;` => `` rule=R6
//@@ subst `let mut payload = BytesMut::new(); let mut serializer = Serializer::from((&mut payload).writer()); Serializable(message).serialize(&mut serializer)?; let payload = payload.freeze();` => `let payload = serialize_message(message)?;` rule=R9
//@@ spec
    ensures
        encoding_of(sendable.message) is Err ==> r == Err::<Settlement, SendErr>(ser_err(encoding_of(sendable.message)->Err_0)) && final(self).link.calls@ == old(self).link.calls@,
        encoding_of(sendable.message) is Ok ==> final(self).link.calls@ == old(self).link.calls@.push(SentCall { payload: encoding_of(sendable.message)->Ok_0, message_format: sendable.message_format, settled: sendable.settled, state, batchable }),   // [C01.sender-inner.payload-is-the-messages-encoding] (send_ref: the message is only borrowed, the same delivery results)
//@@ end
}

} // verus!
fn main() {}
