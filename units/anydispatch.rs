//@@ unit ANYDISPATCH
#![feature(allocator_api)]
#![allow(unused_imports, unused_variables, dead_code, unused_mut, unused_parens)]
use vstd::prelude::*;

verus! {

//@@ trusted the typed entry points of the deserializer (deserialize_bool .. deserialize_map, deserialize_newtype_struct, deserialize_struct: under contract or bounded in unit READERS / Kani) are stand-ins that RECORD which one was called (and with which newtype name); the reader is reduced to the octet `peek` yields; the visitor and its value are opaque

#[verifier::external_body]
pub struct VisitorS { _p: u8 }
#[verifier::external_body]
pub struct ValueS { _p: u8 }
pub enum Error { InvalidFormatCode, Eof, Other }
impl Error { pub fn unexpected_eof(s: &str) -> (r: Error) { Error::Eof } }
pub trait ErrInto<T>: Sized { spec fn conv(self) -> T; fn err_into(self) -> (r: T) ensures r == self.conv(); }
impl ErrInto<Error> for Error { open spec fn conv(self) -> Error { self } fn err_into(self) -> (r: Error) { let e = self; assert(e == <Error as ErrInto<Error>>::conv(self)); e } }
//@@ type file=serde_amqp/src/format_code.rs kind=enum name=EncodingCodes keeprepr clone
//@@ end
impl Copy for EncodingCodes {}
impl EncodingCodes {
//@@ fn file=serde_amqp/src/format_code.rs impl=`impl TryFrom<u8> for EncodingCodes` name=try_from as=try_from_u8
//@@ ret Result<EncodingCodes, Error>
//@@ spec
    ensures r is Ok ==> r->Ok_0 as u8 == value,
        entry_for(value) is Some ==> r is Ok,        // [C05.format-code.complete] every constructor of the primitive type system is a known format code
//@@ end
}
/// the names the dispatcher passes to deserialize_newtype_struct
pub enum NtName { Symbol, Array, Decimal32, Decimal64, Decimal128, Timestamp, Uuid }
pub const SYMBOL: NtName = NtName::Symbol;
pub const ARRAY: NtName = NtName::Array;
pub const DECIMAL32: NtName = NtName::Decimal32;
pub const DECIMAL64: NtName = NtName::Decimal64;
pub const DECIMAL128: NtName = NtName::Decimal128;
pub const TIMESTAMP: NtName = NtName::Timestamp;
pub const UUID: NtName = NtName::Uuid;
pub enum Entry { Bool, I8, I16, I32, I64, U8, U16, U32, U64, F32, F64, Char, String, ByteBuf, Unit, Seq, Map, Struct, Newtype(NtName) }
pub struct ReaderS { pub next: Ghost<Option<u8>> }
impl ReaderS {
    #[verifier::external_body]
    pub fn peek(&mut self) -> (r: Option<u8>) ensures r == old(self).next@, final(self).next == old(self).next { unimplemented!() }
}
pub struct Deserializer { pub reader: ReaderS, pub elem_format_code: Option<EncodingCodes>, pub called: Ghost<Seq<Entry>> }
macro_rules! entry {
    ($($f:ident => $e:expr),*) => { verus!{ impl Deserializer { $(
        #[verifier::external_body]
        pub fn $f(&mut self, visitor: VisitorS) -> (r: Result<ValueS, Error>)
            ensures final(self).called@ == old(self).called@.push($e), final(self).reader == old(self).reader, final(self).elem_format_code == old(self).elem_format_code,
        { unimplemented!() }
    )* } } }
}
entry!(deserialize_bool => Entry::Bool, deserialize_i8 => Entry::I8, deserialize_i16 => Entry::I16, deserialize_i32 => Entry::I32, deserialize_i64 => Entry::I64,
       deserialize_u8 => Entry::U8, deserialize_u16 => Entry::U16, deserialize_u32 => Entry::U32, deserialize_u64 => Entry::U64, deserialize_f32 => Entry::F32,
       deserialize_f64 => Entry::F64, deserialize_char => Entry::Char, deserialize_string => Entry::String, deserialize_byte_buf => Entry::ByteBuf,
       deserialize_unit => Entry::Unit, deserialize_seq => Entry::Seq, deserialize_map => Entry::Map);
impl Deserializer {
    #[verifier::external_body]
    pub fn deserialize_newtype_struct(&mut self, name: NtName, visitor: VisitorS) -> (r: Result<ValueS, Error>)
        ensures final(self).called@ == old(self).called@.push(Entry::Newtype(name)), final(self).reader == old(self).reader, final(self).elem_format_code == old(self).elem_format_code,
    { unimplemented!() }
    #[verifier::external_body]
    pub fn deserialize_struct(&mut self, name: &str, fields: &[&str; 1], visitor: VisitorS) -> (r: Result<ValueS, Error>)
        ensures final(self).called@ == old(self).called@.push(Entry::Struct), final(self).reader == old(self).reader, final(self).elem_format_code == old(self).elem_format_code,
    { unimplemented!() }
}
/// AMQP 1.0 part 1, section 1.6 (the primitive type table), read independently of the code: which type each constructor announces
pub open spec fn entry_for(c: u8) -> Option<Entry> {
    if c == 0x56 || c == 0x41 || c == 0x42 { Some(Entry::Bool) }
    else if c == 0x51 { Some(Entry::I8) } else if c == 0x61 { Some(Entry::I16) }
    else if c == 0x71 || c == 0x54 { Some(Entry::I32) } else if c == 0x81 || c == 0x55 { Some(Entry::I64) }
    else if c == 0x50 { Some(Entry::U8) } else if c == 0x60 { Some(Entry::U16) }
    else if c == 0x70 || c == 0x52 || c == 0x43 { Some(Entry::U32) } else if c == 0x80 || c == 0x53 || c == 0x44 { Some(Entry::U64) }
    else if c == 0x72 { Some(Entry::F32) } else if c == 0x82 { Some(Entry::F64) } else if c == 0x73 { Some(Entry::Char) }
    else if c == 0xa1 || c == 0xb1 { Some(Entry::String) } else if c == 0xa0 || c == 0xb0 { Some(Entry::ByteBuf) }
    else if c == 0x40 { Some(Entry::Unit) }
    else if c == 0xa3 || c == 0xb3 { Some(Entry::Newtype(NtName::Symbol)) }
    else if c == 0x00 { Some(Entry::Struct) }
    else if c == 0xe0 || c == 0xf0 { Some(Entry::Newtype(NtName::Array)) }
    else if c == 0x45 || c == 0xc0 || c == 0xd0 { Some(Entry::Seq) }
    else if c == 0xc1 || c == 0xd1 { Some(Entry::Map) }
    else if c == 0x74 { Some(Entry::Newtype(NtName::Decimal32)) } else if c == 0x84 { Some(Entry::Newtype(NtName::Decimal64)) } else if c == 0x94 { Some(Entry::Newtype(NtName::Decimal128)) }
    else if c == 0x83 { Some(Entry::Newtype(NtName::Timestamp)) } else if c == 0x98 { Some(Entry::Newtype(NtName::Uuid)) }
    else { None }
}
/// the constructor of the value about to be decoded: the array's element constructor inside an array, else the next octet
pub open spec fn eff_code(de: Deserializer) -> Option<u8> { match de.elem_format_code { Some(c) => Some(c as u8), None => de.reader.next@ } }

impl Deserializer {
//@@ fn file=serde_amqp/src/de.rs impl=`impl<'de, R: Read<'de>> Deserializer<R>` name=get_elem_code_or_peek_byte
//@@ subst `self.reader.peek().map(Ok)` => `self.reader.peek().map(|b: u8| -> (o: Result<u8, Error>) ensures o == Ok::<u8, Error>(b) { Ok(b) })` rule=R18 unless `\.map\(`
//@@ spec
    ensures (match eff_code(*old(self)) { Some(c) => r == Some(Ok::<u8, Error>(c)), None => r is None }),        // [C05.array.one-constructor] the constructor looked at is the array's element constructor inside an array, the next octet otherwise; nothing is consumed
        final(self).reader == old(self).reader, final(self).elem_format_code == old(self).elem_format_code, final(self).called == old(self).called,
//@@ end

//@@ fn file=serde_amqp/src/de.rs impl=`~de::Deserializer<'de>for&mutDeserializer<R>` name=deserialize_any
//@@ selfmut
//@@ qmark
//@@ generics
//@@ nowhere
//@@ param visitor : VisitorS
//@@ ret Result<ValueS, Error>
//@@ subst `|| Error::unexpected_eof("")` => `|| -> (o: Error) { Error::unexpected_eof("") }` rule=R18
//@@ subst `.try_into()?` => `.try_code()?` rule=R16
//@@ subst `self.deserialize_struct("", &[""], visitor)` => `self.deserialize_struct("", &[""; 1], visitor)` rule=optional-R5
//@@ spec
    ensures
        r is Ok ==> eff_code(*old(self)) is Some && entry_for(eff_code(*old(self))->Some_0) is Some
            && final(self).called@ == old(self).called@.push(entry_for(eff_code(*old(self))->Some_0)->Some_0),      // [C05.any.dispatch-by-constructor] [C03.any.dispatch-by-constructor] an untyped value is decoded as the type its constructor announces (AMQP 1.0 part 1, 1.6): every width variant of a type goes to that type's decoder -- smalluint / uint0 to uint, sym8 / sym32 to symbol, list0 / list8 / list32 to list, 0x00 to the described-type decoder -- and to no other
        eff_code(*old(self)) is Some && entry_for(eff_code(*old(self))->Some_0) is Some ==> final(self).called@.len() == old(self).called@.len() + 1,       // [C05.any.every-constructor-dispatched] every constructor of the primitive type system reaches a decoder
        final(self).called@.len() <= old(self).called@.len() + 1,
//@@ end
}
// the untyped value tree (value/de.rs): which Value variant a constructor announces
//@@ type file=serde_amqp/src/value/de.rs kind=enum name=ValueType
//@@ end
/// the Value variant of each constructor, by the same reading of the AMQP type table
pub open spec fn value_type_for(c: u8) -> Option<ValueType> {
    match entry_for(c) {
        Some(Entry::Bool) => Some(ValueType::Bool), Some(Entry::I8) => Some(ValueType::Byte), Some(Entry::I16) => Some(ValueType::Short), Some(Entry::I32) => Some(ValueType::Int),
        Some(Entry::I64) => Some(ValueType::Long), Some(Entry::U8) => Some(ValueType::Ubyte), Some(Entry::U16) => Some(ValueType::Ushort), Some(Entry::U32) => Some(ValueType::Uint),
        Some(Entry::U64) => Some(ValueType::Ulong), Some(Entry::F32) => Some(ValueType::Float), Some(Entry::F64) => Some(ValueType::Double), Some(Entry::Char) => Some(ValueType::Char),
        Some(Entry::String) => Some(ValueType::String), Some(Entry::ByteBuf) => Some(ValueType::Binary), Some(Entry::Unit) => Some(ValueType::Null), Some(Entry::Seq) => Some(ValueType::List),
        Some(Entry::Map) => Some(ValueType::Map), Some(Entry::Struct) => Some(ValueType::Described),
        Some(Entry::Newtype(NtName::Symbol)) => Some(ValueType::Symbol), Some(Entry::Newtype(NtName::Array)) => Some(ValueType::Array),
        Some(Entry::Newtype(NtName::Decimal32)) => Some(ValueType::Decimal32), Some(Entry::Newtype(NtName::Decimal64)) => Some(ValueType::Decimal64),
        Some(Entry::Newtype(NtName::Decimal128)) => Some(ValueType::Decimal128), Some(Entry::Newtype(NtName::Timestamp)) => Some(ValueType::Timestamp),
        Some(Entry::Newtype(NtName::Uuid)) => Some(ValueType::Uuid),
        None => None,
    }
}
//@@ fn file=serde_amqp/src/value/de.rs impl=`impl From<EncodingCodes> for ValueType` name=from as=value_type_from_code
//@@ ret ValueType
//@@ orsplit
//@@ spec
    ensures value_type_for(code as u8) == Some(r),        // [C03.value.variant-by-constructor] [C05.value.variant-by-constructor] in the untyped value tree every constructor becomes the Value variant of the type it announces -- all width variants of a type the same variant (uint0 / smalluint / uint: Uint; sym8 / sym32: Symbol, not String; list0 / list8 / list32: List), a timestamp a Timestamp and not a Long
//@@ end

pub trait TryCode { fn try_code(self) -> (r: Result<EncodingCodes, Error>) ensures r is Ok ==> r->Ok_0 as u8 == self.byte(), entry_for(self.byte()) is Some ==> r is Ok; spec fn byte(self) -> u8; }
impl TryCode for u8 { open spec fn byte(self) -> u8 { self } fn try_code(self) -> (r: Result<EncodingCodes, Error>) { EncodingCodes::try_from_u8(self) } }

} // verus!
fn main() {}
