//@@ unit SENDSPLIT
//@@ gsubst `oneshot::Sender<Option<DeliveryState>>` => `OneshotSender` rule=R9
//@@ gsubst `oneshot::Receiver<Option<DeliveryState>>` => `OneshotReceiver` rule=R9
//@@ gsubst `definitions::Error` => `AmqpError` rule=R11
#![feature(allocator_api)]
#![allow(unused_imports, unused_variables, dead_code, unused_mut, unused_parens)]
use vstd::prelude::*;

verus! {

global size_of usize == 8;

//@@ include common.rs
//@@ trusted bytes::Bytes stand-in: byte sequence with len/split_to/clone
//@@ trusted mpsc::Sender<LinkFrame> ghost trace (R9): send appends and returns Ok, or returns Err leaving the trace unchanged
//@@ trusted usize is 64 bits (`global size_of usize == 8`)
//@@ trusted leaf stand-ins: DeliveryTag, DeliveryState, Attach, Disposition, Detach, LinkFlow, TransactionId, AmqpError, SessionStopReason opaque

pub type DeliveryNumber = u32;
pub type MessageFormat = u32;
pub type Boolean = bool;

macro_rules! opaque {
    ($($n:ident),*) => { verus!{ $(
        #[verifier::external_body]
        pub struct $n { _p: u8 }
        impl Clone for $n { #[verifier::external_body] fn clone(&self) -> (r: Self) ensures r == *self { unimplemented!() } }
    )* } }
}
opaque!(DeliveryTag, DeliveryState, Attach, Disposition, Detach, LinkFlow, TransactionId, AmqpError, SessionStopReason, ChanSendError);
pub struct Handle(pub u32);
impl Clone for Handle { fn clone(&self) -> (r: Self) ensures r == *self { Handle(self.0) } }
pub struct InputHandle(pub u32);
impl Clone for InputHandle { fn clone(&self) -> (r: Self) ensures r == *self { InputHandle(self.0) } }

//@@ type file=fe2o3-amqp-types/src/definitions/rcv_settle_mode.rs kind=enum name=ReceiverSettleMode clone
//@@ end
//@@ type file=fe2o3-amqp-types/src/definitions/snd_settle_mode.rs kind=enum name=SenderSettleMode clone
//@@ end
//@@ type file=fe2o3-amqp-types/src/performatives/transfer.rs kind=struct name=Transfer clone
//@@ end
//@@ type file=fe2o3-amqp/src/link/frame.rs kind=enum name=LinkFrame
//@@ end
//@@ type file=fe2o3-amqp/src/link/error.rs kind=enum name=LinkStateError
//@@ end

#[verifier::external_body]
pub struct Bytes { v: Vec<u8> }
impl View for Bytes { type V = Seq<u8>; uninterp spec fn view(&self) -> Seq<u8>; }
pub type Payload = Bytes;
impl Clone for Bytes { #[verifier::external_body] fn clone(&self) -> (r: Self) ensures r@ == self@ { unimplemented!() } }
impl Bytes {
    #[verifier::external_body]
    pub fn len(&self) -> (r: usize) ensures r == self@.len() { unimplemented!() }
    #[verifier::external_body]
    pub fn is_empty(&self) -> (r: bool) ensures r == (self@.len() == 0) { unimplemented!() }
    #[verifier::external_body]
    pub fn split_to(&mut self, n: usize) -> (r: Bytes)
        requires n <= old(self)@.len(),     // bytes::Bytes::split_to panics otherwise
        ensures r@ == old(self)@.take(n as int), final(self)@ == old(self)@.skip(n as int),
    { unimplemented!() }
}

pub struct ChanSender<T> { pub sent: Ghost<Seq<T>> }
impl<T> ChanSender<T> {
    #[verifier::external_body]
    pub fn send(&mut self, v: T) -> (r: Result<(), ChanSendError>)
        ensures
            r is Ok ==> final(self).sent@ == old(self).sent@.push(v),
            r is Err ==> final(self).sent@ == old(self).sent@,
    { unimplemented!() }
}
#[verifier::external_body]
#[verifier::reject_recursive_types(T)]
pub struct OnceLock<T> { c: Option<T> }
impl<T> OnceLock<T> {
    pub uninterp spec fn val(&self) -> Option<T>;
    #[verifier::external_body]
    pub fn get(&self) -> (r: Option<&T>)
        ensures match r { Some(v) => self.val() == Some(*v), None => self.val() is None },
    { unimplemented!() }
}

// SenderLink<T>: the fields the splitter / send_payload_with_transfer read (R11: other fields elided)
pub struct SenderLink {
    pub snd_settle_mode: SenderSettleMode,
    pub input_handle: Option<InputHandle>,
    pub max_message_size: u64,
    pub session_stop_reason: OnceLock<SessionStopReason>,
    pub unsettled: Option<OrderedMap<DeliveryTag, UnsettledMessage>>,
    pub output_handle: Option<OutputHandle>,
    /// sender flow state as this unit needs it: how many credits were consumed (unit LINKFLOW proves consume itself)
    pub credits_consumed: Ghost<nat>,
}
pub struct OutputHandle(pub u32);
impl Clone for OutputHandle { fn clone(&self) -> (r: Self) ensures r == *self { OutputHandle(self.0) } }
pub fn output_to_handle(h: OutputHandle) -> (r: Handle) ensures r.0 == h.0 { Handle(h.0) }
#[verifier::external_body]
pub fn tag_from(t: [u8; 4]) -> (r: DeliveryTag) { unimplemented!() }
pub trait ErrInto<T>: Sized { spec fn conv(self) -> T; fn err_into(self) -> (r: T) ensures r == self.conv(); }
impl ErrInto<LinkStateError> for LinkStateError { open spec fn conv(self) -> LinkStateError { self } fn err_into(self) -> (r: LinkStateError) { let e = self; assert(e == <LinkStateError as ErrInto<LinkStateError>>::conv(self)); e } }
pub struct DetachedFut { pub g: Ghost<int> }

// tokio oneshot channel: the two ends of ONE completion channel share a ghost id
pub struct OneshotSender { pub id: Ghost<int> }
pub struct OneshotReceiver { pub id: Ghost<int> }
#[verifier::external_body]
pub fn oneshot_channel() -> (r: (OneshotSender, OneshotReceiver)) ensures r.0.id@ == r.1.id@ { unimplemented!() }

#[verifier::external_body]
#[verifier::reject_recursive_types(K)]
#[verifier::reject_recursive_types(V)]
pub struct OrderedMap<K, V> { m: Vec<(K, V)> }
impl<K, V> View for OrderedMap<K, V> { type V = Map<K, V>; uninterp spec fn view(&self) -> Map<K, V>; }
pub open spec fn omap<K, V>(g: Option<OrderedMap<K, V>>) -> Map<K, V> { match g { Some(m) => m@, None => Map::empty() } }
#[verifier::external_body]
pub fn opt_insert<K, V>(g: &mut Option<OrderedMap<K, V>>, k: K, v: V) -> (r: Option<V>)
    ensures omap(*final(g)) == omap(*old(g)).insert(k, v), *final(g) is Some,
{ unimplemented!() }

#[verifier::external_body]
pub fn opt_swap_remove<K, V>(g: &mut Option<OrderedMap<K, V>>, k: &K) -> (r: Option<V>)
    ensures omap(*final(g)) == omap(*old(g)).remove(*k),
{ unimplemented!() }

//@@ type file=fe2o3-amqp/src/link/delivery.rs kind=struct name=UnsettledMessage
//@@ end
//@@ type file=fe2o3-amqp/src/endpoint/mod.rs kind=enum name=Settlement
//@@ end
impl UnsettledMessage {
//@@ fn file=fe2o3-amqp/src/link/delivery.rs impl=`impl UnsettledMessage` name=new
//@@ spec
    ensures r.payload == payload, r.state == state, r.message_format == message_format, r.sender == sender,
//@@ end
}

// ---- specification ---------------------------------------------------------------------------
/// what one emitted frame looks like: (performative, payload bytes)
pub open spec fn fr(f: LinkFrame) -> (Transfer, Seq<u8>) {
    (f->Transfer_performative, f->Transfer_payload@)
}
pub open spec fn cleared(t: Transfer) -> Transfer {
    Transfer { delivery_tag: None, message_format: None, settled: None, more: true, ..t }
}
pub open spec fn link_mids(tc: Transfer, p: Seq<u8>, max: int) -> Seq<(Transfer, Seq<u8>)>
    decreases p.len()
{
    if max > 0 && p.len() > max { seq![(tc, p.take(max))] + link_mids(tc, p.skip(max), max) } else { Seq::empty() }
}
pub open spec fn link_rest(p: Seq<u8>, max: int) -> Seq<u8>
    decreases p.len()
{
    if max > 0 && p.len() > max { link_rest(p.skip(max), max) } else { p }
}
/// the frames the link-level splitter must emit for (t, p) with max-message-size max
pub open spec fn link_expected(max: int, t: Transfer, p: Seq<u8>) -> Seq<(Transfer, Seq<u8>)> {
    if max != 0 && p.len() > max {
        seq![(Transfer { more: true, ..t }, p.take(max))]
            + link_mids(cleared(t), p.skip(max), max)
            + seq![(Transfer { more: false, ..cleared(t) }, link_rest(p.skip(max), max))]
    } else {
        seq![(Transfer { more: false, ..t }, p)]
    }
}
pub open spec fn frames_of(s: Seq<LinkFrame>) -> Seq<(Transfer, Seq<u8>)> {
    s.map_values(|f: LinkFrame| fr(f))
}
pub open spec fn payloads(fs: Seq<(Transfer, Seq<u8>)>) -> Seq<u8>
    decreases fs.len()
{
    if fs.len() == 0 { Seq::empty() } else { fs[0].1 + payloads(fs.skip(1)) }
}
pub proof fn lemma_payloads_append(a: Seq<(Transfer, Seq<u8>)>, b: Seq<(Transfer, Seq<u8>)>)
    ensures payloads(a + b) =~= payloads(a) + payloads(b),
    decreases a.len(),
{
    if a.len() == 0 { assert(a + b =~= b); } else {
        assert((a + b).skip(1) =~= a.skip(1) + b);
        assert((a + b)[0] == a[0]);
        lemma_payloads_append(a.skip(1), b);
    }
}
pub proof fn lemma_payloads_one(f: (Transfer, Seq<u8>))
    ensures payloads(seq![f]) =~= f.1,
{
    assert(seq![f].skip(1) =~= Seq::<(Transfer, Seq<u8>)>::empty());
    assert(payloads(seq![f].skip(1)) =~= Seq::<u8>::empty());
}
pub proof fn lemma_link_mids(tc: Transfer, p: Seq<u8>, max: int)
    ensures
        payloads(link_mids(tc, p, max)) + link_rest(p, max) =~= p,
        forall|i: int| 0 <= i < link_mids(tc, p, max).len() ==> (#[trigger] link_mids(tc, p, max)[i]).0 == tc,
    decreases p.len(),
{
    if max > 0 && p.len() > max {
        lemma_link_mids(tc, p.skip(max), max);
        let m = link_mids(tc, p.skip(max), max);
        lemma_payloads_append(seq![(tc, p.take(max))], m);
        lemma_payloads_one((tc, p.take(max)));
        assert(p.take(max) + p.skip(max) =~= p);
        let all = seq![(tc, p.take(max))] + m;
        assert forall|i: int| 0 <= i < all.len() implies (#[trigger] all[i]).0 == tc by {
            if i > 0 { assert(all[i] == m[i - 1]); }
        }
    }
}
/// C01 / C11 properties of the link-level split
pub proof fn lemma_link_expected(max: int, t: Transfer, p: Seq<u8>)
    requires max > 0, p.len() > max,
    ensures
        ({
            let fs = link_expected(max, t, p);
            let n = fs.len();
            &&& n >= 2
            &&& payloads(fs) =~= p                                                          // payload chunks concatenate to the input
            &&& (forall|i: int| 0 <= i < n - 1 ==> (#[trigger] fs[i]).0.more) && !fs[n - 1].0.more   // more on all but the last
            &&& fs[0].0.delivery_tag == t.delivery_tag
            &&& (forall|i: int| 1 <= i < n ==> (#[trigger] fs[i]).0.delivery_tag is None && fs[i].0.message_format is None && fs[i].0.settled is None)   // exactly the first frame carries the delivery-tag
        }),
{
    let tc = cleared(t);
    let m = link_mids(tc, p.skip(max), max);
    let first = (Transfer { more: true, ..t }, p.take(max));
    let last = (Transfer { more: false, ..tc }, link_rest(p.skip(max), max));
    let fs = link_expected(max, t, p);
    lemma_link_mids(tc, p.skip(max), max);
    lemma_payloads_append(seq![first], m);
    lemma_payloads_append(seq![first] + m, seq![last]);
    lemma_payloads_one(first);
    lemma_payloads_one(last);
    assert(p.take(max) + p.skip(max) =~= p);
    assert forall|i: int| 0 <= i < fs.len() - 1 implies (#[trigger] fs[i]).0.more by {
        if i > 0 { assert(fs[i] == m[i - 1]); }
    }
    assert forall|i: int| 1 <= i < fs.len() implies (#[trigger] fs[i]).0.delivery_tag is None && fs[i].0.message_format is None && fs[i].0.settled is None by {
        if i < fs.len() - 1 { assert(fs[i] == m[i - 1]); }
    }
}

//@@ fn file=fe2o3-amqp/src/link/sender_link.rs name=send_transfer
//@@ param writer : &mut ChanSender<LinkFrame>
//@@ subst `.map_err(|_v0| __E1)` => `.map_err(|_v0: ChanSendError| -> (o: LinkStateError) ensures o == link_stop_err(session_stop_reason.val()) { __E1 })` rule=R18 unless `\.map_err\(`
//@@ spec
    ensures
        r is Ok ==> final(writer).sent@ == old(writer).sent@.push(LinkFrame::Transfer { input_handle, performative: transfer, payload }),   // [C01.link.send-frame] the frame queued is the performative and payload given
        r is Err ==> final(writer).sent@ == old(writer).sent@,
        r is Err ==> r == Err::<(), LinkStateError>(link_stop_err(session_stop_reason.val())),   // [C14.link.closed-channel-reports-stop-reason] a transfer that cannot be queued because the session is gone fails with SessionStopped(reason), the reason being what the session published before closing the channel (the peer's End / Close with its error, or the connection's fate); IllegalState only if none was recorded
//@@ end

pub open spec fn link_stop_err(stop: Option<SessionStopReason>) -> LinkStateError { match stop { Some(r) => LinkStateError::SessionStopped(r), None => LinkStateError::IllegalState } }

/// `send_transfer(...).await` seen as a cancellation point: the send pends while the bounded link->session channel is full, and the caller's future may be
/// dropped there. `inside` says whether frames of the delivery being sent have already been queued by this call.
fn send_transfer_cp(Ghost(inside): Ghost<bool>, writer: &mut ChanSender<LinkFrame>, input_handle: InputHandle, transfer: Transfer, payload: Payload, session_stop_reason: &OnceLock<SessionStopReason>) -> (r: Result<(), LinkStateError>)
    requires !inside,                // [C16.send.no-await-inside-a-delivery] no cancellation point between two frames of one delivery: a send future dropped there leaves a delivery whose last frame never comes (delivered partially)
    ensures
        r is Ok ==> final(writer).sent@ == old(writer).sent@.push(LinkFrame::Transfer { input_handle, performative: transfer, payload }),
        r is Err ==> final(writer).sent@ == old(writer).sent@,
{ send_transfer(writer, input_handle, transfer, payload, session_stop_reason) }

impl SenderLink {
//@@ fn file=fe2o3-amqp/src/link/sender_link.rs impl=`impl<T> SenderLink<T> where T: Into<TargetArchetype> + TryFrom<TargetArchetype> + VerifyTargetArchetype + Clone + Send + Sync,` name=send_transfer_without_modifying_unsettled_map
//@@ attr #[verifier::loop_isolation(false)]
//@@ shape loops=while
//@@ param writer : &mut ChanSender<LinkFrame>
//@@ subst `send_transfer( writer,` => `send_transfer_cp( Ghost(writer.sent@.len() > w0.len()), writer,` rule=R9
//@@ spec
    ensures
        r is Ok ==> ({
            let new = final(writer).sent@.skip(old(writer).sent@.len() as int);
            &&& final(writer).sent@.len() >= old(writer).sent@.len()
            &&& final(writer).sent@.take(old(writer).sent@.len() as int) =~= old(writer).sent@
            &&& (forall|i: int| 0 <= i < new.len() ==> (#[trigger] new[i]) is Transfer && new[i]->Transfer_input_handle == self.input_handle->Some_0)   // [C11.link.same-handle] every frame of the delivery goes to the link's own handle
            &&& frames_of(new) =~= link_expected(self.max_message_size as int, transfer, payload@)   // [C18.link.state-on-every-frame] (`cleared` keeps the delivery state: EVERY frame of a split transactional post carries the transactional state with its txn-id -- the resource withholds only frames that do) [C01.link.split-exact] the frames queued are exactly those of link_expected: payload chunks in order, more on all but the last [C11.link.tag-first-frame-only] and exactly the first frame carries the delivery-tag [C16.send.one-frame-when-it-fits] in particular a message that fits the link's max-message-size (or any message when there is none) is queued as ONE item, so no cancellation point lies inside it
        }),
        r is Ok ==> r->Ok_0 == (if transfer.settled is Some { transfer.settled->Some_0 } else { self.snd_settle_mode is Settled }),   // [C02.link.settled-flag] pre-settled iff the transfer says so, else iff snd-settle-mode is settled
//@@ entry
        let ghost t0 = transfer;
        let ghost p0 = payload@;
        let ghost w0 = writer.sent@;
        let ghost maxg = self.max_message_size as int;
//@@ loop 0
        invariant
            maxg == self.max_message_size, maxg > 0, maxg <= usize::MAX,
            self.input_handle is Some, input_handle == self.input_handle->Some_0,
            transfer == cleared(t0),
            writer.sent@.len() >= w0.len() + 1,
            writer.sent@.take(w0.len() as int) =~= w0,
            forall|i: int| w0.len() <= i < writer.sent@.len() ==> (#[trigger] writer.sent@[i]) is Transfer && writer.sent@[i]->Transfer_input_handle == input_handle,
            link_rest(payload@, maxg) == link_rest(p0.skip(maxg), maxg),
            frames_of(writer.sent@.skip(w0.len() as int)) + link_mids(cleared(t0), payload@, maxg)
                =~= seq![(Transfer { more: true, ..t0 }, p0.take(maxg))] + link_mids(cleared(t0), p0.skip(maxg), maxg),
        decreases payload@.len(),
//@@ end
}

impl SenderLink {
    /// `self.send_transfer_without_modifying_unsettled_map(writer, transfer, payload).await` as called by send_payload_with_transfer: from the moment the first frame is queued the session
    /// routes the receiver's dispositions for this delivery to the link's unsettled map (LinkRelay::on_incoming_disposition, unit LINK)
    pub fn queue_frames_of_delivery(&mut self, writer: &mut ChanSender<LinkFrame>, transfer: Transfer, payload: Payload) -> (r: Result<bool, LinkStateError>)
        requires
            transfer.delivery_tag is Some && !(if transfer.settled is Some { transfer.settled->Some_0 } else { old(self).snd_settle_mode is Settled }) ==> omap(old(self).unsettled).contains_key(transfer.delivery_tag->Some_0),      // [C02.send.registered-before-first-frame] the completion channel of an unsettled delivery is in the link's unsettled map BEFORE its first frame is handed to the session: an outcome that arrives early (after the first of many frames; on a multi-threaded runtime even for a single frame) must find it there -- otherwise the disposition settles nothing and the send never completes
        ensures
            r is Ok ==> r->Ok_0 == (if transfer.settled is Some { transfer.settled->Some_0 } else { old(self).snd_settle_mode is Settled }),
            final(self).unsettled == old(self).unsettled, final(self).credits_consumed == old(self).credits_consumed, final(self).output_handle == old(self).output_handle, final(self).snd_settle_mode == old(self).snd_settle_mode,
    { self.send_transfer_without_modifying_unsettled_map(writer, transfer, payload) }
//@@ fn file=fe2o3-amqp/src/link/sender_link.rs impl=`~impl<T>endpoint::SenderLinkforSenderLink<T>` name=send_payload_with_transfer
//@@ selfmut
//@@ ret Result<Settlement, LinkStateError>
//@@ param writer : &mut ChanSender<LinkFrame>
//@@ subst `oneshot::channel()` => `oneshot_channel()` rule=R9
//@@ subst `self .send_transfer_without_modifying_unsettled_map(writer, transfer, payload)` => `self.queue_frames_of_delivery(writer, transfer, payload)` rule=R9
//@@ subst `guard.as_mut().and_then(|m| m.swap_remove(&delivery_tag))` => `opt_swap_remove(&mut *guard, &delivery_tag)` rule=R15
//@@ subst `let mut guard = self.unsettled.write();` => `let mut guard = &mut self.unsettled;` rule=R4
//@@ subst `guard .get_or_insert(OrderedMap::new()) .insert(delivery_tag.clone(), unsettled)` => `opt_insert(&mut *guard, delivery_tag.clone(), unsettled)` rule=R15
//@@ spec
    ensures
        r is Ok ==> transfer.delivery_tag is Some && ({
            let tag = transfer.delivery_tag->Some_0;
            let presettled = if transfer.settled is Some { transfer.settled->Some_0 } else { old(self).snd_settle_mode is Settled };
            &&& presettled ==> r->Ok_0 == Settlement::Settled(tag) && omap(final(self).unsettled) == omap(old(self).unsettled)   // [C02.send.presettled] a pre-settled send completes at once (nothing to wait for) and leaves no unsettled state behind
            &&& !presettled ==> r->Ok_0 is Unsettled && r->Ok_0->Unsettled_delivery_tag == tag
                    && omap(final(self).unsettled).dom() =~= omap(old(self).unsettled).dom().insert(tag)
                    && omap(final(self).unsettled)[tag].sender.id@ == r->Ok_0->Unsettled_outcome.id@                             // [C02.send.own-channel] an unsettled send waits on the completion channel whose other end is stored under ITS OWN delivery-tag -- so it can only be resolved by a disposition for that delivery
                    && omap(final(self).unsettled)[tag].state is None
                    && (forall|k: DeliveryTag| k != tag && omap(old(self).unsettled).contains_key(k) ==> #[trigger] omap(final(self).unsettled)[k] == omap(old(self).unsettled)[k])
        }),
        r is Err ==> omap(final(self).unsettled) == omap(old(self).unsettled) || (transfer.delivery_tag is Some && omap(final(self).unsettled) == omap(old(self).unsettled).remove(transfer.delivery_tag->Some_0)),   // [C02.send.failed-send-leaves-no-entry] a send that could not be queued leaves no completion channel behind under its tag
        final(self).credits_consumed == old(self).credits_consumed && final(self).output_handle == old(self).output_handle && final(self).snd_settle_mode == old(self).snd_settle_mode,
//@@ end
}

/// a cancellation point: what follows (send_payload_with_transfer) awaits capacity on the bounded link->session channel before anything of the delivery is queued;
/// the caller's future may be dropped there
fn cancel_point_before_queueing(Ghost(credit_taken): Ghost<bool>)
    requires !credit_taken,          // [C16.send.no-await-between-credit-and-queueing] a credit consumed (link-credit decremented, delivery-count advanced) for a delivery none of whose frames is queued yet must not be followed by a cancellation point: a send future dropped there leaks the credit and leaves the two delivery-counts out of step, so later sends are starved
{}
/// nothing new in the trace is a transfer
pub open spec fn no_transfer_added(s0: Seq<LinkFrame>, s1: Seq<LinkFrame>) -> bool {
    s1.len() >= s0.len() && s1.take(s0.len() as int) =~= s0 && forall|i: int| s0.len() <= i < s1.len() ==> !((#[trigger] s1[i]) is Transfer)
}

impl SenderLink {
    /// stand-in for get_delivery_tag_or_detached (a tokio::select! between flow_state.consume(1) and the detach notification):
    /// Ok(tag) means exactly ONE credit was consumed (contract of consume, unit LINKFLOW [C08.consume.account]); an error consumed none
    #[verifier::external_body]
    pub fn get_delivery_tag_or_detached(&mut self, writer: &mut ChanSender<LinkFrame>, detached: DetachedFut) -> (r: Result<[u8; 4], LinkStateError>)
        ensures
            r is Ok ==> final(self).credits_consumed@ == old(self).credits_consumed@ + 1,
            r is Err ==> final(self).credits_consumed@ == old(self).credits_consumed@,
            final(self).snd_settle_mode == old(self).snd_settle_mode && final(self).output_handle == old(self).output_handle && final(self).max_message_size == old(self).max_message_size
                && omap(final(self).unsettled) == omap(old(self).unsettled) && final(self).input_handle == old(self).input_handle,
            r is Ok ==> final(writer).sent@ == old(writer).sent@,
            r is Err ==> no_transfer_added(old(writer).sent@, final(writer).sent@),      // (the detach arm answers the peer's detach: a Detach frame, never a transfer)
    { unimplemented!() }

//@@ fn file=fe2o3-amqp/src/link/sender_link.rs impl=`~impl<T>SenderLink<T>` name=generate_non_resuming_transfer_performative
//@@ subst `let handle = self .output_handle .clone() .ok_or(LinkStateError::IllegalState)? .into();` => `let handle: Handle = output_to_handle(self.output_handle.clone().ok_or(LinkStateError::IllegalState)?);` rule=R16
//@@ spec
    ensures
        self.output_handle is None ==> r is Err,                                                                     // [C13.link.no-transfer-without-handle] a detached link (no output handle) produces no transfer
        self.output_handle is Some ==> r is Ok && ({
            let t = r->Ok_0;
            &&& t.handle.0 == self.output_handle->Some_0.0
            &&& t.delivery_id is None && t.delivery_tag == Some(delivery_tag) && t.message_format == Some(message_format)
            &&& t.settled == Some(match self.snd_settle_mode { SenderSettleMode::Settled => true, SenderSettleMode::Unsettled => false, SenderSettleMode::Mixed => (if settled is Some { settled->Some_0 } else { false }) })   // [C02.send.settled-by-mode] whether a delivery goes out pre-settled is decided by the negotiated snd-settle-mode; only in mixed mode by the caller (default unsettled)
            &&& t.state == state && t.batchable == batchable                                                          // [C18.controller.state-passed] the delivery state given by the caller (e.g. a transactional-state) is the one on the transfer
            &&& !t.more && !t.resume && !t.aborted && t.rcv_settle_mode is None
        }),
//@@ end

//@@ fn file=fe2o3-amqp/src/link/sender_link.rs impl=`~impl<T>endpoint::SenderLinkforSenderLink<T>` name=send_payload
//@@ shape stmt-1=self .
//@@ qmark
//@@ generics
//@@ nowhere
//@@ ret Result<Settlement, LinkStateError>
//@@ param writer : &mut ChanSender<LinkFrame>
//@@ param detached : DetachedFut
//@@ subst `DeliveryTag::from(tag)` => `tag_from(tag)` rule=R16
//@@ spec
    requires
        old(self).max_message_size == 0 || true,
    ensures
        final(self).credits_consumed@ <= old(self).credits_consumed@ + 1,                                            // [C08.send.one-credit-per-delivery] a send consumes at most one link credit ...
        r is Ok ==> final(self).credits_consumed@ == old(self).credits_consumed@ + 1,                                // ... and exactly one when the delivery goes out: never a delivery without a credit
        final(self).credits_consumed@ == old(self).credits_consumed@ ==> no_transfer_added(old(writer).sent@, final(writer).sent@),   // [C08.send.nothing-without-credit] no transfer frame is queued unless a credit was consumed for it
//@@ entry
        let ghost __cc0 = self.credits_consumed@;
//@@ stmt -1
        cancel_point_before_queueing(Ghost(self.credits_consumed@ > __cc0));
//@@ end
}

} // verus!
fn main() {}
