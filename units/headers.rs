//@@ unit HEADERS
#![feature(allocator_api)]
#![allow(unused_imports, unused_variables, dead_code, unused_mut, unused_parens)]
use vstd::prelude::*;

verus! {

//@@ trusted FramedWrite<_, ProtocolHeaderCodec> / FramedRead<_, ProtocolHeaderCodec> are stand-ins: `send` appends the header to a ghost trace of what was written (or fails, writing nothing); `next` yields an arbitrary header, a decoding error or end-of-stream (the peer is unconstrained) and records what was read
//@@ trusted the switch from the header codec to the length-delimited frame codec (map_encoder / map_decoder / bind_to_framed_codec) is a stand-in that keeps the two traces: the transport returned is known to have been built from these halves
//@@ trusted ProtocolHeader's derived PartialEq is structural equality

//@@ type file=fe2o3-amqp-types/src/definitions/constant_def.rs kind=const name=MAJOR
//@@ end
//@@ type file=fe2o3-amqp-types/src/definitions/constant_def.rs kind=const name=MINOR
//@@ end
//@@ type file=fe2o3-amqp-types/src/definitions/constant_def.rs kind=const name=REVISION
//@@ end
//@@ type file=fe2o3-amqp-types/src/definitions/constant_def.rs kind=const name=MIN_MAX_FRAME_SIZE
//@@ end
/// AMQP 1.0 part 2, 2.2 and 2.4.1: the protocol version on the wire is 1.0.0; MIN-MAX-FRAME-SIZE is 512
proof fn spec_header_constants() ensures MAJOR == 1 && MINOR == 0 && REVISION == 0, MIN_MAX_FRAME_SIZE == 512 {}      // [C06.constants.protocol-version] [C12.constants.protocol-version]

//@@ type file=fe2o3-amqp/src/transport/protocol_header.rs kind=enum name=ProtocolId keeprepr clone
//@@ end
//@@ type file=fe2o3-amqp/src/transport/protocol_header.rs kind=struct name=ProtocolHeader clone
//@@ end
impl ProtocolHeader {
//@@ fn file=fe2o3-amqp/src/transport/protocol_header.rs impl=`impl Default for ProtocolHeader` name=default as=default_hdr id=ProtocolHeader::default
//@@ subst `fe2o3_amqp_types::definitions::` => `` rule=R2
//@@ subst `Self {` => `ProtocolHeader {` rule=optional-R2
//@@ spec
    ensures r == (ProtocolHeader { id: ProtocolId::Amqp, major: MAJOR, minor: MINOR, revision: REVISION }),       // (the default header: AMQP, version 1.0.0)
//@@ end
//@@ fn file=fe2o3-amqp/src/transport/protocol_header.rs impl=`impl ProtocolHeader` name=amqp
//@@ subst `..Default::default()` => `..ProtocolHeader::default_hdr()` rule=R16
//@@ subst `Self {` => `ProtocolHeader {` rule=optional-R2
//@@ spec
    ensures r == (ProtocolHeader { id: ProtocolId::Amqp, major: MAJOR, minor: MINOR, revision: REVISION }),       // [C06.header.amqp-is-amqp-1-0-0] [C19.header.amqp-is-amqp-1-0-0] the AMQP header this library sends and expects: protocol id AMQP, version 1.0.0
//@@ end
//@@ fn file=fe2o3-amqp/src/transport/protocol_header.rs impl=`impl ProtocolHeader` name=sasl
//@@ subst `..Default::default()` => `..ProtocolHeader::default_hdr()` rule=R16
//@@ subst `Self {` => `ProtocolHeader {` rule=optional-R2
//@@ spec
    ensures r == (ProtocolHeader { id: ProtocolId::Sasl, major: MAJOR, minor: MINOR, revision: REVISION }),       // [C19.header.sasl-is-sasl-1-0-0] the SASL header: protocol id SASL (3), version 1.0.0 -- a peer that skips the SASL layer sends the other one and is refused
//@@ end
//@@ fn file=fe2o3-amqp/src/transport/protocol_header.rs impl=`impl ProtocolHeader` name=is_sasl
//@@ spec
    ensures r == (self.id is Sasl),
//@@ end
}
#[verifier::external_body]
pub fn hdr_ne(a: &ProtocolHeader, b: &ProtocolHeader) -> (r: bool) ensures r == (*a != *b) { unimplemented!() }

macro_rules! opaque {
    ($($n:ident),*) => { verus!{ $(
        #[verifier::external_body]
        pub struct $n { _p: u8 }
    )* } }
}
opaque!(IoError, Bytes8);
pub enum NegotiationError { Io(IoError), ProtocolHeaderMismatch(Bytes8), NotImplemented(Option<String>), IllegalState, Other }
pub trait ErrInto<T>: Sized { spec fn conv(self) -> T; fn err_into(self) -> (r: T) ensures r == self.conv(); }
impl ErrInto<NegotiationError> for NegotiationError { open spec fn conv(self) -> NegotiationError { self } fn err_into(self) -> (r: NegotiationError) { let e = self; assert(e == <NegotiationError as ErrInto<NegotiationError>>::conv(self)); e } }
impl ErrInto<NegotiationError> for IoError { open spec fn conv(self) -> NegotiationError { NegotiationError::Io(self) } fn err_into(self) -> (r: NegotiationError) { NegotiationError::Io(self) } }
#[verifier::external_body]
pub fn eof_error() -> (r: NegotiationError) { unimplemented!() }
#[verifier::external_body]
pub fn hdr_into_bytes(h: ProtocolHeader) -> (r: Bytes8) { unimplemented!() }
#[verifier::external_body]
pub fn fmt_msg() -> (r: String) { unimplemented!() }

//@@ type file=fe2o3-amqp-types/src/states.rs kind=enum name=ConnectionState
//@@ end

pub struct HdrWrite { pub sent: Ghost<Seq<ProtocolHeader>> }
pub struct HdrRead { pub got: Ghost<Seq<ProtocolHeader>>, pub received: Ghost<Seq<u8>>, pub unread: Ghost<Seq<u8>> }
impl HdrWrite {
    #[verifier::external_body]
    pub fn send(&mut self, h: ProtocolHeader) -> (r: Result<(), IoError>)
        ensures r is Ok ==> final(self).sent@ == old(self).sent@.push(h), r is Err ==> final(self).sent@ == old(self).sent@,
    { unimplemented!() }
}
impl HdrRead {
    #[verifier::external_body]
    pub fn next(&mut self) -> (r: Option<Result<ProtocolHeader, NegotiationError>>)
        ensures (match r { Some(Ok(h)) => final(self).got@ == old(self).got@.push(h), _ => final(self).got@ == old(self).got@ }),
            final(self).unread == final(self).received,       // whatever was read from the socket beyond the header is in the read buffer
    { unimplemented!() }
}
/// the frame transport built from the two halves once the headers are exchanged
pub struct TransportS { pub hdr_sent: Ghost<Seq<ProtocolHeader>>, pub hdr_got: Ghost<Seq<ProtocolHeader>> }
#[verifier::external_body]
pub fn bind_after_headers(w: HdrWrite, r: HdrRead) -> (t: TransportS) ensures t.hdr_sent@ == w.sent@, t.hdr_got@ == r.got@ { unimplemented!() }
//@@ trusted the switch of codecs after the header exchange, piece by piece: length_delimited_encoder / decoder (unit TRANSPORT) yield opaque codecs; map_encoder / map_decoder keep the traces AND the read buffer (tokio_util), into_inner gives the bare half without it, FramedRead::new / FramedWrite::new start with an empty buffer; Transport::bind_to_framed_codec takes the halves as they are
pub struct ProtocolHeaderCodec {}
pub struct LdEncoder {}
pub struct LdDecoder {}
pub fn length_delimited_encoder(n: usize) -> (r: LdEncoder) { LdEncoder {} }
pub fn length_delimited_decoder(n: usize) -> (r: LdDecoder) { LdDecoder {} }
pub struct FrameWrite { pub sent: Ghost<Seq<ProtocolHeader>> }
pub struct FrameRead { pub got: Ghost<Seq<ProtocolHeader>>, pub received: Ghost<Seq<u8>>, pub unread: Ghost<Seq<u8>> }
pub struct IoW { pub sent: Ghost<Seq<ProtocolHeader>> }
pub struct IoR { pub got: Ghost<Seq<ProtocolHeader>>, pub received: Ghost<Seq<u8>> }
impl HdrWrite {
    #[verifier::external_body]
    pub fn map_encoder<F: FnOnce(ProtocolHeaderCodec) -> LdEncoder>(self, f: F) -> (r: FrameWrite) ensures r.sent == self.sent { unimplemented!() }
    #[verifier::external_body]
    pub fn into_inner(self) -> (r: IoW) ensures r.sent == self.sent { unimplemented!() }
}
impl HdrRead {
    #[verifier::external_body]
    pub fn map_decoder<F: FnOnce(ProtocolHeaderCodec) -> LdDecoder>(self, f: F) -> (r: FrameRead) ensures r.got == self.got, r.received == self.received, r.unread == self.unread { unimplemented!() }
    #[verifier::external_body]
    pub fn into_inner(self) -> (r: IoR) ensures r.got == self.got, r.received == self.received { unimplemented!() }
}
pub struct FramedWrite {}
pub struct FramedRead {}
impl FramedWrite { #[verifier::external_body] pub fn new(io: IoW, c: LdEncoder) -> (r: FrameWrite) ensures r.sent == io.sent { unimplemented!() } }
impl FramedRead { #[verifier::external_body] pub fn new(io: IoR, c: LdDecoder) -> (r: FrameRead) ensures r.got == io.got, r.received == io.received, r.unread@ == Seq::<u8>::empty() { unimplemented!() }
    /// tokio_util: as `new`, with an initial buffer capacity -- a new read half starts with an EMPTY buffer whatever its capacity
    #[verifier::external_body] pub fn with_capacity(io: IoR, c: LdDecoder, capacity: usize) -> (r: FrameRead) ensures r.got == io.got, r.received == io.received, r.unread@ == Seq::<u8>::empty() { unimplemented!() } }
pub struct Transport {}
impl Transport {
    #[verifier::external_body]
    pub fn bind_to_framed_codec(w: FrameWrite, r: FrameRead, idle_timeout: Ghost<int>) -> (t: TransportS)
        requires r.unread@ == r.received@,        // [C06.header.pipelined-octets-survive-the-codec-switch] incoming frames are decoded identically however the byte stream is split across reads: octets of the peer's first frame (its Open) that arrived in the same read as its protocol header are still in the read buffer when the frame codec takes over
        ensures t.hdr_sent@ == w.sent@, t.hdr_got@ == r.got@,
    { unimplemented!() }
}

//@@ fn file=fe2o3-amqp/src/transport/mod.rs name=send_amqp_proto_header
//@@ qmark
//@@ generics
//@@ nowhere
//@@ param framed_write : &mut HdrWrite
//@@ spec
    ensures
        (match *old(local_state) {
            ConnectionState::Start => r is Ok ==> *final(local_state) is HeaderSent,
            ConnectionState::HeaderReceived => r is Ok ==> *final(local_state) is HeaderExchange,
            _ => r is Err,
        }),                                                                                                        // [C12.header.state] the header is sent from START or HDR-RCVD only
        r is Ok ==> final(framed_write).sent@ == old(framed_write).sent@.push(proto_header),                       // [C12.header.sent-once] exactly one header is written
        r is Err ==> final(framed_write).sent@ == old(framed_write).sent@ && *final(local_state) == *old(local_state),
//@@ end

//@@ fn file=fe2o3-amqp/src/transport/mod.rs name=read_and_compare_amqp_proto_header
//@@ qmark
//@@ generics
//@@ nowhere
//@@ param framed_read : &mut HdrRead
//@@ subst `|| { NegotiationError::Io(io::Error::new( io::ErrorKind::UnexpectedEof, "Waiting for header exchange", )) }` => `|| -> (o: NegotiationError) { eof_error() }` rule=R18
//@@ subst `incoming_header != *proto_header` => `hdr_ne(&incoming_header, proto_header)` rule=R9 unless `incoming_header(!=|==)`
//@@ subst `format!( "Expecting {:?}, found {:?}", proto_header, incoming_header )` => `fmt_msg()` rule=R9
//@@ spec
    ensures
        r is Ok ==> final(framed_read).unread == final(framed_read).received,
        r is Ok ==> r->Ok_0 == *proto_header && final(framed_read).got@ == old(framed_read).got@.push(*proto_header) && *final(local_state) == *old(local_state),   // [C12.header.peer-header-checked] negotiation goes on only if the peer's header is exactly the expected protocol id and version
        r is Err ==> *final(local_state) == *old(local_state) || *final(local_state) is End,
//@@ end

//@@ fn file=fe2o3-amqp/src/transport/mod.rs name=recv_amqp_proto_header
//@@ qmark
//@@ generics
//@@ nowhere
//@@ param framed_read : &mut HdrRead
//@@ spec
    ensures
        (match *old(local_state) {
            ConnectionState::Start => r is Ok ==> *final(local_state) is HeaderReceived,
            ConnectionState::HeaderSent => r is Ok ==> *final(local_state) is HeaderExchange,
            _ => r is Err,
        }),
        r is Ok ==> final(framed_read).unread == final(framed_read).received,
        r is Ok ==> final(framed_read).got@ == old(framed_read).got@.push(proto_header),                         // [C12.header.peer-header-checked]
//@@ end

impl TransportS {
//@@ fn file=fe2o3-amqp/src/transport/mod.rs impl=`~impl<Io>Transport<Io,amqp::Frame>whereIo:AsyncRead+AsyncWrite+Unpin` name=negotiate_amqp_header
//@@ qmark
//@@ generics
//@@ nowhere
//@@ param framed_write : HdrWrite
//@@ param framed_read : HdrRead
//@@ param idle_timeout : Ghost<int>
//@@ ret Result<TransportS, NegotiationError>
//@@ subst `|_v0|` => `|_v0: ProtocolHeaderCodec|` rule=optional-R5
//@@ subst `|_v1|` => `|_v1: ProtocolHeaderCodec|` rule=optional-R5
//@@ spec
    requires framed_write.sent@.len() == 0, framed_read.got@.len() == 0, framed_read.unread == framed_read.received,
    ensures
        r is Ok ==> *old(local_state) is Start && *final(local_state) is HeaderExchange
            && r->Ok_0.hdr_sent@ =~= seq![ProtocolHeader { id: ProtocolId::Amqp, major: 1, minor: 0, revision: 0 }]                  // [C12.header.first] the AMQP 1.0.0 header is the first and only thing written before the frame codec takes over
            && r->Ok_0.hdr_got@ =~= seq![ProtocolHeader { id: ProtocolId::Amqp, major: 1, minor: 0, revision: 0 }],                  // [C19.header.no-amqp-after-wrong-header] ... and the frame transport exists only if the peer's first 8 bytes were the AMQP 1.0.0 header (a SASL or TLS header, or another version, ends in Err)
//@@ end
}

pub struct SaslTransportS { pub hdr_sent: Ghost<Seq<ProtocolHeader>>, pub hdr_got: Ghost<Seq<ProtocolHeader>> }
#[verifier::external_body]
pub fn bind_sasl_after_headers(w: HdrWrite, r: HdrRead) -> (t: SaslTransportS) ensures t.hdr_sent@ == w.sent@, t.hdr_got@ == r.got@ { unimplemented!() }
impl SaslTransportS {
    #[verifier::external_body]
    pub fn bind_to_framed_codec(w: FrameWrite, r: FrameRead, idle_timeout: Option<u8>) -> (t: SaslTransportS)
        requires r.unread@ == r.received@,        // [C06.header.pipelined-octets-survive-the-codec-switch] (SASL layer) octets of the peer's first SASL frame read together with its header stay in the read buffer
        ensures t.hdr_sent@ == w.sent@, t.hdr_got@ == r.got@,
    { unimplemented!() }
//@@ fn file=fe2o3-amqp/src/transport/mod.rs impl=`~impl<Io>Transport<Io,sasl::Frame>whereIo:AsyncRead+AsyncWrite+Unpin` name=negotiate_sasl_header
//@@ qmark
//@@ generics
//@@ nowhere
//@@ param framed_write : HdrWrite
//@@ param framed_read : HdrRead
//@@ ret Result<SaslTransportS, NegotiationError>
//@@ subst `|| { NegotiationError::Io(std::io::Error::new( std::io::ErrorKind::UnexpectedEof, "Waiting for SASL header exchange", )) }` => `|| -> (o: NegotiationError) { eof_error() }` rule=R18
//@@ subst `incoming_header.into()` => `hdr_into_bytes(incoming_header)` rule=R16
//@@ subst `|_v0|` => `|_v0: ProtocolHeaderCodec|` rule=optional-R5
//@@ subst `|_v1|` => `|_v1: ProtocolHeaderCodec|` rule=optional-R5
//@@ subst `Self::bind_to_framed_codec(` => `SaslTransportS::bind_to_framed_codec(` rule=R2
//@@ spec
    requires framed_write.sent@.len() == 0, framed_read.got@.len() == 0, framed_read.unread == framed_read.received,
    ensures
        r is Ok ==> r->Ok_0.hdr_sent@ =~= seq![ProtocolHeader { id: ProtocolId::Sasl, major: 1, minor: 0, revision: 0 }]
            && r->Ok_0.hdr_got@ =~= seq![ProtocolHeader { id: ProtocolId::Sasl, major: 1, minor: 0, revision: 0 }],                  // [C19.header.sasl-layer-not-skipped] a SASL exchange (on either side) starts only if the peer's first 8 bytes were the SASL 1.0.0 header: a peer that skips the SASL layer and sends the AMQP header is refused
//@@ end
}

} // verus!
fn main() {}
