//@@ unit VALUETREE
#![feature(allocator_api)]
#![allow(unused_imports, unused_variables, dead_code, unused_mut, unused_parens)]
use vstd::prelude::*;

verus! {

//@@ trusted the value handed to a compound value-tree serializer (`T: Serialize`) is a stand-in: serialized through a value::ser::Serializer it returns tv(value, markers) -- an uninterpreted function of the value and of the two one-shot markers of the serializer it is handed (the tree twin of unit SERENTRY's enc(value, mode) and unit SIZEENTRY's sz(value, mode)) -- or fails; on success it has consumed the markers (what THIS unit proves of serialize_i64 / serialize_str / serialize_bytes / SeqSerializer::end, the only places that read them)
//@@ trusted OrderedMap<Value, Value> is an opaque value with the view `entries in insertion order`; insert is indexmap's (uninterpreted ins(entries, key, value)); OrderedFloat / ByteBuf / String / Symbol / Timestamp / decimals / Uuid payloads are opaque values built by uninterpreted constructors from the argument they are built from
//@@ trusted the LazyValue arm of serialize_bytes decodes its bytes through the byte deserializer (units DEENTRY / READERS): a stand-in returning decoded(bytes) or failing
//@@ trusted that tv(v, m) for the leaf values is the tree whose encoding is enc(v, m) is what unit VALUESER decides per variant ([C20.value.same-call-as-typed]); THIS unit decides that the compound serializers of value/ser.rs assemble exactly the elements / fields / entries / descriptor the byte writers of ser.rs (unit SERENTRY) write, in the same order, under the same name tables

pub enum Error { InvalidValue, Other }
pub trait ErrInto<T>: Sized { spec fn conv(self) -> T; fn err_into(self) -> (r: T) ensures r == self.conv(); }
impl ErrInto<Error> for Error { open spec fn conv(self) -> Error { self } fn err_into(self) -> (r: Error) { let e = self; assert(e == <Error as ErrInto<Error>>::conv(self)); e } }

//@@ type file=serde_amqp/src/util.rs kind=enum name=NonNativeType
//@@ end
//@@ type file=serde_amqp/src/util.rs kind=enum name=SequenceType
//@@ end
//@@ type file=serde_amqp/src/util.rs kind=enum name=FieldRole
//@@ end
//@@ strconsts file=serde_amqp/src/constants.rs names=DESCRIBED_BASIC,DESCRIBED_LIST,DESCRIBED_MAP,DESCRIPTOR,VALUE,ARRAY,DECIMAL32,DECIMAL64,DECIMAL128,SYMBOL,SYMBOL_REF,TIMESTAMP,UUID,LAZY_VALUE lemma=lemma_names_distinct label=`[C20.constants.newtype-names-distinct] the names are pairwise different strings`

macro_rules! opaque {
    ($($n:ident),*) => { verus!{ $( #[verifier::external_body] pub struct $n { _p: u8 } )* } }
}
opaque!(OF32, OF64, ByteBuf, StringS, Symbol, Timestamp, Dec32, Dec64, Dec128, Uuid, MapS, StrV, BytesV);
pub uninterp spec fn of32(v: f32) -> OF32;
pub uninterp spec fn of64(v: f64) -> OF64;
pub uninterp spec fn string_of(v: StrV) -> StringS;
pub uninterp spec fn symbol_of(v: StrV) -> Symbol;
pub uninterp spec fn timestamp_of(v: i64) -> Timestamp;
pub uninterp spec fn bytebuf_of(v: BytesV) -> ByteBuf;
pub uninterp spec fn dec32_of(v: BytesV) -> Option<Dec32>;
pub uninterp spec fn dec64_of(v: BytesV) -> Option<Dec64>;
pub uninterp spec fn dec128_of(v: BytesV) -> Option<Dec128>;
pub uninterp spec fn uuid_of(v: BytesV) -> Option<Uuid>;
pub uninterp spec fn decoded(v: BytesV) -> Option<Value>;
impl OF32 { #[verifier::external_body] pub fn from(v: f32) -> (r: OF32) ensures r == of32(v) { unimplemented!() } }
impl OF64 { #[verifier::external_body] pub fn from(v: f64) -> (r: OF64) ensures r == of64(v) { unimplemented!() } }
impl StringS { #[verifier::external_body] pub fn from(v: &StrV) -> (r: StringS) ensures r == string_of(*v) { unimplemented!() } }
impl Symbol { #[verifier::external_body] pub fn from(v: &StrV) -> (r: Symbol) ensures r == symbol_of(*v) { unimplemented!() } }
impl Timestamp { #[verifier::external_body] pub fn from(v: i64) -> (r: Timestamp) ensures r == timestamp_of(v) { unimplemented!() } }
impl ByteBuf { #[verifier::external_body] pub fn from(v: &BytesV) -> (r: ByteBuf) ensures r == bytebuf_of(*v) { unimplemented!() } }
macro_rules! try_from_bytes {
    ($($n:ident => $s:ident),*) => { verus!{ $( impl $n {
        #[verifier::external_body]
        pub fn try_from(v: &BytesV) -> (r: Result<$n, Error>) ensures (match $s(*v) { Some(x) => r == Ok::<$n, Error>(x), None => r is Err }) { unimplemented!() }
    } )* } }
}
try_from_bytes!(Dec32 => dec32_of, Dec64 => dec64_of, Dec128 => dec128_of, Uuid => uuid_of);
impl BytesV { pub fn to_vec(&self) -> (r: &BytesV) ensures r == self { self } }
pub struct SliceReader<'a> { pub b: &'a BytesV }
impl<'a> SliceReader<'a> { pub fn new(b: &'a BytesV) -> (r: Self) ensures r.b == b { SliceReader { b } } }
pub struct ByteDeserializer<'a> { pub r: SliceReader<'a> }
impl<'a> ByteDeserializer<'a> { pub fn new(r: SliceReader<'a>) -> (d: Self) ensures d.r == r { ByteDeserializer { r } } }

//@@ type file=serde_amqp/src/descriptor.rs kind=enum name=Descriptor
//@@ end
//@@ type file=serde_amqp/src/described.rs kind=struct name=Described
//@@ end
//@@ type file=serde_amqp/src/primitives/array.rs kind=struct name=Array
//@@ end
impl<T> Array<T> {
//@@ fn file=serde_amqp/src/primitives/array.rs impl=`impl<T> From<Vec<T>> for Array<T>` name=from id=Array::from
//@@ spec
    ensures r.0 == val,
//@@ end
}

//@@ type file=serde_amqp/src/value/mod.rs kind=enum name=Value
//@@ subst `OrderedFloat<f32>` => `OF32` rule=R11
//@@ subst `OrderedFloat<f64>` => `OF64` rule=R11
//@@ subst `String(String)` => `String(StringS)` rule=R11
//@@ subst `Map(OrderedMap<Value, Value>)` => `Map(MapS)` rule=R11
//@@ end
impl Value {
    #[verifier::external_body]
    pub fn deserialize(de: &mut ByteDeserializer<'_>) -> (r: Result<Value, Error>)
        ensures (match decoded(*old(de).r.b) { Some(v) => r is Ok ==> r->Ok_0 == v, None => r is Err }),
    { unimplemented!() }
}
impl MapS {
    pub uninterp spec fn view(&self) -> Seq<(Value, Value)>;
    #[verifier::external_body]
    pub fn new() -> (r: MapS) ensures r@ == Seq::<(Value, Value)>::empty() { unimplemented!() }
    #[verifier::external_body]
    pub fn insert(&mut self, k: Value, v: Value) -> (r: Option<Value>) ensures final(self)@ == ins(old(self)@, k, v) { unimplemented!() }
}
pub uninterp spec fn ins(m: Seq<(Value, Value)>, k: Value, v: Value) -> Seq<(Value, Value)>;
pub fn vec_two(a: Value, b: Value) -> (r: Vec<Value>) ensures r@ == seq![a, b] { let mut v = Vec::new(); v.push(a); v.push(b); v }

//@@ type file=serde_amqp/src/value/ser.rs kind=struct name=Serializer
//@@ end
pub open spec fn plain() -> Serializer { Serializer { non_native_type: None, seq_type: None } }

#[verifier::external_body]
pub struct ValS { _p: u8 }
pub uninterp spec fn tv(v: ValS, m: Serializer) -> Value;
impl ValS {
    #[verifier::external_body]
    pub fn serialize(&self, se: &mut Serializer) -> (r: Result<Value, Error>)
        ensures r is Ok ==> r->Ok_0 == tv(*self, *old(se)) && *final(se) == plain(),
    { unimplemented!() }
}
pub uninterp spec fn key_tv(k: Seq<char>, m: Serializer) -> Value;
#[verifier::external_body]
pub fn str_as_val(key: &str) -> (r: &ValS) ensures forall|m: Serializer| #[trigger] tv(*r, m) == key_tv(key@, m) { unimplemented!() }
#[verifier::external_body]
pub fn u32_as_val(v: &u32) -> (r: &ValS) ensures tv(*r, plain()) == Value::Uint(*v) { unimplemented!() }

impl Serializer {
//@@ fn file=serde_amqp/src/value/ser.rs impl=`impl Serializer` name=new id=Serializer::new
//@@ spec
    ensures r == plain(),
//@@ end
}

//@@ fn file=serde_amqp/src/value/ser.rs name=to_value
//@@ generics
//@@ nowhere
//@@ param val : &ValS
//@@ subst `ser::Serialize::serialize(val, &mut ser)` => `val.serialize(&mut ser)` rule=R16
//@@ spec
    ensures r is Ok ==> r->Ok_0 == tv(*val, plain()),       // [C20.tree.entry-starts-unmarked] to_value hands the value a serializer with no marker pending -- the tree twin of to_vec's fresh byte serializer
//@@ end

// ================================================================ sequences, tuples, maps
//@@ type file=serde_amqp/src/value/ser.rs kind=struct name=SeqSerializer
//@@ end
//@@ type file=serde_amqp/src/value/ser.rs kind=struct name=MapSerializer
//@@ subst `OrderedMap<Value, Value>` => `MapS` rule=R11
//@@ end

impl<'a> SeqSerializer<'a> {
//@@ fn file=serde_amqp/src/value/ser.rs impl=`impl<'a> SeqSerializer<'a>` name=new id=SeqSerializer::new
//@@ spec
    ensures *r.se == *old(se), *final(se) == *final(r.se), r.vec@ == Seq::<Value>::empty(),
//@@ end

//@@ fn file=serde_amqp/src/value/ser.rs impl=`impl AsMut<Serializer> for SeqSerializer<'_>` name=as_mut id=SeqSerializer::as_mut
//@@ spec
    ensures *r == *old(self).se, *final(self).se == *final(r), final(self).vec == old(self).vec,
//@@ end

//@@ fn file=serde_amqp/src/value/ser.rs impl=`impl ser::SerializeSeq for SeqSerializer<'_>` name=serialize_element id=SeqSerializer::serialize_element
//@@ qmark
//@@ generics
//@@ nowhere
//@@ param value : &ValS
//@@ spec
    ensures *final(self).se == *old(self).se, *final(final(self).se) == *final(old(self).se),       // [C20.tree.marker-stays-with-its-sequence] the array marker of the enclosing serializer is neither consumed by nor handed to an element: elements are built by a fresh serializer
        r is Ok ==> final(self).vec@ == old(self).vec@.push(tv(*value, plain())),       // [C20.tree.seq-elements-in-order] every element becomes one node, appended after the nodes of the elements before it -- the order ser.rs writes them in (unit SERENTRY)
        r is Err ==> final(self).vec@ == old(self).vec@,
//@@ end

//@@ fn file=serde_amqp/src/value/ser.rs impl=`impl ser::SerializeSeq for SeqSerializer<'_>` name=end id=SeqSerializer::end
//@@ orsplit
//@@ blockarms
//@@ spec
    ensures
        final(self.se).seq_type is None, final(self.se).non_native_type == old(self.se).non_native_type,       // [C20.tree.sequence-marker-is-one-shot]
        old(self.se).seq_type is None || old(self.se).seq_type == Some(SequenceType::List) ==> r == Ok::<Value, Error>(Value::List(self.vec)),       // [C20.tree.plain-sequence-is-a-list] [C05.tree.plain-sequence-is-a-list]
        !(old(self.se).seq_type is None || old(self.se).seq_type == Some(SequenceType::List) || old(self.se).seq_type == Some(SequenceType::Array)) ==> r is Err,
        old(self.se).seq_type == Some(SequenceType::Array) ==> r == Ok::<Value, Error>(Value::Array(Array(self.vec))),       // [C20.tree.marked-sequence-is-an-array] [C05.tree.marked-sequence-is-an-array] the nodes in the order they were appended, nothing added or dropped
//@@ end

//@@ fn file=serde_amqp/src/value/ser.rs impl=`impl ser::SerializeTuple for SeqSerializer<'_>` name=serialize_element id=tuple_serialize_element as=tuple_serialize_element
//@@ qmark
//@@ generics
//@@ nowhere
//@@ param value : &ValS
//@@ spec
    ensures *final(self).se == *old(self).se, *final(final(self).se) == *final(old(self).se),
        r is Ok ==> final(self).vec@ == old(self).vec@.push(tv(*value, plain())),       // [C20.tree.seq-elements-in-order]
//@@ end

//@@ fn file=serde_amqp/src/value/ser.rs impl=`impl ser::SerializeTuple for SeqSerializer<'_>` name=end id=tuple_end as=tuple_end
//@@ spec
    ensures r == Ok::<Value, Error>(Value::List(self.vec)), *final(self.se) == *old(self.se),       // [C20.tree.tuple-is-a-list] a tuple is a list whatever marker is pending (ser.rs writes a list header for it)
//@@ end
}

impl<'a> MapSerializer<'a> {
//@@ fn file=serde_amqp/src/value/ser.rs impl=`impl<'a> MapSerializer<'a>` name=new id=MapSerializer::new
//@@ subst `Default::default()` => `MapS::new()` rule=R11
//@@ spec
    ensures *r.se == *old(se), *final(se) == *final(r.se), r.map@ == Seq::<(Value, Value)>::empty(),
//@@ end

//@@ fn file=serde_amqp/src/value/ser.rs impl=`impl AsMut<Serializer> for MapSerializer<'_>` name=as_mut id=MapSerializer::as_mut
//@@ spec
    ensures *r == *old(self).se, *final(self).se == *final(r), final(self).map == old(self).map,
//@@ end

//@@ fn file=serde_amqp/src/value/ser.rs impl=`impl ser::SerializeMap for MapSerializer<'_>` name=serialize_entry id=MapSerializer::serialize_entry
//@@ qmark
//@@ generics
//@@ nowhere
//@@ param key : &ValS
//@@ param value : &ValS
//@@ spec
    ensures *final(self).se == *old(self).se, *final(final(self).se) == *final(old(self).se),
        r is Ok ==> final(self).map@ == ins(old(self).map@, tv(*key, plain()), tv(*value, plain())),       // [C20.tree.map-entries-in-order] an entry is the node of its key and the node of its value, each built with no marker pending (the key has consumed its own), inserted after the entries before it
        r is Err ==> final(self).map@ == old(self).map@,
//@@ end

//@@ fn file=serde_amqp/src/value/ser.rs impl=`impl ser::SerializeMap for MapSerializer<'_>` name=end id=MapSerializer::end
//@@ spec
    ensures r == Ok::<Value, Error>(Value::Map(self.map)), *final(self.se) == *old(self.se),       // [C20.tree.map-is-a-map]
//@@ end
}

// ================================================================ composites
//@@ type file=serde_amqp/src/value/ser.rs kind=enum name=TupleStructSerializerKind
//@@ end
//@@ type file=serde_amqp/src/value/ser.rs kind=struct name=TupleStructSerializer
//@@ end
//@@ type file=serde_amqp/src/value/ser.rs kind=enum name=StructSerializerKind
//@@ end
//@@ type file=serde_amqp/src/value/ser.rs kind=struct name=StructSerializer
//@@ end

/// the descriptor a node stands for: a symbol is a name, a ulong is a code, nothing else describes (AMQP 1.0 part 1, 1.5)
pub open spec fn descriptor_of(v: Value) -> Option<Descriptor> {
    match v { Value::Symbol(name) => Some(Descriptor::Name(name)), Value::Ulong(code) => Some(Descriptor::Code(code)), _ => None }
}
pub open spec fn ts_se(k: TupleStructSerializerKind<'_>) -> Serializer { match k { TupleStructSerializerKind::Basic { se, .. } => *se, TupleStructSerializerKind::List(seq) => *seq.se } }
pub open spec fn st_se(k: StructSerializerKind<'_>) -> Serializer { match k { StructSerializerKind::Basic { se, .. } => *se, StructSerializerKind::List(seq) => *seq.se, StructSerializerKind::Map(map) => *map.se } }
pub open spec fn described_or_bare(d: Option<Descriptor>, value: Value) -> Value {
    match d { Some(descriptor) => Value::Described(Box::new(Described { descriptor, value })), None => value }
}

impl<'a> TupleStructSerializer<'a> {
//@@ fn file=serde_amqp/src/value/ser.rs impl=`impl<'a> TupleStructSerializer<'a>` name=basic id=TupleStructSerializer::basic
//@@ spec
    ensures r.field_role is Descriptor, r.descriptor is None, r.kind is Basic, r.kind->Basic_val is None, ts_se(r.kind) == *old(se),
//@@ end
//@@ fn file=serde_amqp/src/value/ser.rs impl=`impl<'a> TupleStructSerializer<'a>` name=list id=TupleStructSerializer::list
//@@ spec
    ensures r.field_role is Descriptor, r.descriptor is None, r.kind is List, r.kind->List_0.vec@ == Seq::<Value>::empty(), ts_se(r.kind) == *old(se), *final(se) == *final(r.kind->List_0.se),
//@@ end
//@@ fn file=serde_amqp/src/value/ser.rs impl=`impl<'a> TupleStructSerializer<'a>` name=list_fields id=TupleStructSerializer::list_fields
//@@ spec
    ensures r.field_role is Fields, r.descriptor is None, r.kind is List, r.kind->List_0.vec@ == Seq::<Value>::empty(), ts_se(r.kind) == *old(se), *final(se) == *final(r.kind->List_0.se),
//@@ end

//@@ fn file=serde_amqp/src/value/ser.rs impl=`impl AsMut<Serializer> for TupleStructSerializer<'_>` name=as_mut id=TupleStructSerializer::as_mut
//@@ spec
    ensures *r == ts_se(old(self).kind), ts_se(final(self).kind) == *final(r),
        final(self).field_role == old(self).field_role, final(self).descriptor == old(self).descriptor,
        (match (old(self).kind, final(self).kind) {
            (TupleStructSerializerKind::Basic { val: v0, .. }, TupleStructSerializerKind::Basic { val: v1, .. }) => v0 == v1,
            (TupleStructSerializerKind::List(s0), TupleStructSerializerKind::List(s1)) => s0.vec == s1.vec,
            _ => false,
        }),
//@@ end

//@@ fn file=serde_amqp/src/value/ser.rs impl=`impl ser::SerializeTupleStruct for TupleStructSerializer<'_>` name=serialize_field id=TupleStructSerializer::serialize_field dropuses
//@@ qmark
//@@ generics
//@@ nowhere
//@@ blockarms
//@@ param value : &ValS
//@@ spec
    ensures final(self).field_role is Fields,
        old(self).field_role is Descriptor ==> final(self).kind == old(self).kind || true,
        r is Ok && old(self).field_role is Descriptor ==> descriptor_of(tv(*value, ts_se(old(self).kind))) is Some && final(self).descriptor == descriptor_of(tv(*value, ts_se(old(self).kind))),       // [C20.tree.descriptor-is-the-first-field] [C05.tree.descriptor-is-the-first-field] the first field of a described tuple struct is its descriptor: a symbol node names it, a ulong node codes it, anything else is refused; it is kept apart from the fields
        r is Ok && old(self).field_role is Fields ==> final(self).descriptor == old(self).descriptor && (match (old(self).kind, final(self).kind) {
            (TupleStructSerializerKind::Basic { .. }, TupleStructSerializerKind::Basic { val, .. }) => val == Some(tv(*value, plain())),       // [C20.tree.basic-wrapper-is-its-inner-value] a basic described wrapper holds the node of its one inner value
            (TupleStructSerializerKind::List(s0), TupleStructSerializerKind::List(s1)) => s1.vec@ == s0.vec@.push(tv(*value, plain())),       // [C20.tree.composite-fields-in-order] a list-form composite appends the node of every later field, in declaration order (what unit SERENTRY proves ser.rs writes)
            _ => false,
        }),
//@@ end

//@@ fn file=serde_amqp/src/value/ser.rs impl=`impl ser::SerializeTupleStruct for TupleStructSerializer<'_>` name=end id=TupleStructSerializer::end dropuses
//@@ qmark
//@@ blockarms
//@@ spec
    ensures
        r is Ok ==> (match self.kind {
            TupleStructSerializerKind::Basic { val, .. } => val is Some && r->Ok_0 == described_or_bare(self.descriptor, val->Some_0),
            TupleStructSerializerKind::List(seq) => r->Ok_0 == described_or_bare(self.descriptor, if (*seq.se).seq_type == Some(SequenceType::Array) { Value::Array(Array(seq.vec)) } else { Value::List(seq.vec) }),
        }),       // [C20.tree.described-is-descriptor-plus-value] [C05.tree.described-is-descriptor-plus-value] a finished composite is the described node of ITS descriptor and ITS body (the basic wrapper's inner node; the list of the field nodes), or the bare body when no descriptor was given
        self.kind is Basic && self.kind->Basic_val is None ==> r is Err,
//@@ end
}

impl<'a> StructSerializer<'a> {
//@@ fn file=serde_amqp/src/value/ser.rs impl=`impl<'a> StructSerializer<'a>` name=basic id=StructSerializer::basic
//@@ spec
    ensures r.descriptor is None, r.kind is Basic, r.kind->Basic_val is None, st_se(r.kind) == *old(se),
//@@ end
//@@ fn file=serde_amqp/src/value/ser.rs impl=`impl<'a> StructSerializer<'a>` name=list id=StructSerializer::list
//@@ spec
    ensures r.descriptor is None, r.kind is List, r.kind->List_0.vec@ == Seq::<Value>::empty(), st_se(r.kind) == *old(se), *final(se) == *final(r.kind->List_0.se),
//@@ end
//@@ fn file=serde_amqp/src/value/ser.rs impl=`impl<'a> StructSerializer<'a>` name=map id=StructSerializer::map
//@@ spec
    ensures r.descriptor is None, r.kind is Map, r.kind->Map_0.map@ == Seq::<(Value, Value)>::empty(), st_se(r.kind) == *old(se), *final(se) == *final(r.kind->Map_0.se),
//@@ end

//@@ fn file=serde_amqp/src/value/ser.rs impl=`impl AsMut<Serializer> for StructSerializer<'_>` name=as_mut id=StructSerializer::as_mut
//@@ spec
    ensures *r == st_se(old(self).kind), st_se(final(self).kind) == *final(r),
        final(self).descriptor == old(self).descriptor,
        (match (old(self).kind, final(self).kind) {
            (StructSerializerKind::Basic { val: v0, .. }, StructSerializerKind::Basic { val: v1, .. }) => v0 == v1,
            (StructSerializerKind::List(s0), StructSerializerKind::List(s1)) => s0.vec == s1.vec,
            (StructSerializerKind::Map(m0), StructSerializerKind::Map(m1)) => m0.map == m1.map,
            _ => false,
        }),
//@@ end

//@@ fn file=serde_amqp/src/value/ser.rs impl=`impl ser::SerializeStruct for StructSerializer<'_>` name=serialize_field id=StructSerializer::serialize_field dropuses
//@@ qmark
//@@ generics
//@@ nowhere
//@@ blockarms
//@@ param value : &ValS
//@@ subst `map.serialize_entry(key, value)` => `map.serialize_entry(str_as_val(key), value)` rule=R28
//@@ entry
    proof { lemma_names_distinct(); }
//@@ spec
    ensures
        r is Ok && key@ == DESCRIPTOR@ ==> descriptor_of(tv(*value, st_se(old(self).kind))) is Some && final(self).descriptor == descriptor_of(tv(*value, st_se(old(self).kind))),       // [C20.tree.descriptor-is-the-descriptor-field] [C05.tree.descriptor-is-the-descriptor-field] the field named DESCRIPTOR is the descriptor (symbol or ulong node, nothing else) and is kept OUT of the body
        r is Ok && key@ != DESCRIPTOR@ ==> final(self).descriptor == old(self).descriptor && (match (old(self).kind, final(self).kind) {
            (StructSerializerKind::Basic { .. }, StructSerializerKind::Basic { val, .. }) => val == Some(tv(*value, plain())),       // [C20.tree.basic-wrapper-is-its-inner-value]
            (StructSerializerKind::List(s0), StructSerializerKind::List(s1)) => s1.vec@ == s0.vec@.push(tv(*value, plain())),       // [C20.tree.composite-fields-in-order]
            (StructSerializerKind::Map(m0), StructSerializerKind::Map(m1)) => m1.map@ == ins(m0.map@, key_tv(key@, plain()), tv(*value, plain())),       // [C20.tree.map-form-entries-are-name-and-value] a map-form composite enters every other field under its name
            _ => false,
        }),
//@@ end

//@@ fn file=serde_amqp/src/value/ser.rs impl=`impl ser::SerializeStruct for StructSerializer<'_>` name=end id=StructSerializer::end dropuses
//@@ qmark
//@@ blockarms
//@@ spec
    ensures
        r is Ok ==> (match self.kind {
            StructSerializerKind::Basic { val, .. } => val is Some && r->Ok_0 == described_or_bare(self.descriptor, val->Some_0),
            StructSerializerKind::List(seq) => r->Ok_0 == described_or_bare(self.descriptor, if (*seq.se).seq_type == Some(SequenceType::Array) { Value::Array(Array(seq.vec)) } else { Value::List(seq.vec) }),
            StructSerializerKind::Map(map) => r->Ok_0 == described_or_bare(self.descriptor, Value::Map(map.map)),
        }),       // [C20.tree.described-is-descriptor-plus-value] [C05.tree.described-is-descriptor-plus-value]
//@@ end
}

// ================================================================ enum variants
//@@ type file=serde_amqp/src/value/ser.rs kind=struct name=VariantSerializer
//@@ end
impl<'a> VariantSerializer<'a> {
//@@ fn file=serde_amqp/src/value/ser.rs impl=`impl<'a> VariantSerializer<'a>` name=new id=VariantSerializer::new
//@@ spec
    ensures r.variant_index == variant_index, r.buf@ == Seq::<Value>::empty(), *final(se) == *final(r.se), *r.se == *old(se),
//@@ end

//@@ fn file=serde_amqp/src/value/ser.rs impl=`impl ser::SerializeTupleVariant for VariantSerializer<'_>` name=serialize_field id=VariantSerializer::serialize_field
//@@ qmark
//@@ generics
//@@ nowhere
//@@ param value : &ValS
//@@ spec
    ensures final(self).variant_index == old(self).variant_index, *final(final(self).se) == *final(old(self).se), *final(self).se == *old(self).se,
        r is Ok ==> final(self).buf@ == old(self).buf@.push(tv(*value, plain())),       // [C20.tree.variant-fields-in-order]
//@@ end

//@@ fn file=serde_amqp/src/value/ser.rs impl=`impl ser::SerializeTupleVariant for VariantSerializer<'_>` name=end id=VariantSerializer::end
//@@ subst `vec![index, value]` => `vec_two(index, value)` rule=R14
//@@ spec
    ensures r is Ok && r->Ok_0 is List && r->Ok_0->List_0@ == seq![Value::Uint(self.variant_index), Value::List(self.buf)],       // [C20.tree.variant-is-index-then-fields] a tuple / struct variant is the two-element list of its index (a uint, as ser.rs writes it) and the list of its field nodes
//@@ end
}

// ================================================================ entry points of `impl ser::Serializer for &mut Serializer` that read or set the markers
impl Serializer {
//@@ fn file=serde_amqp/src/value/ser.rs impl=`~ser::Serializer for &'a mut Serializer` name=serialize_i64
//@@ selfmut
//@@ orsplit
//@@ blockarms
//@@ ret Result<Value, Error>
//@@ spec
    ensures
        old(self).non_native_type is None ==> r == Ok::<Value, Error>(Value::Long(v)) && *final(self) == *old(self),
        old(self).non_native_type == Some(NonNativeType::Timestamp) ==> r == Ok::<Value, Error>(Value::Timestamp(timestamp_of(v))),       // [C20.tree.marker-selects-the-node] an i64 under the Timestamp marker is a timestamp node, bare it is a long: the same marker table the byte writer keys its constructor on (unit SERFIX)
        !(old(self).non_native_type is None) && old(self).non_native_type != Some(NonNativeType::Timestamp) ==> r is Err,
        r is Ok ==> final(self).non_native_type is None && final(self).seq_type == old(self).seq_type,       // [C20.tree.value-marker-is-one-shot] [C03.tree.value-marker-is-one-shot] a marker applies to the value it was set for and to no later one: a map entry's key and value go through ONE serializer
//@@ end

//@@ fn file=serde_amqp/src/value/ser.rs impl=`~ser::Serializer for &'a mut Serializer` name=serialize_str
//@@ selfmut
//@@ orsplit
//@@ blockarms
//@@ param v : &StrV
//@@ ret Result<Value, Error>
//@@ subst `String::from(v)` => `StringS::from(v)` rule=R11
//@@ spec
    ensures
        old(self).non_native_type is None ==> r == Ok::<Value, Error>(Value::String(string_of(*v))) && *final(self) == *old(self),
        old(self).non_native_type == Some(NonNativeType::Symbol) || old(self).non_native_type == Some(NonNativeType::SymbolRef) ==> r == Ok::<Value, Error>(Value::Symbol(symbol_of(*v))),       // [C20.tree.marker-selects-the-node] a str under either symbol marker is a symbol node, bare it is a string (unit SERSTR: sym8/sym32 vs str8/str32)
        !(old(self).non_native_type is None) && old(self).non_native_type != Some(NonNativeType::Symbol) && old(self).non_native_type != Some(NonNativeType::SymbolRef) ==> r is Err,
        r is Ok ==> final(self).non_native_type is None && final(self).seq_type == old(self).seq_type,       // [C20.tree.value-marker-is-one-shot] [C03.tree.value-marker-is-one-shot]
//@@ end

//@@ fn file=serde_amqp/src/value/ser.rs impl=`~ser::Serializer for &'a mut Serializer` name=serialize_bytes dropuses
//@@ selfmut
//@@ qmark
//@@ blockarms
//@@ param v : &BytesV
//@@ ret Result<Value, Error>
//@@ subst `crate::de::Deserializer::new(reader)` => `ByteDeserializer::new(reader)` rule=R11
//@@ spec
    ensures
        r is Ok ==> (match old(self).non_native_type {
            None => r->Ok_0 == Value::Binary(bytebuf_of(*v)),
            Some(NonNativeType::Dec32) => dec32_of(*v) == Some(r->Ok_0->Decimal32_0) && r->Ok_0 is Decimal32,
            Some(NonNativeType::Dec64) => dec64_of(*v) == Some(r->Ok_0->Decimal64_0) && r->Ok_0 is Decimal64,
            Some(NonNativeType::Dec128) => dec128_of(*v) == Some(r->Ok_0->Decimal128_0) && r->Ok_0 is Decimal128,
            Some(NonNativeType::Uuid) => uuid_of(*v) == Some(r->Ok_0->Uuid_0) && r->Ok_0 is Uuid,
            Some(NonNativeType::LazyValue) => decoded(*v) == Some(r->Ok_0),
            _ => false,
        }),       // [C20.tree.marker-selects-the-node] bytes under a decimal / uuid marker are that fixed-width node, under the LazyValue marker the node their content decodes to, bare a binary (unit SERSTR writes the same table)
        r is Ok ==> final(self).non_native_type is None && final(self).seq_type == old(self).seq_type,       // [C20.tree.value-marker-is-one-shot] [C03.tree.value-marker-is-one-shot]
//@@ end

//@@ fn file=serde_amqp/src/value/ser.rs impl=`~ser::Serializer for &'a mut Serializer` name=serialize_unit
//@@ selfmut
//@@ ret Result<Value, Error>
//@@ spec
    ensures r == Ok::<Value, Error>(Value::Null), *final(self) == *old(self),
//@@ end
//@@ fn file=serde_amqp/src/value/ser.rs impl=`~ser::Serializer for &'a mut Serializer` name=serialize_u32
//@@ selfmut
//@@ ret Result<Value, Error>
//@@ spec
    ensures r == Ok::<Value, Error>(Value::Uint(v)), *final(self) == *old(self),
//@@ end
//@@ fn file=serde_amqp/src/value/ser.rs impl=`~ser::Serializer for &'a mut Serializer` name=serialize_f32
//@@ selfmut
//@@ ret Result<Value, Error>
//@@ subst `OrderedFloat::from(v)` => `OF32::from(v)` rule=R11
//@@ spec
    ensures r == Ok::<Value, Error>(Value::Float(of32(v))), *final(self) == *old(self),       // [C20.tree.float-node] [C03.tree.float-node] a float is the Float node holding that float (ser.rs writes 0x72 + its bit pattern: unit SERFIX)
//@@ end
//@@ fn file=serde_amqp/src/value/ser.rs impl=`~ser::Serializer for &'a mut Serializer` name=serialize_f64
//@@ selfmut
//@@ ret Result<Value, Error>
//@@ subst `OrderedFloat::from(v)` => `OF64::from(v)` rule=R11
//@@ spec
    ensures r == Ok::<Value, Error>(Value::Double(of64(v))), *final(self) == *old(self),       // [C20.tree.float-node] [C03.tree.float-node]
//@@ end
//@@ fn file=serde_amqp/src/value/ser.rs impl=`~ser::Serializer for &'a mut Serializer` name=serialize_none
//@@ selfmut
//@@ ret Result<Value, Error>
//@@ spec
    ensures r == Ok::<Value, Error>(Value::Null),       // [C20.tree.none-is-null] [C05.tree.none-is-null] an absent optional is the null node (ser.rs writes 0x40)
//@@ end
//@@ fn file=serde_amqp/src/value/ser.rs impl=`~ser::Serializer for &'a mut Serializer` name=serialize_unit_struct
//@@ selfmut
//@@ ret Result<Value, Error>
//@@ spec
    ensures r == Ok::<Value, Error>(Value::Null),
//@@ end
//@@ fn file=serde_amqp/src/value/ser.rs impl=`~ser::Serializer for &'a mut Serializer` name=serialize_unit_variant
//@@ selfmut
//@@ ret Result<Value, Error>
//@@ spec
    ensures r == Ok::<Value, Error>(Value::Uint(variant_index)),       // [C20.tree.unit-variant-is-its-index] a unit variant is the uint node of its index (ser.rs writes the index as a uint)
//@@ end

//@@ fn file=serde_amqp/src/value/ser.rs impl=`~ser::Serializer for &'a mut Serializer` name=serialize_some
//@@ selfmut
//@@ generics
//@@ nowhere
//@@ param value : &ValS
//@@ ret Result<Value, Error>
//@@ spec
    ensures r is Ok ==> r->Ok_0 == tv(*value, *old(self)),       // [C20.tree.some-is-transparent] a present optional is the node of its content under the pending markers
//@@ end

//@@ fn file=serde_amqp/src/value/ser.rs impl=`~ser::Serializer for &'a mut Serializer` name=serialize_newtype_struct
//@@ selfmut
//@@ generics
//@@ nowhere
//@@ param value : &ValS
//@@ ret Result<Value, Error>
//@@ entry
    proof { lemma_names_distinct(); }
//@@ spec
    ensures
        r is Ok ==> ({
            let m0 = *old(self);
            // [C20.tree.newtype-built-under-its-marker] [C05.tree.newtype-built-under-its-marker] each AMQP-specific newtype is turned into a node under the marker it is written under (unit SERENTRY, clause newtype.marker-matches-type): the same name -> marker table, or tree and bytes part ways for symbols, timestamps, decimals, uuids, lazy values and arrays
            &&& name@ == SYMBOL@ ==> r->Ok_0 == tv(*value, Serializer { non_native_type: Some(NonNativeType::Symbol), ..m0 })
            &&& name@ == SYMBOL_REF@ ==> r->Ok_0 == tv(*value, Serializer { non_native_type: Some(NonNativeType::SymbolRef), ..m0 })
            &&& name@ == DECIMAL32@ ==> r->Ok_0 == tv(*value, Serializer { non_native_type: Some(NonNativeType::Dec32), ..m0 })
            &&& name@ == DECIMAL64@ ==> r->Ok_0 == tv(*value, Serializer { non_native_type: Some(NonNativeType::Dec64), ..m0 })
            &&& name@ == DECIMAL128@ ==> r->Ok_0 == tv(*value, Serializer { non_native_type: Some(NonNativeType::Dec128), ..m0 })
            &&& name@ == TIMESTAMP@ ==> r->Ok_0 == tv(*value, Serializer { non_native_type: Some(NonNativeType::Timestamp), ..m0 })
            &&& name@ == UUID@ ==> r->Ok_0 == tv(*value, Serializer { non_native_type: Some(NonNativeType::Uuid), ..m0 })
            &&& name@ == LAZY_VALUE@ ==> r->Ok_0 == tv(*value, Serializer { non_native_type: Some(NonNativeType::LazyValue), ..m0 })
            &&& name@ == ARRAY@ ==> r->Ok_0 == tv(*value, Serializer { seq_type: Some(SequenceType::Array), ..m0 })
            &&& !(name@ == SYMBOL@ || name@ == SYMBOL_REF@ || name@ == DECIMAL32@ || name@ == DECIMAL64@ || name@ == DECIMAL128@ || name@ == TIMESTAMP@ || name@ == UUID@ || name@ == LAZY_VALUE@ || name@ == ARRAY@)
                    ==> r->Ok_0 == tv(*value, m0)
        }),
//@@ end

//@@ fn file=serde_amqp/src/value/ser.rs impl=`~ser::Serializer for &'a mut Serializer` name=serialize_newtype_variant dropuses
//@@ selfmut
//@@ qmark
//@@ generics
//@@ nowhere
//@@ orsplit
//@@ param value : &ValS
//@@ ret Result<Value, Error>
//@@ subst `state.serialize_element(&variant_index)?` => `state.serialize_element(u32_as_val(&variant_index))?` rule=R28
//@@ entry
    proof { lemma_names_distinct(); }
//@@ spec
    ensures
        r is Ok && (name@ == DESCRIPTOR@ || name@ == VALUE@) ==> r->Ok_0 == tv(*value, *old(self)),       // [C20.tree.descriptor-and-value-enums-are-transparent] the Descriptor and Value enums are their content, not an index-and-content pair (ser.rs writes them the same way)
        r is Ok && !(name@ == DESCRIPTOR@ || name@ == VALUE@) && (old(self).seq_type is None || old(self).seq_type == Some(SequenceType::List))
            ==> r->Ok_0 is List && r->Ok_0->List_0@ == seq![Value::Uint(variant_index), tv(*value, plain())],       // [C20.tree.newtype-variant-is-index-then-content] any other newtype variant is the two-element list of its index and its content, in that order
//@@ end

//@@ fn file=serde_amqp/src/value/ser.rs impl=`~ser::Serializer for &'a mut Serializer` name=serialize_seq
//@@ selfmut
//@@ ret Result<SeqSerializer<'_>, Error>
//@@ spec
    ensures r is Ok, *r->Ok_0.se == *old(self), *final(self) == *final(r->Ok_0.se), r->Ok_0.vec@ == Seq::<Value>::empty(),
//@@ end
//@@ fn file=serde_amqp/src/value/ser.rs impl=`~ser::Serializer for &'a mut Serializer` name=serialize_tuple
//@@ selfmut
//@@ ret Result<SeqSerializer<'_>, Error>
//@@ spec
    ensures r is Ok, *r->Ok_0.se == *old(self), *final(self) == *final(r->Ok_0.se), r->Ok_0.vec@ == Seq::<Value>::empty(),
//@@ end
//@@ fn file=serde_amqp/src/value/ser.rs impl=`~ser::Serializer for &'a mut Serializer` name=serialize_map
//@@ selfmut
//@@ ret Result<MapSerializer<'_>, Error>
//@@ subst `OrderedMap::new()` => `MapS::new()` rule=R11
//@@ spec
    ensures r is Ok, *r->Ok_0.se == *old(self), *final(self) == *final(r->Ok_0.se), r->Ok_0.map@ == Seq::<(Value, Value)>::empty(),
//@@ end

//@@ fn file=serde_amqp/src/value/ser.rs impl=`~ser::Serializer for &'a mut Serializer` name=serialize_tuple_struct
//@@ selfmut
//@@ blockarms
//@@ ret Result<TupleStructSerializer<'_>, Error>
//@@ entry
    proof { lemma_names_distinct(); }
//@@ spec
    ensures r is Ok, r->Ok_0.descriptor is None, ts_se(r->Ok_0.kind) == *old(self),
        // [C20.tree.tuple-struct-form-by-name] [C05.tree.tuple-struct-form-by-name] the name a tuple struct announces itself with selects its form exactly as in ser.rs (unit SERENTRY): DESCRIBED_LIST a described list whose first field is the descriptor, DESCRIBED_BASIC a described wrapper around one value, any other name a plain list of all its fields
        name@ == DESCRIBED_LIST@ ==> r->Ok_0.kind is List && r->Ok_0.field_role is Descriptor && r->Ok_0.kind->List_0.vec@ == Seq::<Value>::empty(),
        name@ == DESCRIBED_BASIC@ ==> r->Ok_0.kind is Basic && r->Ok_0.field_role is Descriptor && r->Ok_0.kind->Basic_val is None,
        name@ != DESCRIBED_LIST@ && name@ != DESCRIBED_BASIC@ ==> r->Ok_0.kind is List && r->Ok_0.field_role is Fields && r->Ok_0.kind->List_0.vec@ == Seq::<Value>::empty(),
//@@ end

//@@ fn file=serde_amqp/src/value/ser.rs impl=`~ser::Serializer for &'a mut Serializer` name=serialize_struct
//@@ selfmut
//@@ blockarms
//@@ ret Result<StructSerializer<'_>, Error>
//@@ entry
    proof { lemma_names_distinct(); }
//@@ spec
    ensures r is Ok, r->Ok_0.descriptor is None, st_se(r->Ok_0.kind) == *old(self),
        // [C20.tree.struct-form-by-name] [C05.tree.struct-form-by-name] DESCRIBED_LIST -> list form, DESCRIBED_MAP -> map form, DESCRIBED_BASIC -> wrapper, any other name -> a plain list of the fields (as ser.rs)
        name@ == DESCRIBED_LIST@ ==> r->Ok_0.kind is List && r->Ok_0.kind->List_0.vec@ == Seq::<Value>::empty(),
        name@ == DESCRIBED_MAP@ ==> r->Ok_0.kind is Map && r->Ok_0.kind->Map_0.map@ == Seq::<(Value, Value)>::empty(),
        name@ == DESCRIBED_BASIC@ ==> r->Ok_0.kind is Basic && r->Ok_0.kind->Basic_val is None,
        name@ != DESCRIBED_LIST@ && name@ != DESCRIBED_MAP@ && name@ != DESCRIBED_BASIC@ ==> r->Ok_0.kind is List && r->Ok_0.kind->List_0.vec@ == Seq::<Value>::empty(),
//@@ end

//@@ fn file=serde_amqp/src/value/ser.rs impl=`~ser::Serializer for &'a mut Serializer` name=serialize_tuple_variant
//@@ selfmut
//@@ ret Result<VariantSerializer<'_>, Error>
//@@ spec
    ensures r is Ok, r->Ok_0.variant_index == variant_index, r->Ok_0.buf@ == Seq::<Value>::empty(),
//@@ end
//@@ fn file=serde_amqp/src/value/ser.rs impl=`~ser::Serializer for &'a mut Serializer` name=serialize_struct_variant
//@@ selfmut
//@@ ret Result<VariantSerializer<'_>, Error>
//@@ spec
    ensures r is Ok, r->Ok_0.variant_index == variant_index, r->Ok_0.buf@ == Seq::<Value>::empty(),
//@@ end
}

} // verus!
fn main() {}
