//@@ unit ACCBUILDER
#![feature(allocator_api)]
#![allow(unused_imports, unused_variables, dead_code, unused_mut, unused_parens)]
use vstd::prelude::*;
use std::marker::PhantomData;

verus! {

//@@ trusted `Open` is reduced to its container-id and "the rest" (R11: the only field these functions touch); the `SaslAcceptor` bound on `sasl_acceptor<S>` is dropped (R7: nothing of it is used here); R7: `impl Into<String>` is taken as String
#[verifier::external_body]
pub struct OpenRest { _p: u8 }
pub struct Open { pub container_id: String, pub rest: OpenRest }
pub struct Initialized; pub struct Uninitialized;

//@@ type file=fe2o3-amqp/src/acceptor/builder.rs kind=struct name=Builder
//@@ end
//@@ type file=fe2o3-amqp/src/acceptor/connection.rs kind=struct name=ConnectionAcceptor
//@@ end

impl<T> Builder<T, Initialized> {
//@@ fn file=fe2o3-amqp/src/acceptor/builder.rs impl=`impl<T> Builder<T, Initialized>` name=build
//@@ spec
    ensures r == self.inner,       // [C19.listener-builder.build-hands-over-what-was-configured] the acceptor that is built is the one that was configured -- with its SASL acceptor
//@@ end
}

impl<M, Tls, Sasl> Builder<ConnectionAcceptor<Tls, Sasl>, M> {
//@@ fn file=fe2o3-amqp/src/acceptor/builder.rs impl=`impl<M, Tls, Sasl> Builder<ConnectionAcceptor<Tls, Sasl>, M>` name=container_id
//@@ param id : String
//@@ subst `id.into()` => `id` rule=optional-R7
//@@ spec
    ensures
        r.inner.sasl_acceptor == self.inner.sasl_acceptor && r.inner.tls_acceptor == self.inner.tls_acceptor,       // [C19.listener-builder.sasl-acceptor-kept] naming the container keeps the SASL (and TLS) acceptor configured before
        r.inner.local_open.container_id == id && r.inner.local_open.rest == self.inner.local_open.rest && r.inner.buffer_size == self.inner.buffer_size,
//@@ end

//@@ fn file=fe2o3-amqp/src/acceptor/builder.rs impl=`impl<M, Tls, Sasl> Builder<ConnectionAcceptor<Tls, Sasl>, M>` name=tls_acceptor
//@@ spec
    ensures
        r.inner.sasl_acceptor == self.inner.sasl_acceptor,       // [C19.listener-builder.sasl-acceptor-kept] configuring TLS on the listener keeps its SASL acceptor: a listener set up with a SASL mechanism does not start accepting unauthenticated peers because TLS was configured afterwards
        r.inner.tls_acceptor == tls_acceptor && r.inner.local_open == self.inner.local_open && r.inner.buffer_size == self.inner.buffer_size,
//@@ end

//@@ fn file=fe2o3-amqp/src/acceptor/builder.rs impl=`impl<M, Tls, Sasl> Builder<ConnectionAcceptor<Tls, Sasl>, M>` name=sasl_acceptor
//@@ generics <S>
//@@ nowhere
//@@ spec
    ensures
        r.inner.sasl_acceptor == sasl_acceptor,       // [C19.listener-builder.sasl-acceptor-stored] the SASL acceptor given is the one the listener negotiates with
        r.inner.tls_acceptor == self.inner.tls_acceptor && r.inner.local_open == self.inner.local_open && r.inner.buffer_size == self.inner.buffer_size,
//@@ end

//@@ fn file=fe2o3-amqp/src/acceptor/builder.rs impl=`impl<M, Tls, Sasl> Builder<ConnectionAcceptor<Tls, Sasl>, M>` name=buffer_size
//@@ spec
    ensures
        r.inner.sasl_acceptor == self.inner.sasl_acceptor && r.inner.tls_acceptor == self.inner.tls_acceptor && r.inner.local_open == self.inner.local_open && r.inner.buffer_size == buffer_size,       // [C19.listener-builder.sasl-acceptor-kept]
//@@ end
}

} // verus!
fn main() {}
