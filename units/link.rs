//@@ unit LINK
//@@ gsubst `definitions::Error` => `AmqpError` rule=R11
#![feature(allocator_api)]
#![allow(unused_imports, unused_variables, dead_code, unused_mut, unused_parens)]
use vstd::prelude::*;

verus! {

//@@ include common.rs
//@@ trusted OrderedMap<K,V> (indexmap) stand-in: Map<K,V> with insert / swap_remove / get_mut / contains_key
//@@ trusted R15 helpers opt_swap_remove / opt_get_mut / opt_insert / opt_contains: the meaning of `g.as_mut().and_then(|m| m.swap_remove(k))`, `g.as_mut().and_then(|m| m.get_mut(k))`, `g.get_or_insert(M::new()).insert(k,v)`, `g.as_ref().map(|m| m.contains_key(k)).unwrap_or(false)` on Option<map> (fixed by std, not by this repository)
//@@ trusted Arc<RwLock<Option<map>>> erased to Option<map> (R4/R8): one critical section = one atomic step
//@@ trusted mpsc::Sender / oneshot::Sender stand-ins (R9): mpsc send appends to a ghost trace or fails; oneshot send result is an uninterpreted function of (sender, value)
//@@ trusted leaf stand-ins: DeliveryTag, DeliveryState(is_terminal uninterpreted), Payload, Attach, LinkFlow, Disposition, TransactionId, AmqpError, SessionStopReason, Source, Symbol, flow-state handles opaque

pub type DeliveryNumber = u32;
pub type MessageFormat = u32;
pub type Boolean = bool;

macro_rules! opaque {
    ($($n:ident),*) => { verus!{ $(
        #[verifier::external_body]
        pub struct $n { _p: u8 }
        impl Clone for $n { #[verifier::external_body] fn clone(&self) -> (r: Self) ensures r == *self { unimplemented!() } }
    )* } }
}
opaque!(DeliveryTag, Payload, AttachRest, SessionCtlTx, LinkFlowRest, TransactionId, AmqpError, SessionStopReason, Source, Symbol, SenderRelayFlowState, ReceiverRelayFlowState, ChanSendError);
// bytes::Bytes as far as these functions may look at it: its length (R11)
impl Payload {
    pub uninterp spec fn spec_len(&self) -> nat;
    #[verifier::external_body]
    pub fn len(&self) -> (r: usize) ensures r == self.spec_len() { unimplemented!() }
    #[verifier::external_body]
    pub fn is_empty(&self) -> (r: bool) ensures r == (self.spec_len() == 0) { unimplemented!() }
}

#[verifier::external_body]
pub struct DeliveryState { _p: u8 }
impl Clone for DeliveryState { #[verifier::external_body] fn clone(&self) -> (r: Self) ensures r == *self { unimplemented!() } }
impl DeliveryState {
    pub uninterp spec fn spec_is_terminal(&self) -> bool;
    #[verifier::external_body]
    pub fn is_terminal(&self) -> (r: bool) ensures r == self.spec_is_terminal() { unimplemented!() }
}

/// LinkFlow: the flags a relay may look at; the rest is one opaque field (R11)
pub struct LinkFlow { pub echo: bool, pub drain: bool, pub rest: LinkFlowRest }
impl Clone for LinkFlow { #[verifier::external_body] fn clone(&self) -> (r: Self) ensures r == *self { unimplemented!() } }
pub struct Handle(pub u32);
impl Clone for Handle { fn clone(&self) -> (r: Self) ensures r == *self { Handle(self.0) } }
pub struct InputHandle(pub u32);
impl Clone for InputHandle { fn clone(&self) -> (r: Self) ensures r == *self { InputHandle(self.0) } }
pub struct OutputHandle(pub u32);
impl Clone for OutputHandle { fn clone(&self) -> (r: Self) ensures r == *self { OutputHandle(self.0) } }
pub fn handle_to_input(h: Handle) -> (r: InputHandle) ensures r.0 == h.0 { InputHandle(h.0) }
pub fn output_to_handle(h: OutputHandle) -> (r: Handle) ensures r.0 == h.0 { Handle(h.0) }

// indexmap-backed OrderedMap
#[verifier::external_body]
#[verifier::reject_recursive_types(K)]
#[verifier::reject_recursive_types(V)]
pub struct OrderedMap<K, V> { m: Vec<(K, V)> }
impl<K, V> View for OrderedMap<K, V> { type V = Map<K, V>; uninterp spec fn view(&self) -> Map<K, V>; }

pub open spec fn omap<K, V>(g: Option<OrderedMap<K, V>>) -> Map<K, V> {
    match g { Some(m) => m@, None => Map::empty() }
}
#[verifier::external_body]
pub fn opt_swap_remove<K, V>(g: &mut Option<OrderedMap<K, V>>, k: &K) -> (r: Option<V>)
    ensures
        omap(*final(g)) == omap(*old(g)).remove(*k),
        (*final(g) is Some) == (*old(g) is Some),
        match r { Some(v) => omap(*old(g)).contains_key(*k) && v == omap(*old(g))[*k], None => !omap(*old(g)).contains_key(*k) },
{ unimplemented!() }
#[verifier::external_body]
pub fn opt_get_mut<'a, K, V>(g: &'a mut Option<OrderedMap<K, V>>, k: &K) -> (r: Option<&'a mut V>)
    ensures
        (*final(g) is Some) == (*old(g) is Some),
        match r {
            Some(v) => omap(*old(g)).contains_key(*k) && *v == omap(*old(g))[*k] && omap(*final(g)) == omap(*old(g)).insert(*k, *final(v)),
            None => !omap(*old(g)).contains_key(*k) && omap(*final(g)) == omap(*old(g)),
        },
{ unimplemented!() }

/// `g.as_mut().and_then(|m| m.get_mut(k)).map(|e| e.replace(v))` / `if let Some(e) = .. { *e = v }`: the entry is overwritten only if the key is present
#[verifier::external_body]
pub fn opt_replace_if_present<K, V>(g: &mut Option<OrderedMap<K, V>>, k: &K, v: V) -> (r: Option<V>)
    ensures
        (*final(g) is Some) == (*old(g) is Some),
        omap(*old(g)).contains_key(*k) ==> omap(*final(g)) == omap(*old(g)).insert(*k, v) && r == Some(omap(*old(g))[*k]),
        !omap(*old(g)).contains_key(*k) ==> omap(*final(g)) == omap(*old(g)) && r is None,
{ unimplemented!() }

#[verifier::external_body]
pub fn opt_insert<K, V>(g: &mut Option<OrderedMap<K, V>>, k: K, v: V) -> (r: Option<V>)
    ensures
        omap(*final(g)) == omap(*old(g)).insert(k, v),
        *final(g) is Some,
        match r { Some(o) => omap(*old(g)).contains_key(k) && o == omap(*old(g))[k], None => !omap(*old(g)).contains_key(k) },
{ unimplemented!() }

impl<K, V> OrderedMap<K, V> {
    #[verifier::external_body]
    pub fn insert(&mut self, k: K, v: V) -> (r: Option<V>) ensures final(self)@ == old(self)@.insert(k, v) { unimplemented!() }
    #[verifier::external_body]
    pub fn swap_remove(&mut self, k: &K) -> (r: Option<V>)
        ensures
            final(self)@ == old(self)@.remove(*k),
            match r { Some(v) => old(self)@.contains_key(*k) && v == old(self)@[*k], None => !old(self)@.contains_key(*k) },
    { unimplemented!() }
    #[verifier::external_body]
    pub fn get_mut(&mut self, k: &K) -> (r: Option<&mut V>)
        ensures
            match r {
                Some(v) => old(self)@.contains_key(*k) && *v == old(self)@[*k] && final(self)@ == old(self)@.insert(*k, *final(v)),
                None => !old(self)@.contains_key(*k) && final(self)@ == old(self)@,
            },
    { unimplemented!() }
}
impl<K, V> OrderedMap<K, V> {
    /// the order in which `values_mut()` visits the map (insertion order, indexmap): its keys, each exactly once (R29b)
    pub uninterp spec fn order(&self) -> Seq<K>;
    #[verifier::external_body]
    pub fn len(&self) -> (r: usize)
        ensures r == self.order().len(), self.order().no_duplicates(),
            forall|k: K| self@.contains_key(k) <==> #[trigger] self.order().contains(k),
    { unimplemented!() }
    /// the i-th step of `values_mut()`
    #[verifier::external_body]
    pub fn value_mut_at(&mut self, i: usize) -> (r: &mut V)
        requires i < old(self).order().len(),
        ensures old(self)@.contains_key(old(self).order()[i as int]), *r == old(self)@[old(self).order()[i as int]],
            final(self)@ == old(self)@.insert(old(self).order()[i as int], *final(r)), final(self).order() == old(self).order(),
    { unimplemented!() }
}
/// `guard.get_or_insert(OrderedMap::new())`: the map behind the lock, created empty if there was none
#[verifier::external_body]
pub fn opt_get_or_insert_new<K, V>(g: &mut Option<OrderedMap<K, V>>) -> (r: &mut OrderedMap<K, V>)
    ensures r@ == omap(*old(g)), *final(g) == Some(*final(r)),
{ unimplemented!() }
/// `val.as_ref().map(|v| v.is_terminal())`
#[verifier::external_body]
pub fn opt_is_terminal(v: &Option<DeliveryState>) -> (r: Option<bool>)
    ensures r == (match *v { Some(s) => Some(s.spec_is_terminal()), None => None::<bool> }),
{ unimplemented!() }
pub uninterp spec fn received_state_spec(section_number: u32, section_offset: u64) -> DeliveryState;
pub struct ChanSender<T> { pub sent: Ghost<Seq<T>>, pub failures: Ghost<nat>, pub fulls: Ghost<nat> }
impl<T> ChanSender<T> {
    #[verifier::external_body]
    pub fn send(&mut self, v: T) -> (r: Result<(), ChanSendError>)
        ensures
            r is Ok ==> final(self).sent@ == old(self).sent@.push(v) && final(self).failures@ == old(self).failures@,
            r is Err ==> final(self).sent@ == old(self).sent@ && final(self).failures@ == old(self).failures@ + 1,
            final(self).fulls == old(self).fulls,
    { unimplemented!() }
}
#[verifier::external_body]
#[verifier::reject_recursive_types(T)]
pub struct OnceCell<T> { c: Option<T> }
impl<T> OnceCell<T> {
    pub uninterp spec fn val(&self) -> Option<T>;
    #[verifier::external_body]
    pub fn get(&self) -> (r: Option<&T>)
        ensures match r { Some(v) => self.val() == Some(*v), None => self.val() is None },
    { unimplemented!() }
}

/// tokio oneshot::Sender<Option<DeliveryState>>: the completion channel of ONE send
#[verifier::external_body]
pub struct OneshotSender { _p: u8 }
/// outcome of resolving the send that owns `s` with `v` (Ok: the waiting send future completes with v)
pub uninterp spec fn oneshot_send(s: OneshotSender, v: Option<DeliveryState>) -> Result<(), Option<DeliveryState>>;
impl OneshotSender {
    /// nobody waits on this sending half: its receiving half has been dropped
    pub uninterp spec fn detached(&self) -> bool;
}
/// `let (closed, _) = oneshot::channel();`: the sending half of a new channel whose receiving half is dropped at once (`_` does not bind)
#[verifier::external_body]
pub fn oneshot_detached_sender() -> (r: OneshotSender) ensures r.detached() { unimplemented!() }
impl OneshotSender {
    #[verifier::external_body]
    pub fn send(self, v: Option<DeliveryState>) -> (r: Result<(), Option<DeliveryState>>)
        ensures r == oneshot_send(self, v),
    { unimplemented!() }
}

//@@ type file=fe2o3-amqp-types/src/definitions/role.rs kind=enum name=Role clone
//@@ end
//@@ type file=fe2o3-amqp-types/src/definitions/rcv_settle_mode.rs kind=enum name=ReceiverSettleMode clone
//@@ attr #[derive(PartialEq, Eq, Structural)]
//@@ end
//@@ type file=fe2o3-amqp-types/src/definitions/snd_settle_mode.rs kind=enum name=SenderSettleMode clone
//@@ end
//@@ type file=fe2o3-amqp-types/src/performatives/transfer.rs kind=struct name=Transfer clone
//@@ end
//@@ type file=fe2o3-amqp-types/src/performatives/disposition.rs kind=struct name=Disposition
//@@ end
//@@ type file=fe2o3-amqp-types/src/performatives/detach.rs kind=struct name=Detach
//@@ subst `Option<Error>` => `Option<AmqpError>` rule=optional
//@@ end
//@@ type file=fe2o3-amqp/src/link/state.rs kind=enum name=LinkState
//@@ end
//@@ type file=fe2o3-amqp/src/link/error.rs kind=enum name=DetachError
//@@ end
//@@ type file=fe2o3-amqp/src/link/frame.rs kind=enum name=LinkFrame
//@@ end
//@@ type file=fe2o3-amqp/src/link/delivery.rs kind=struct name=UnsettledMessage
//@@ subst `oneshot::Sender<Option<DeliveryState>>` => `OneshotSender` rule=R9
//@@ end
//@@ type file=fe2o3-amqp/src/link/mod.rs kind=enum name=LinkRelay
//@@ subst `mpsc::Sender<LinkIncomingItem>` => `ChanSender<LinkFrame>` rule=R9
//@@ subst `ArcSenderUnsettledMap` => `Option<OrderedMap<DeliveryTag, UnsettledMessage>>` rule=R4
//@@ subst `ArcReceiverUnsettledMap` => `Option<OrderedMap<DeliveryTag, Option<DeliveryState>>>` rule=R4
//@@ end
pub enum LinkRelayError { UnattachedHandle, TransferFrameToSender }
impl<T> ChanSender<T> {
    /// the point where the relay -- i.e. the SESSION task -- awaits `tx.send(..)` on the bounded queue to the link endpoint
    #[verifier::external_body]
    pub fn send_when_room(&mut self, v: T, Ghost(queue_has_room): Ghost<bool>) -> (r: Result<(), ChanSendError>)
        requires queue_has_room,     // [C15.relay.session-task-never-waits-for-the-application] the session engine never awaits a queue that only the application drains: neither the link credit nor the session window is looked at before a transfer is queued, so a peer that sends transfers beyond the credit (65 537 tiny frames at zero credit, with default buffers) fills the queue, the session engine blocks in this send for ever -- session.end() never returns -- and, one queue further up, so does the connection engine (connection.close() hangs, every session on the connection is dead); no error is reported and nothing is sent to the peer
        ensures
            r is Ok ==> final(self).sent@ == old(self).sent@.push(v) && final(self).failures@ == old(self).failures@,
            r is Err ==> final(self).sent@ == old(self).sent@ && final(self).failures@ == old(self).failures@ + 1,
            final(self).fulls == old(self).fulls,
    { unimplemented!() }
}
/// the point where a relay builds the flow it writes in answer to the peer (echo, drain answer), under ITS copy of the output handle
pub fn relay_handle_live(Ghost(handle_now): Ghost<Option<OutputHandle>>, output_handle: &OutputHandle)
    requires handle_now == Some(*output_handle),     // [C11.handle.relay-answers-under-a-live-handle] the flow a relay writes in answer to the peer goes out under the handle the link STILL holds: after the link's detach has been sent the number may already belong to another link of the session (slab re-use), which the peer then credits with an answer that is not its own
{}
impl SenderRelayFlowState {
    /// the flows applied to the link's flow state through this relay, in order
    pub uninterp spec fn applied(&self) -> Seq<LinkFlow>;
    /// Producer::produce (unit PRODUCER): applies the receiver's flow to the sender's flow state and wakes a blocked send
    #[verifier::external_body]
    pub fn produce(&mut self, flow: LinkFlow, output_handle: OutputHandle) -> (r: Option<LinkFlow>) ensures final(self).applied() == old(self).applied().push(flow) { unimplemented!() }
}
impl ReceiverRelayFlowState {
    pub uninterp spec fn applied(&self) -> Seq<LinkFlow>;
    /// LinkFlowState<ReceiverMarker>::on_incoming_flow (unit LINKFLOW) as called by the relay, i.e. by the SESSION task at the moment the flow frame arrives
    #[verifier::external_body]
    pub fn on_incoming_flow(&mut self, flow: LinkFlow, output_handle: OutputHandle, Ghost(unconsumed): Ghost<nat>) -> (r: Option<LinkFlow>)
        requires unconsumed == 0,       // [C09.flow.in-order-with-queued-transfers] the sender's delivery-count is taken over only in wire order with its transfers: while deliveries that preceded the flow on the wire still wait in the link's queue (they are counted by recv() later), adopting the flow's delivery-count counts them twice -- the receiver then reports a delivery-count ahead of the sender's, grants credit the sender cannot use (stall) or enforces a limit the sender does not see
    ensures final(self).applied() == old(self).applied().push(flow),
    { unimplemented!() }
}
/// Attach: only the field send_attach_inner reads (R11)
pub struct Attach { pub incomplete_unsettled: bool, pub rest: AttachRest }
pub type SendAttachErrorKind = DispositionError;   // `pub(crate) type SendAttachErrorKind = IllegalLinkStateError;` (the same two variants)

impl UnsettledMessage {
//@@ fn file=fe2o3-amqp/src/link/delivery.rs impl=`impl UnsettledMessage` name=settle
//@@ spec
    ensures r == oneshot_send(self.sender, self.state),            // [C02.settle.own-channel] a message is settled by resolving ITS OWN completion channel with its recorded state
//@@ end
//@@ fn file=fe2o3-amqp/src/link/delivery.rs impl=`impl UnsettledMessage` name=settle_with_state
//@@ spec
    ensures r == oneshot_send(self.sender, state),                 // [C02.settle.with-state] ... or with exactly the state given (the disposition's), on its own channel and no other
//@@ end
//@@ fn file=fe2o3-amqp/src/link/delivery.rs impl=`impl UnsettledMessage` name=abandon_waiter
//@@ subst `let (closed, _) = oneshot::channel();` => `let closed = oneshot_detached_sender();` rule=R9
//@@ spec
    ensures
        final(self).sender.detached(),                                                                   // [C14.session-stop.waiter-released] the message no longer holds the sending half its waiter listens on (an overwritten value is dropped; tokio completes the receiver of a dropped oneshot sender with RecvError): the waiting send stops waiting
        *final(self) == (UnsettledMessage { sender: final(self).sender, ..*old(self) }),                 // [C14.session-stop.delivery-kept-for-resumption] payload, state and format stay: the delivery can still be resumed on another session
//@@ end
}

impl LinkRelay<OutputHandle> {
    pub open spec fn s_unsettled(self) -> Map<DeliveryTag, UnsettledMessage> { omap(self->Sender_unsettled) }
    pub open spec fn r_unsettled(self) -> Map<DeliveryTag, Option<DeliveryState>> { omap(self->Receiver_unsettled) }
    pub open spec fn tx_of(self) -> ChanSender<LinkFrame> {
        match self { LinkRelay::Sender { tx, .. } => tx, LinkRelay::Receiver { tx, .. } => tx }
    }
    pub open spec fn rsm(self) -> ReceiverSettleMode {
        match self { LinkRelay::Sender { receiver_settle_mode, .. } => receiver_settle_mode, LinkRelay::Receiver { receiver_settle_mode, .. } => receiver_settle_mode }
    }
    pub open spec fn same_but_unsettled(self, o: Self) -> bool {
        match (self, o) {
            (LinkRelay::Sender { tx: a1, output_handle: a2, flow_state: a3, receiver_settle_mode: a5, .. },
             LinkRelay::Sender { tx: b1, output_handle: b2, flow_state: b3, receiver_settle_mode: b5, .. }) => a1 == b1 && a2 == b2 && a3 == b3 && a5 == b5,
            (LinkRelay::Receiver { tx: a1, output_handle: a2, flow_state: a3, receiver_settle_mode: a5, more: a6, .. },
             LinkRelay::Receiver { tx: b1, output_handle: b2, flow_state: b3, receiver_settle_mode: b5, more: b6, .. }) => a1 == b1 && a2 == b2 && a3 == b3 && a5 == b5 && a6 == b6,
            _ => false,
        }
    }

//@@ fn file=fe2o3-amqp/src/link/mod.rs impl=`impl LinkRelay<OutputHandle>` name=abandon_pending_deliveries
//@@ shape loops=while
//@@ selfmut
//@@ subst `unsettled.write()` => `&mut *unsettled` rule=R4
//@@ subst `guard.as_mut()` => `guard` rule=R15
//@@ spec
    ensures
        final(self).same_but_unsettled(*old(self)),
        *old(self) is Sender ==> ({
            let m0 = old(self).s_unsettled();
            let m1 = final(self).s_unsettled();
            &&& m1.dom() =~= m0.dom()                                                                        // [C14.session-stop.delivery-kept-for-resumption] every unsettled delivery stays in the map
            &&& forall|k: DeliveryTag| m0.contains_key(k) ==> (#[trigger] m1[k]).sender.detached()          // [C14.session-stop.every-waiter-released] the waiter of EVERY delivery that is still unsettled is released, none is skipped
                    && m1[k] == (UnsettledMessage { sender: m1[k].sender, ..m0[k] })
        }),
        *old(self) is Receiver ==> *final(self) == *old(self),
//@@ loop 0
        invariant
            __im0 <= map.order().len(), map.order() == ord0, map@.dom() =~= mm0.dom(),
            forall|j: int| 0 <= j < __im0 ==> (#[trigger] map@[ord0[j]]).sender.detached() && map@[ord0[j]] == (UnsettledMessage { sender: map@[ord0[j]].sender, ..mm0[ord0[j]] }),
            forall|j: int| __im0 <= j < ord0.len() ==> #[trigger] map@[ord0[j]] == mm0[ord0[j]],
            ord0.no_duplicates(), forall|k: DeliveryTag| #[trigger] mm0.contains_key(k) ==> ord0.contains(k),
        decreases ord0.len() - __im0,
//@@ at `Some(map) = guard {` after
                let ghost ord0 = map.order();
                let ghost mm0 = map@;
                let __n0 = map.len();
//@@ loopend 0
                proof {
                    assert forall|j: int| 0 <= j < __im0 implies (#[trigger] map@[ord0[j]]).sender.detached() && map@[ord0[j]] == (UnsettledMessage { sender: map@[ord0[j]].sender, ..mm0[ord0[j]] }) by {
                        if j < __im0 - 1 { assert(ord0[j] != ord0[__im0 - 1]); }
                    }
                    assert forall|j: int| __im0 <= j < ord0.len() implies #[trigger] map@[ord0[j]] == mm0[ord0[j]] by { assert(ord0[j] != ord0[__im0 - 1]); }
                }
//@@ end

//@@ fn file=fe2o3-amqp/src/link/mod.rs impl=`impl LinkRelay<OutputHandle>` name=on_incoming_detach as=relay_on_incoming_detach
//@@ ret Result<(), ChanSendError>
//@@ subst `self.abandon_pending_deliveries()` => `self.abandon_pending_deliveries()` rule=optional-S
//@@ spec
    ensures
        r is Ok ==> final(self).tx_of().sent@ == old(self).tx_of().sent@.push(LinkFrame::Detach(detach)),         // [C13.relay.detach-reaches-the-link] the peer's detach is handed to the link endpoint, unchanged
        r is Err ==> final(self).tx_of().sent@ == old(self).tx_of().sent@,
        *old(self) is Sender ==> ({
            let m0 = old(self).s_unsettled();
            let m1 = final(self).s_unsettled();
            &&& m1.dom() =~= m0.dom()
            &&& forall|k: DeliveryTag| m0.contains_key(k) ==> (#[trigger] m1[k]).sender.detached()               // [C14.link-detach.pending-sends-released] when the peer detaches the link, every send that still waits for its delivery's outcome is released: no disposition for it can arrive on this attachment any more, and the link endpoint does not look at its queue while it waits for an outcome -- without this, `send()` (and the future of every earlier `send_batchable()`) waits for ever although the peer has closed the link, and the peer's closing handshake is never answered
                    && m1[k] == (UnsettledMessage { sender: m1[k].sender, ..m0[k] })                               // [C14.link-detach.delivery-kept-for-resumption] the deliveries stay unsettled: a link that was detached, not closed, can resume them
        }),
        *old(self) is Receiver ==> final(self)->Receiver_unsettled == old(self)->Receiver_unsettled,
//@@ end

//@@ fn file=fe2o3-amqp/src/link/mod.rs impl=`impl LinkRelay<OutputHandle>` name=on_incoming_disposition retname=echo
//@@ subst `guard .as_mut() .and_then(|m| m.swap_remove(&delivery_tag)) .map(|msg| msg.settle_with_state(state))` => `opt_swap_remove(&mut *guard, &delivery_tag).map(|msg: UnsettledMessage| -> (o: Result<(), Option<DeliveryState>>) { msg.settle_with_state(state) })` rule=R15
//@@ subst `guard.as_mut().and_then(|m| m.get_mut(&delivery_tag))` => `opt_get_mut(&mut *guard, &delivery_tag)` rule=R15
//@@ subst `guard.as_mut().and_then(|m| m.swap_remove(&delivery_tag))` => `opt_swap_remove(&mut *guard, &delivery_tag)` rule=R15
//@@ subst `unsettled.write()` => `&mut *unsettled` rule=R4
//@@ spec
    ensures
        final(self).same_but_unsettled(*old(self)),                                                         // [C02.relay.frame]
        echo == (*old(self) is Sender && !settled && old(self).rsm() == ReceiverSettleMode::Second && state is Some && state->Some_0.spec_is_terminal()),        // [C02.relay.echo] a settling echo is requested exactly for a sender whose peer settles second and reports a non-settled disposition carrying a TERMINAL outcome: a non-terminal state (`received`) is only recorded -- settling on it would end the delivery with a non-outcome while the send is still pending
        *old(self) is Sender ==> ({
            let terminal = state is Some && state->Some_0.spec_is_terminal();
            let m0 = old(self).s_unsettled();
            let m1 = final(self).s_unsettled();
            &&& (settled || terminal) ==> m1 == m0.remove(delivery_tag)                                       // [C02.relay.sender-forget] settled or terminal outcome: the sender forgets exactly that delivery (its send is resolved), no other entry is touched
            &&& (!settled && !terminal && m0.contains_key(delivery_tag)) ==> m1.dom() =~= m0.dom()
                    && m1[delivery_tag].state == state && m1[delivery_tag].sender == m0[delivery_tag].sender
                    && (forall|k: DeliveryTag| k != delivery_tag && m0.contains_key(k) ==> #[trigger] m1[k] == m0[k])   // [C02.relay.sender-record] non-terminal state: recorded on that delivery, which stays unsettled with its own completion channel
            &&& (!settled && !terminal && !m0.contains_key(delivery_tag)) ==> m1 == m0
        }),
        *old(self) is Receiver ==> ({
            let m0 = old(self).r_unsettled();
            let m1 = final(self).r_unsettled();
            &&& settled ==> m1 == m0.remove(delivery_tag)                                                     // [C02.relay.receiver-forget] the sender's settling disposition makes the receiver forget exactly that delivery
            &&& (!settled && m0.contains_key(delivery_tag)) ==> m1 == m0.insert(delivery_tag, state)          // [C02.relay.receiver-record]
            &&& (!settled && !m0.contains_key(delivery_tag)) ==> m1 == m0
        }),
//@@ end

//@@ fn file=fe2o3-amqp/src/link/mod.rs impl=`impl LinkRelay<OutputHandle>` name=on_incoming_flow
//@@ subst `{ use serde_amqp::Value; __E1 }` => `{ }` rule=R11
//@@ subst `flow_state.produce((flow, output_handle.clone()))` => `{ relay_handle_live(Ghost(handle_now), output_handle); flow_state.produce(flow, output_handle.clone()) }` rule=R9
//@@ subst `flow_state.on_incoming_flow(flow, output_handle.clone())` => `{ relay_handle_live(Ghost(handle_now), output_handle); flow_state.on_incoming_flow(flow, output_handle.clone(), Ghost(unconsumed)) }` rule=R9
//@@ entry
        let ghost handle_now: Option<OutputHandle> = arbitrary();      // the output handle the LINK holds at this moment: None once its detach has been sent (the slab may have handed the number to another link since); the relay's own copy was taken at attach
        let ghost unconsumed: nat = arbitrary();      // deliveries this relay has already forwarded into the link's queue which the link has not counted yet (ReceiverLink::on_complete_transfer -> consume runs in the application's recv())
//@@ spec
    ensures r is Ok,
        *old(self) is Receiver ==> *final(self) is Receiver && final(self)->Receiver_flow_state.applied() == old(self)->Receiver_flow_state.applied().push(flow),   // [C09.relay.every-sender-flow-reaches-the-link] EVERY flow of the sender -- with or without echo, with or without drain -- is applied to the receiving link's flow state: that is how the link learns the sender's delivery-count (e.g. after a drain the sender advances it and says so in a flow that asks for no echo)
        *old(self) is Sender ==> *final(self) is Sender && final(self)->Sender_flow_state.applied() == old(self)->Sender_flow_state.applied().push(flow),           // [C08.relay.every-receiver-flow-reaches-the-link] every flow of the receiver is applied to the sending link's flow state: the credit it grants (or takes back) is the credit the link sends by
//@@ end

//@@ fn file=fe2o3-amqp/src/link/mod.rs impl=`impl LinkRelay<OutputHandle>` name=on_incoming_transfer
//@@ subst `InputHandle::from(` => `handle_to_input(` rule=R16
//@@ subst `|_v0|` => `|_v0: ChanSendError|` rule=optional-R5
//@@ subst `tx .send(LinkFrame::Transfer { __E1 })` => `tx.send_when_room(LinkFrame::Transfer { __E1 }, Ghost(queue_has_room))` rule=optional-R9
//@@ entry
        let ghost queue_has_room: bool = arbitrary();      // whether the bounded queue to the link endpoint has a free slot at this moment: it is drained only by the APPLICATION's recv()
//@@ spec
    ensures
        *old(self) is Sender ==> r is Err && *final(self) == *old(self),                                     // [C15.relay.transfer-to-sender] a transfer addressed to a sending link is an error and has no effect
        *old(self) is Receiver && r is Ok && final(self)->Receiver_tx.failures@ == old(self)->Receiver_tx.failures@ ==> final(self)->Receiver_tx.sent@ == old(self)->Receiver_tx.sent@.push(
            LinkFrame::Transfer { input_handle: InputHandle(transfer.handle.0), performative: transfer, payload }),   // [C10.relay.forward] the frame is forwarded to the link unchanged (performative and payload) [C01.relay.forward] [C16.relay.frame-waits-for-room] -- and it is forwarded whenever the link endpoint is alive: a full queue (nobody polling recv() at the moment, e.g. after a cancelled recv) is waited out, the frame is not dropped
        *old(self) is Receiver ==> r is Ok,                                                                   // [C13.drop.in-flight-transfer-discarded] a transfer for a receiving link is never an error of the session: when the local endpoint is gone (the Receiver was dropped and its detach is on its way) a delivery that was still in flight is discarded -- it must not end the session (and, through it, the connection)
        *old(self) is Receiver && final(self)->Receiver_tx.failures@ > old(self)->Receiver_tx.failures@ ==> r == Ok::<Option<(DeliveryNumber, DeliveryTag)>, LinkRelayError>(None),
        *old(self) is Receiver && r is Ok && r->Ok_0 is Some ==>
            transfer.delivery_id == Some(r->Ok_0->Some_0.0) && transfer.delivery_tag == Some(r->Ok_0->Some_0.1)
            && !(transfer.settled is Some && transfer.settled->Some_0) && old(self).rsm() == ReceiverSettleMode::Second && !old(self)->Receiver_more,   // [C02.relay.register-second] only the first frame of an unsettled delivery on a settle-second link is registered for the sender's settling disposition, under its own id and tag
        *old(self) is Receiver && final(self)->Receiver_tx.failures@ == old(self)->Receiver_tx.failures@ && !(transfer.settled == Some(true)) && old(self).rsm() == ReceiverSettleMode::Second
            && !old(self)->Receiver_more && transfer.delivery_id is Some && transfer.delivery_tag is Some
            ==> r == Ok::<Option<(DeliveryNumber, DeliveryTag)>, LinkRelayError>(Some((transfer.delivery_id->Some_0, transfer.delivery_tag->Some_0))),   // [C02.relay.register-second-always] ... and every such first frame IS registered (an absent `settled` flag means unsettled): otherwise the sender's settling disposition would find nothing and the receiver would keep the delivery unsettled for ever
        *old(self) is Receiver ==> final(self)->Receiver_unsettled == old(self)->Receiver_unsettled && final(self)->Receiver_output_handle == old(self)->Receiver_output_handle
            && final(self)->Receiver_receiver_settle_mode == old(self)->Receiver_receiver_settle_mode,
//@@ end
}

// ---------------------------------------------------------------------------------------------
// ReceiverLink::dispose (C02: receiver side of settlement)
pub struct Sealed {}
//@@ type file=fe2o3-amqp/src/link/delivery.rs kind=struct name=DeliveryInfo
//@@ end
pub enum DispositionError { IllegalState, SessionStopped(SessionStopReason) }
pub open spec fn detach_stop_err(stop: Option<SessionStopReason>) -> DetachError { match stop { Some(r) => DetachError::SessionStopped(r), None => DetachError::IllegalState } }
/// what a link operation reports when the channel to its session is closed: the reason the session (or its connection) published before closing it
pub open spec fn disp_stop_err(stop: Option<SessionStopReason>) -> DispositionError { match stop { Some(r) => DispositionError::SessionStopped(r), None => DispositionError::IllegalState } }
// ReceiverLink<T>: the fields dispose touches (R11)
pub struct ReceiverLinkD {
    pub rcv_settle_mode: ReceiverSettleMode,
    pub unsettled: Option<OrderedMap<DeliveryTag, Option<DeliveryState>>>,
    pub session_stop_reason: OnceCell<SessionStopReason>,
}
impl ReceiverLinkD {
//@@ fn file=fe2o3-amqp/src/link/receiver_link.rs impl=`~impl<Tar>endpoint::ReceiverLinkforReceiverLink<Tar>` name=dispose
//@@ selfmut
//@@ ret Result<(), DispositionError>
//@@ param writer : &mut ChanSender<LinkFrame>
//@@ subst `let mut lock = self.unsettled.write();` => `let mut lock = &mut self.unsettled;` rule=R4
//@@ subst `lock.as_mut() .and_then(|map| map.swap_remove(&delivery_info.delivery_tag))` => `opt_swap_remove(&mut *lock, &delivery_info.delivery_tag)` rule=R15
//@@ subst `lock.as_mut() .and_then(|map| map.get_mut(&delivery_info.delivery_tag)) .map(|entry| entry.replace(state.clone()))` => `opt_replace_if_present(&mut *lock, &delivery_info.delivery_tag, Some(state.clone()))` rule=R15
//@@ subst `.map_err(|_v0| __E1)` => `.map_err(|_v0: ChanSendError| -> (o: DispositionError) ensures o == disp_stop_err(self.session_stop_reason.val()) { __E1 })` rule=R18 unless `\.map_err\(`
//@@ spec
    ensures
        ({
            let mode = if delivery_info.rcv_settle_mode is Some { delivery_info.rcv_settle_mode->Some_0 } else { old(self).rcv_settle_mode };
            let will_settle = if settled is Some { settled->Some_0 } else { mode is First };                              // [C02.receiver.settle-mode] settle first => settled at once; settle second => NOT settled by the receiver
            let m0 = omap(old(self).unsettled);
            let m1 = omap(final(self).unsettled);
            let known = m0.contains_key(delivery_info.delivery_tag);
            &&& will_settle ==> m1 == m0.remove(delivery_info.delivery_tag)                                               // [C02.receiver.settled-forgets] a settled delivery is forgotten: exactly its own entry
            &&& !will_settle && known ==> m1 == m0.insert(delivery_info.delivery_tag, Some(state))                        // [C02.receiver.second-keeps-unsettled] in settle-second mode the delivery STAYS in the unsettled map (with the outcome) until the sender's settling disposition arrives
            &&& !will_settle && !known ==> m1 == m0                                                                       // [C02.receiver.settled-not-re-entered] a delivery that is no longer (or never was) unsettled -- sent pre-settled, or already settled by the sender -- is NOT entered into the unsettled map by a late accept / reject of the application: after settlement neither side retains it
            &&& (known && r is Ok) ==> final(writer).sent@ == old(writer).sent@.push(LinkFrame::Disposition(Disposition {
                    role: Role::Receiver, first: delivery_info.delivery_id, last: None, settled: will_settle, state: Some(state), batchable }))   // [C02.receiver.disposition] one disposition for this delivery's own id, carrying exactly the outcome the application applied
            &&& !known ==> final(writer).sent@ == old(writer).sent@ && r is Ok                                            // [C02.receiver.unknown-delivery] an already settled / unknown delivery produces no disposition
            &&& r is Err ==> final(writer).sent@ == old(writer).sent@
        }),
        r is Err ==> r == Err::<(), DispositionError>(disp_stop_err(old(self).session_stop_reason.val())),   // [C14.link.closed-channel-reports-stop-reason] the only way a disposition fails is the closed channel to the session, and the error says WHY the session stopped (the reason published before the channel was closed: the peer's End / Close with its error, the connection's fate) -- IllegalState only if none was recorded
        final(self).rcv_settle_mode == old(self).rcv_settle_mode,
//@@ end

//@@ fn file=fe2o3-amqp/src/link/receiver_link.rs impl=`impl<T> ReceiverLink<T>` name=dispose_consecutive
//@@ attr #[verifier::loop_isolation(false)]
//@@ shape loops=for,for
//@@ selfmut
//@@ ret Result<(), DispositionError>
//@@ param writer : &mut ChanSender<LinkFrame>
//@@ subst `let mut lock = self.unsettled.write();` => `let mut lock = &mut self.unsettled;` rule=R4
//@@ subst `lock.as_mut() .and_then(|map| map.swap_remove(&info.delivery_tag));` => `opt_swap_remove(&mut *lock, &info.delivery_tag);` rule=R15
//@@ subst `if let Some(entry) = lock .as_mut() .and_then(|map| map.get_mut(&info.delivery_tag)) { *entry = Some(state.clone()); }` => `opt_replace_if_present(&mut *lock, &info.delivery_tag, Some(state.clone()));` rule=R15
//@@ subst `consecutive_infos.last().map(|el| el.delivery_id)` => `Some(consecutive_infos[consecutive_infos.len() - 1].delivery_id)` rule=R19 unless `\.map\(`
//@@ subst `.map_err(|_v0| __E1)` => `.map_err(|_v0: ChanSendError| -> (o: DispositionError) ensures o == disp_stop_err(self.session_stop_reason.val()) { __E1 })` rule=R18 unless `\.map_err\(`
//@@ spec
    ensures
        final(self).rcv_settle_mode == old(self).rcv_settle_mode,
        consecutive_infos@.len() == 0 ==> r is Ok && final(writer).sent@ == old(writer).sent@ && final(self).unsettled == old(self).unsettled,
        consecutive_infos@.len() > 0 ==> ({
            let mode = if consecutive_infos@[0].rcv_settle_mode is Some { consecutive_infos@[0].rcv_settle_mode->Some_0 } else { old(self).rcv_settle_mode };
            let will_settle = if settled is Some { settled->Some_0 } else { mode is First };                              // [C02.receiver.settle-mode]
            let m1 = omap(final(self).unsettled);
            &&& (r is Ok ==> final(writer).sent@ == old(writer).sent@.push(LinkFrame::Disposition(Disposition {
                    role: Role::Receiver, first: consecutive_infos@[0].delivery_id, last: Some(consecutive_infos@[consecutive_infos@.len() - 1].delivery_id),
                    settled: will_settle, state: Some(state), batchable })))                                               // [C02.receiver.range-disposition] a run of consecutive deliveries is disposed of by ONE disposition first..last covering exactly that run, with the outcome the application applied
            &&& (r is Err ==> final(writer).sent@ == old(writer).sent@)
            &&& (will_settle ==> forall|i: int| 0 <= i < consecutive_infos@.len() ==> !m1.contains_key(#[trigger] consecutive_infos@[i].delivery_tag))          // [C02.receiver.settled-forgets] every delivery of the run is forgotten when settled ...
            &&& (!will_settle ==> m1.dom() =~= omap(old(self).unsettled).dom() && forall|i: int| 0 <= i < consecutive_infos@.len() && omap(old(self).unsettled).contains_key(#[trigger] consecutive_infos@[i].delivery_tag) ==> m1[consecutive_infos@[i].delivery_tag] == Some(state))   // [C02.receiver.second-keeps-unsettled] ... and every one is kept (with the outcome) in settle-second mode
        }),
//@@ loop 0 optional
        invariant
            self.rcv_settle_mode == old(self).rcv_settle_mode,
            forall|i: int| 0 <= i < __it0.index@ ==> !omap(*lock).contains_key(#[trigger] consecutive_infos@[i].delivery_tag),
//@@ loop 1 optional
        invariant
            self.rcv_settle_mode == old(self).rcv_settle_mode,
            omap(*lock).dom() =~= omap(old(self).unsettled).dom(),                                                     // [C02.receiver.settled-not-re-entered] no delivery enters the unsettled map through a disposition
            forall|i: int| 0 <= i < __it1.index@ && omap(old(self).unsettled).contains_key(#[trigger] consecutive_infos@[i].delivery_tag) ==> omap(*lock)[consecutive_infos@[i].delivery_tag] == Some(state),
//@@ end

//@@ fn file=fe2o3-amqp/src/link/receiver_link.rs impl=`~impl<Tar>endpoint::ReceiverLinkforReceiverLink<Tar>` name=dispose_all
//@@ attr #[verifier::loop_isolation(false)]
//@@ shape loops=for
//@@ selfmut
//@@ ret Result<(), DispositionError>
//@@ param writer : &mut ChanSender<LinkFrame>
//@@ subst `let reader = self.unsettled.read();` => `let reader = &self.unsettled;` rule=R4
//@@ subst `reader .as_ref() .map(|m| m.contains_key(&info.delivery_tag)) .unwrap_or(__E1)` => `opt_contains_or(reader, &info.delivery_tag, __E1)` rule=R15
//@@ subst `delivery_infos.sort_by_key(|left| __E1);` => `sort_infos_by_key(&mut delivery_infos, |left: &DeliveryInfo| -> (k: u32) ensures k == left.delivery_id { __E1 });` rule=R34
//@@ subst `delivery_infos.retain(|info| __E1);` => `retain_infos(&mut delivery_infos, |info: &DeliveryInfo| -> (b: bool) ensures b == omap(*reader).contains_key(info.delivery_tag) __E1, Ghost(omap(*reader)));` rule=R34
//@@ subst `consecutive_chunk_indices(&delivery_infos)` => `consecutive_chunk_indices(delivery_infos.as_slice())` rule=R22
//@@ entry
    let ghost __infos0 = delivery_infos@;
//@@ spec
    ensures
        final(self).rcv_settle_mode == old(self).rcv_settle_mode,
        r is Ok ==> ({
            let kept = retained_infos(sorted_infos(delivery_infos@), omap(old(self).unsettled));
            let ci = rchunk_positions(kept);
            let n = if kept.len() > 0 { ci.len() + 1 } else { 0 };
            let base = old(writer).sent@.len() as int;
            &&& rchunk_positions_ok(ci, kept)
            &&& final(writer).sent@.len() == base + n                                                      // [C02.receiver.batch-one-disposition-per-run] a batch disposal writes one disposition per maximal run of consecutive delivery-ids (same per-delivery settle mode) among the deliveries that are still unsettled -- none for deliveries already settled or unknown, none twice
            &&& final(writer).sent@.subrange(0, base) =~= old(writer).sent@
            &&& forall|k: int| 0 <= k < n ==> (#[trigger] final(writer).sent@[base + k]) == LinkFrame::Disposition(Disposition {
                    role: Role::Receiver,
                    first: kept[rrun_bound(ci, kept.len() as int, k)].delivery_id,
                    last: Some(kept[rrun_bound(ci, kept.len() as int, k + 1) - 1].delivery_id),
                    settled: run_will_settle(kept[rrun_bound(ci, kept.len() as int, k)], settled, old(self).rcv_settle_mode),
                    state: Some(state), batchable })                                                        // [C02.receiver.batch-range-covers-run] ... and run k is disposed of by first..last = the ids of exactly that run, with the outcome the application applied
        }),
//@@ at `let chunk_inds = consecutive_chunk_indices(` before
        proof {
            let srt = sorted_infos(__infos0);
            let m = omap(old(self).unsettled);
            assert forall|i: int, j: int| 0 <= i <= j < delivery_infos@.len() implies delivery_infos@[i].delivery_id <= delivery_infos@[j].delivery_id by {
                if i < j { assert(retained_from(srt, m, i) < retained_from(srt, m, j)); }
            }
        }
//@@ loop 0
        invariant
            __it0.seq() == chunk_inds@,
            rchunk_positions_ok(chunk_inds@, delivery_infos@),
            chunk_inds@ == rchunk_positions(delivery_infos@),
            self.rcv_settle_mode == old(self).rcv_settle_mode,
            prev_ind == rrun_bound(chunk_inds@, delivery_infos@.len() as int, __it0.index@),
            writer.sent@.len() == old(writer).sent@.len() + __it0.index@,
            writer.sent@.subrange(0, old(writer).sent@.len() as int) =~= old(writer).sent@,
            forall|k: int| 0 <= k < __it0.index@ ==> (#[trigger] writer.sent@[old(writer).sent@.len() + k]) == LinkFrame::Disposition(Disposition {
                    role: Role::Receiver,
                    first: delivery_infos@[rrun_bound(chunk_inds@, delivery_infos@.len() as int, k)].delivery_id,
                    last: Some(delivery_infos@[rrun_bound(chunk_inds@, delivery_infos@.len() as int, k + 1) - 1].delivery_id),
                    settled: run_will_settle(delivery_infos@[rrun_bound(chunk_inds@, delivery_infos@.len() as int, k)], settled, old(self).rcv_settle_mode),
                    state: Some(state), batchable }),
//@@ end
}

// ReceiverDisposer (link/receiver.rs): the detached settlement helper -- the same settlement logic as ReceiverLink::dispose, on the state it shares with the receiver (unit DISPOSER)
pub struct AtomicU32S { pub v: u32 }
pub enum Ordering { Release, Acquire, Relaxed, AcqRel, SeqCst }
impl AtomicU32S {
    pub fn fetch_add(&mut self, x: u32, o: Ordering) -> (r: u32)
        ensures r == old(self).v, final(self).v == (if old(self).v as int + x as int >= 0x1_0000_0000 { (old(self).v as int + x as int - 0x1_0000_0000) as u32 } else { (old(self).v + x) as u32 }),
    { let r = self.v; self.v = self.v.wrapping_add(x); r }
}
// ReceiverDisposer: the fields dispose touches (R11); refresh_credit_if_needed (unit LINKFLOW: the top-up decision) is a stand-in that records its argument
pub struct ReceiverDisposerD {
    pub rcv_settle_mode: ReceiverSettleMode,
    pub unsettled: Option<OrderedMap<DeliveryTag, Option<DeliveryState>>>,
    pub outgoing: ChanSender<LinkFrame>,
    pub session_stop_reason: OnceCell<SessionStopReason>,
    pub processed: AtomicU32S,
    pub refreshed_with: Ghost<Seq<u32>>,
}
impl ReceiverDisposerD {
    #[verifier::external_body]
    pub fn refresh_credit_if_needed(&mut self, processed: u32) -> (r: Result<(), DispositionError>)
        ensures final(self).refreshed_with@ == old(self).refreshed_with@.push(processed), final(self).unsettled == old(self).unsettled, final(self).rcv_settle_mode == old(self).rcv_settle_mode,
            final(self).outgoing.failures == old(self).outgoing.failures,
            forall|i: int| 0 <= i < old(self).outgoing.sent@.len() ==> final(self).outgoing.sent@.len() > i && final(self).outgoing.sent@[i] == old(self).outgoing.sent@[i],
    { unimplemented!() }

//@@ fn file=fe2o3-amqp/src/link/receiver.rs impl=`impl ReceiverDisposer` name=dispose id=disposer_dispose
//@@ selfmut
//@@ subst `let mut lock = self.unsettled.write();` => `let mut lock = &mut self.unsettled;` rule=R4
//@@ subst `lock.as_mut() .and_then(|map| map.swap_remove(&delivery_info.delivery_tag))` => `opt_swap_remove(&mut *lock, &delivery_info.delivery_tag)` rule=R15
//@@ subst `lock.as_mut() .and_then(|map| map.get_mut(&delivery_info.delivery_tag)) .map(|entry| entry.replace(state.clone()))` => `opt_replace_if_present(&mut *lock, &delivery_info.delivery_tag, Some(state.clone()))` rule=R15
//@@ subst `.map_err(|_v0| __E1)` => `.map_err(|_v0: ChanSendError| -> (o: DispositionError) ensures o == disp_stop_err(self.session_stop_reason.val()) { __E1 })` rule=R18 unless `\.map_err\(`
//@@ spec
    requires old(self).processed.v < 0x8000_0000,
    ensures
        ({
            let mode = if delivery_info.rcv_settle_mode is Some { delivery_info.rcv_settle_mode->Some_0 } else { old(self).rcv_settle_mode };
            let will_settle = mode is First;                                                                              // [C02.receiver.settle-mode] (disposer) settle first => settled at once; settle second => NOT settled by the receiver
            let m0 = omap(old(self).unsettled);
            let m1 = omap(final(self).unsettled);
            let known = m0.contains_key(delivery_info.delivery_tag);
            let n0 = old(self).outgoing.sent@.len() as int;
            &&& will_settle ==> m1 == m0.remove(delivery_info.delivery_tag)                                               // [C02.receiver.settled-forgets] (disposer) a settled delivery is forgotten: exactly its own entry
            &&& !will_settle && known ==> m1 == m0.insert(delivery_info.delivery_tag, Some(state))                        // [C02.receiver.second-keeps-unsettled] (disposer)
            &&& !will_settle && !known ==> m1 == m0                                                                       // [C02.receiver.settled-not-re-entered] (disposer)
            &&& (known && r is Ok) ==> final(self).outgoing.sent@.len() > n0 && final(self).outgoing.sent@[n0] == LinkFrame::Disposition(Disposition {
                    role: Role::Receiver, first: delivery_info.delivery_id, last: None, settled: will_settle, state: Some(state), batchable: false })   // [C02.receiver.disposition] (disposer) one disposition for this delivery's own id, carrying exactly the outcome the application applied
            &&& (r is Ok ==> final(self).refreshed_with@ == old(self).refreshed_with@.push((old(self).processed.v + 1) as u32))   // [C09.disposer.counts-one-per-disposal] every disposal counts ONE towards the automatic top-up, whether or not the delivery was still unsettled
        }),
//@@ end

//@@ fn file=fe2o3-amqp/src/link/receiver.rs impl=`impl ReceiverDisposer` name=accept id=disposer_accept
//@@ selfmut
//@@ param delivery_info : DeliveryInfo
//@@ subst `let info = delivery_info.into();` => `let info = delivery_info;` rule=R16
//@@ spec
    requires old(self).processed.v < 0x8000_0000,
    ensures
        omap(old(self).unsettled).contains_key(delivery_info.delivery_tag) && r is Ok ==> ({
            let n0 = old(self).outgoing.sent@.len() as int;
            final(self).outgoing.sent@.len() > n0 && final(self).outgoing.sent@[n0] is Disposition && final(self).outgoing.sent@[n0]->Disposition_0.state == Some(accepted_state_spec())
                && final(self).outgoing.sent@[n0]->Disposition_0.first == delivery_info.delivery_id
        }),     // [C02.disposer-api.accept] the disposer's accept applies `accepted` to that delivery
//@@ end

//@@ fn file=fe2o3-amqp/src/link/receiver.rs impl=`impl ReceiverDisposer` name=release id=disposer_release
//@@ selfmut
//@@ param delivery_info : DeliveryInfo
//@@ subst `let info = delivery_info.into();` => `let info = delivery_info;` rule=R16
//@@ spec
    requires old(self).processed.v < 0x8000_0000,
    ensures
        omap(old(self).unsettled).contains_key(delivery_info.delivery_tag) && r is Ok ==> ({
            let n0 = old(self).outgoing.sent@.len() as int;
            final(self).outgoing.sent@.len() > n0 && final(self).outgoing.sent@[n0] is Disposition && final(self).outgoing.sent@[n0]->Disposition_0.state == Some(released_state_spec())
                && final(self).outgoing.sent@[n0]->Disposition_0.first == delivery_info.delivery_id
        }),     // [C02.disposer-api.release]
//@@ end
}
pub uninterp spec fn accepted_state_spec() -> DeliveryState;
pub uninterp spec fn released_state_spec() -> DeliveryState;
/// the opaque DeliveryState of this unit can be BUILT the way the code builds it: `DeliveryState::Accepted(Accepted {})`, `DeliveryState::Released(Released {})` (associated functions named like the variants)
pub struct Accepted {}
pub struct Released {}
impl DeliveryState {
    #[verifier::external_body]
    #[allow(non_snake_case)]
    pub fn Accepted(a: Accepted) -> (r: DeliveryState) ensures r == accepted_state_spec() { unimplemented!() }
    #[verifier::external_body]
    #[allow(non_snake_case)]
    pub fn Released(a: Released) -> (r: DeliveryState) ensures r == released_state_spec() { unimplemented!() }
}

/// the settle decision of a run: the explicit `settled` argument, else the first delivery's own rcv-settle-mode, else the link's
pub open spec fn run_will_settle(first: DeliveryInfo, settled: Option<bool>, link_mode: ReceiverSettleMode) -> bool {
    if settled is Some { settled->Some_0 } else { (if first.rcv_settle_mode is Some { first.rcv_settle_mode->Some_0 } else { link_mode }) is First }
}
pub open spec fn ids_ascending(s: Seq<DeliveryInfo>) -> bool { forall|i: int, j: int| 0 <= i <= j < s.len() ==> s[i].delivery_id <= s[j].delivery_id }
/// a new run starts at p: the id is not the successor of the previous one, or the per-delivery settle mode changes
pub open spec fn run_break(s: Seq<DeliveryInfo>, p: int) -> bool { !(s[p].delivery_id - s[p - 1].delivery_id == 1 && s[p].rcv_settle_mode == s[p - 1].rcv_settle_mode) }
pub open spec fn rcp_upto(s: Seq<DeliveryInfo>, w: int) -> Seq<usize>
    decreases w,
{
    if w <= 0 { Seq::<usize>::empty() } else {
        let prev = rcp_upto(s, w - 1);
        if run_break(s, w) { prev.push(w as usize) } else { prev }
    }
}
/// where a new run starts: positions p in 1..len at which the id is not the successor of the previous one OR the per-delivery settle mode changes
#[verifier::opaque]
pub open spec fn rchunk_positions(s: Seq<DeliveryInfo>) -> Seq<usize> { rcp_upto(s, s.len() - 1) }
pub open spec fn rchunk_positions_ok(ci: Seq<usize>, s: Seq<DeliveryInfo>) -> bool {
    &&& (forall|k: int| 0 <= k < ci.len() ==> 0 < #[trigger] ci[k] < s.len())
    &&& (forall|i: int, j: int| 0 <= i < j < ci.len() ==> ci[i] < ci[j])
    &&& (forall|p: int| 0 < p < s.len() ==> (ci.contains(p as usize) <==> #[trigger] run_break(s, p)))
}
pub open spec fn rrun_bound(ci: Seq<usize>, len: int, k: int) -> int {
    if k <= 0 { 0 } else if k <= ci.len() { ci[k - 1] as int } else { len }
}
pub proof fn lemma_rcp_upto(s: Seq<DeliveryInfo>, w: int)
    requires 0 <= w < s.len() || (w == 0 && s.len() == 0), w <= usize::MAX,
    ensures
        forall|k: int| 0 <= k < rcp_upto(s, w).len() ==> 0 < #[trigger] rcp_upto(s, w)[k] <= w,
        forall|i: int, j: int| 0 <= i < j < rcp_upto(s, w).len() ==> rcp_upto(s, w)[i] < rcp_upto(s, w)[j],
        forall|p: int| 0 < p <= w ==> (rcp_upto(s, w).contains(p as usize) <==> #[trigger] run_break(s, p)),
    decreases w,
{
    if w > 0 {
        lemma_rcp_upto(s, w - 1);
        let prev = rcp_upto(s, w - 1);
        let cur = rcp_upto(s, w);
        if run_break(s, w) {
            assert(cur == prev.push(w as usize));
            assert(cur[prev.len() as int] == w as usize);
        }
        assert forall|p: int| 0 < p <= w implies (cur.contains(p as usize) <==> #[trigger] run_break(s, p)) by {
            if p < w {
                if prev.contains(p as usize) { let k = choose|k: int| 0 <= k < prev.len() && prev[k] == p as usize; assert(cur[k] == p as usize); }
                if cur.contains(p as usize) { let k = choose|k: int| 0 <= k < cur.len() && cur[k] == p as usize; if k < prev.len() { assert(prev[k] == p as usize); } }
            } else {
                if cur.contains(p as usize) { let k = choose|k: int| 0 <= k < cur.len() && cur[k] == p as usize; if k < prev.len() { assert(prev[k] <= w - 1); } }
            }
        }
    }
}
/// inside one run the ids are contiguous: the range first..last of its disposition names exactly the run's deliveries  [C02.receiver.run-is-contiguous]
pub proof fn lemma_run_is_contiguous(s: Seq<DeliveryInfo>, ci: Seq<usize>, k: int, j: int)
    requires rchunk_positions_ok(ci, s), 0 <= k <= ci.len(), 0 < s.len() <= usize::MAX,
        rrun_bound(ci, s.len() as int, k) <= j < rrun_bound(ci, s.len() as int, k + 1),
    ensures
        s[j].delivery_id == s[rrun_bound(ci, s.len() as int, k)].delivery_id + (j - rrun_bound(ci, s.len() as int, k)),
        s[j].rcv_settle_mode == s[rrun_bound(ci, s.len() as int, k)].rcv_settle_mode,
    decreases j,
{
    let b = rrun_bound(ci, s.len() as int, k);
    if j > b {
        // j is not a chunk position: it lies strictly between two neighbouring boundaries
        if ci.contains(j as usize) {
            let q = choose|q: int| 0 <= q < ci.len() && ci[q] == j as usize;
            if q <= k - 1 {
                if q < k - 1 { assert(ci[q] < ci[k - 1]); }
                assert(ci[q] <= b);
            } else {
                assert(k < ci.len());
                if q > k { assert(ci[k] < ci[q]); }
                assert(ci[q] >= rrun_bound(ci, s.len() as int, k + 1));
            }
            assert(false);
        }
        assert(0 < j < s.len());
        assert(!run_break(s, j));
        lemma_run_is_contiguous(s, ci, k, j - 1);
    }
}

//@@ trusted R34 helpers: `v.sort_by_key(KEY)` and `v.retain(PRED)` are written as calls of stand-ins that take the closure as the code has it (Verus checks the closure body against the stated key / predicate): sort_infos_by_key yields sorted_infos(old) -- a permutation of the input in ascending key order; retain_infos yields retained_infos(old, map) -- the elements satisfying the predicate, in their original order (std: `retain` visits each element once in order and preserves the order of the retained elements)
pub uninterp spec fn sorted_infos(s: Seq<DeliveryInfo>) -> Seq<DeliveryInfo>;
pub uninterp spec fn retained_infos(s: Seq<DeliveryInfo>, m: Map<DeliveryTag, Option<DeliveryState>>) -> Seq<DeliveryInfo>;
pub uninterp spec fn retained_from(s: Seq<DeliveryInfo>, m: Map<DeliveryTag, Option<DeliveryState>>, j: int) -> int;
#[verifier::external_body]
pub fn sort_infos_by_key<F: Fn(&DeliveryInfo) -> u32>(v: &mut Vec<DeliveryInfo>, f: F)
    requires forall|x: DeliveryInfo, k: u32| call_ensures(f, (&x,), k) ==> k == x.delivery_id, forall|x: DeliveryInfo| call_requires(f, (&x,)),
    ensures final(v)@ == sorted_infos(old(v)@), final(v)@.to_multiset() == old(v)@.to_multiset(), ids_ascending(final(v)@),
{ unimplemented!() }
#[verifier::external_body]
pub fn retain_infos<F: Fn(&DeliveryInfo) -> bool>(v: &mut Vec<DeliveryInfo>, f: F, Ghost(m): Ghost<Map<DeliveryTag, Option<DeliveryState>>>)
    requires forall|x: DeliveryInfo, b: bool| call_ensures(f, (&x,), b) ==> b == m.contains_key(x.delivery_tag), forall|x: DeliveryInfo| call_requires(f, (&x,)),
    ensures
        final(v)@ == retained_infos(old(v)@, m),
        final(v)@.len() <= old(v)@.len(),
        forall|j: int| 0 <= j < final(v)@.len() ==> 0 <= #[trigger] retained_from(old(v)@, m, j) < old(v)@.len() && final(v)@[j] == old(v)@[retained_from(old(v)@, m, j)] && m.contains_key(final(v)@[j].delivery_tag),
        forall|i: int, j: int| 0 <= i < j < final(v)@.len() ==> retained_from(old(v)@, m, i) < retained_from(old(v)@, m, j),
        forall|k: int| 0 <= k < old(v)@.len() && m.contains_key(old(v)@[k].delivery_tag) ==> exists|j: int| 0 <= j < final(v)@.len() && retained_from(old(v)@, m, j) == k,
{ unimplemented!() }
#[verifier::external_body]
pub fn opt_contains_or<K, V>(g: &Option<OrderedMap<K, V>>, k: &K, dflt: bool) -> (r: bool)
    ensures r == (match *g { Some(m) => m@.contains_key(*k), None => dflt }),     // `g.as_ref().map(|m| m.contains_key(k)).unwrap_or(dflt)`
{ unimplemented!() }
#[verifier::external_body]
pub fn slice_window2<T>(s: &[T], w: usize) -> (r: &[T])
    requires w + 2 <= s@.len(),
    ensures r@ == s@.subrange(w as int, w + 2),
{ &s[w..w + 2] }

//@@ fn file=fe2o3-amqp/src/util/mod.rs name=is_consecutive
//@@ spec
    requires *left <= *right,        // (the subtraction: callers pass ids in ascending order)
    ensures r == (*right - *left == 1),
//@@ end

//@@ fn file=fe2o3-amqp/src/link/receiver_link.rs name=consecutive_chunk_indices
//@@ attr #[verifier::loop_isolation(false)]
//@@ shape loops=while
//@@ attr #[verifier::spinoff_prover]
//@@ subst `delivery_infos .windows(2) .enumerate() .filter_map(|(__E1, __E2)| __E3) .collect()` => `{ let mut __fm_out: Vec<usize> = Vec::new(); let mut __fm_w: usize = 0; while __fm_w < delivery_infos.len().saturating_sub(1) { let __E1 = __fm_w; let __E2 = slice_window2(delivery_infos, __fm_w); let __fm_o: Option<usize> = __E3; if let Some(__fm_v) = __fm_o { __fm_out.push(__fm_v); } __fm_w += 1; } proof { reveal(rchunk_positions); lemma_rcp_upto(delivery_infos@, __fm_w as int); } __fm_out }` rule=R34
//@@ spec
    requires ids_ascending(delivery_infos@),   // is_consecutive computes right - left; dispose_all sorts first
    ensures
        r@ == rchunk_positions(delivery_infos@),                     // [C02.receiver.run-boundaries] the batch is cut exactly where the next id is not the successor of the previous one or the per-delivery settle mode changes
        rchunk_positions_ok(r@, delivery_infos@),
//@@ loop 0
        invariant
            delivery_infos@.len() >= 1 ==> __fm_w <= delivery_infos@.len() - 1, delivery_infos@.len() == 0 ==> __fm_w == 0,
            ids_ascending(delivery_infos@),
            __fm_out@ == rcp_upto(delivery_infos@, __fm_w as int),                     // [C02.receiver.run-boundaries]
        decreases delivery_infos@.len() - __fm_w,
//@@ loopstart 0
            proof {
                assert(delivery_infos@.subrange(__fm_w as int, __fm_w + 2)[0] == delivery_infos@[__fm_w as int]);
                assert(delivery_infos@.subrange(__fm_w as int, __fm_w + 2)[1] == delivery_infos@[__fm_w + 1]);
            }
//@@ end

// ---------------------------------------------------------------------------------------------
// ReceiverLink::on_complete_transfer (C09 credit enforcement, C02 unsettled bookkeeping)
//@@ trusted FromBody::decode_message_from_reader(payload.into_reader()) is a stand-in `decode_message(payload)` (result unconstrained); the receiver flow state is a stand-in carrying the contract of LinkFlowState<ReceiverMarker>::consume proved in unit LINKFLOW
opaque!(Msg, SerdeErr);
//@@ type file=fe2o3-amqp/src/link/error.rs kind=struct name=MessageDecodeError
//@@ subst `serde_amqp::Error` => `SerdeErr` rule=R11
//@@ end
//@@ type file=fe2o3-amqp/src/link/error.rs kind=enum name=ReceiverTransferError
//@@ end
//@@ type file=fe2o3-amqp/src/link/delivery.rs kind=struct name=Delivery
//@@ subst `Delivery<T>` => `Delivery` rule=R7
//@@ subst `Message<T>` => `Msg` rule=R7
//@@ end
#[verifier::external_body]
pub fn decode_message<P>(payload: P) -> (r: Result<Msg, SerdeErr>) { unimplemented!() }
#[verifier::external_body]
pub fn received_state(section_number: u32, section_offset: u64) -> (r: DeliveryState) ensures r == received_state_spec(section_number, section_offset) { unimplemented!() }
pub struct RFlowS { pub credit: u32, pub count: u32 }
impl RFlowS {
    /// [C09.enforce.overrun] / [C09.enforce.account] of unit LINKFLOW
    #[verifier::external_body]
    pub fn consume(&mut self, n: u32) -> (r: Result<(), ReceiverTransferError>)
        ensures
            old(self).credit < n ==> r == Err::<(), ReceiverTransferError>(ReceiverTransferError::TransferLimitExceeded) && *final(self) == *old(self),
            old(self).credit >= n ==> r is Ok && final(self).credit == old(self).credit - n && final(self).count == add32(old(self).count, n as int),
    { unimplemented!() }
}
pub struct ReceiverLinkT {
    pub local_state: LinkState,
    pub flow_state: RFlowS,
    pub rcv_settle_mode: ReceiverSettleMode,
    pub unsettled: Option<OrderedMap<DeliveryTag, Option<DeliveryState>>>,
    pub output_handle: Option<OutputHandle>,
}
impl ReceiverLinkT {
//@@ fn file=fe2o3-amqp/src/link/receiver_link.rs impl=`~impl<Tar>endpoint::ReceiverLinkforReceiverLink<Tar>` name=on_complete_transfer
//@@ generics <P>
//@@ nowhere
//@@ ret Result<Delivery, ReceiverTransferError>
//@@ subst `T::decode_message_from_reader(payload.into_reader())` => `decode_message(payload)` rule=R7
//@@ subst `DeliveryState::Received(Received { section_number, section_offset, })` => `received_state(section_number, section_offset)` rule=R11
//@@ subst `let mut lock = self.unsettled.write();` => `let mut lock = &mut self.unsettled;` rule=R4
//@@ subst `lock .get_or_insert(OrderedMap::new()) .insert(delivery_tag.clone(), Some(state))` => `opt_insert(&mut *lock, delivery_tag.clone(), Some(state))` rule=R15
//@@ subst `lock.as_mut().and_then(|map| map.swap_remove(&delivery_tag))` => `opt_swap_remove(&mut *lock, &delivery_tag)` rule=R15
//@@ subst `MessageDecodeError { source, info }.into()` => `ReceiverTransferError::MessageDecode(MessageDecodeError { source, info })` rule=R16
//@@ subst `let link_output_handle = self .output_handle .clone() .ok_or(ReceiverTransferError::IllegalState)? .into();` => `let link_output_handle = output_to_handle(self.output_handle.clone().ok_or(ReceiverTransferError::IllegalState)?);` rule=R16
//@@ spec
    ensures
        !(old(self).local_state is Attached || old(self).local_state is IncompleteAttachExchanged) ==>
            r is Err && final(self).flow_state == old(self).flow_state && final(self).unsettled == old(self).unsettled,    // [C13.link.no-delivery-unless-attached] a transfer on a link that is not attached is refused before anything is accounted
        (old(self).local_state is Attached || old(self).local_state is IncompleteAttachExchanged) && old(self).flow_state.credit == 0 ==>
            r == Err::<Delivery, ReceiverTransferError>(ReceiverTransferError::TransferLimitExceeded)
            && final(self).flow_state == old(self).flow_state && omap(final(self).unsettled) == omap(old(self).unsettled),   // [C09.enforce.before-delivery] a delivery beyond the credit issued is rejected as a transfer-limit violation BEFORE it is decoded, recorded or delivered
        (old(self).local_state is Attached || old(self).local_state is IncompleteAttachExchanged) && old(self).flow_state.credit > 0 ==>
            final(self).flow_state.credit == old(self).flow_state.credit - 1
            && final(self).flow_state.count == add32(old(self).flow_state.count, 1),                                      // [C09.enforce.one-credit-per-delivery] every complete delivery (however many frames carried it) takes exactly one credit and advances delivery-count by one
        r is Ok ==> ({
            let presettled = transfer.settled is Some && transfer.settled->Some_0;
            &&& transfer.delivery_id == Some(r->Ok_0.delivery_id) && transfer.delivery_tag == Some(r->Ok_0.delivery_tag)   // [C02.receiver.delivery-identity] the delivery handed to the application carries the transfer's own id and tag
            &&& presettled ==> omap(final(self).unsettled) == omap(old(self).unsettled).remove(r->Ok_0.delivery_tag)     // [C02.receiver.presettled-not-recorded] a delivery the sender has settled is not in the receiver's unsettled map afterwards -- also when its earlier frames (a multi-frame delivery) had been recorded there while it was incomplete
            &&& !presettled ==> omap(final(self).unsettled).dom() =~= omap(old(self).unsettled).dom().insert(r->Ok_0.delivery_tag)   // [C02.receiver.unsettled-recorded] an unsettled delivery is recorded in the receiver's unsettled map under its own tag
        }),
        final(self).local_state == old(self).local_state && final(self).rcv_settle_mode == old(self).rcv_settle_mode,
        (old(self).local_state is Attached || old(self).local_state is IncompleteAttachExchanged) && old(self).flow_state.credit > 0 ==> ({
            let presettled = transfer.settled is Some && transfer.settled->Some_0;
            &&& transfer.delivery_id is None ==> r == Err::<Delivery, ReceiverTransferError>(ReceiverTransferError::DeliveryIdIsNone)       // [C15.transfer.no-delivery-id] a first transfer without a delivery-id is refused, and the application is told which field was missing ...
            &&& transfer.delivery_id is Some && transfer.delivery_tag is None ==> r == Err::<Delivery, ReceiverTransferError>(ReceiverTransferError::DeliveryTagIsNone)       // [C15.transfer.no-delivery-tag] ... likewise the delivery-tag
            &&& transfer.delivery_id is Some && transfer.delivery_tag is Some && !presettled && old(self).rcv_settle_mode is First && transfer.rcv_settle_mode == Some(ReceiverSettleMode::Second)
                    ==> r == Err::<Delivery, ReceiverTransferError>(ReceiverTransferError::IllegalRcvSettleModeInTransfer) && omap(final(self).unsettled) == omap(old(self).unsettled)       // [C15.transfer.settle-mode-second-on-a-first-link] [C02.transfer.settle-mode-second-on-a-first-link] on a link negotiated as settle-first a transfer that asks for settle-second is a protocol violation: refused, nothing recorded
            &&& r is Err && r->Err_0 is IllegalRcvSettleModeInTransfer ==> old(self).rcv_settle_mode is First && transfer.rcv_settle_mode == Some(ReceiverSettleMode::Second) && !presettled       // and ONLY then: every other combination of negotiated and per-transfer mode is legal
        }),
//@@ end

//@@ fn file=fe2o3-amqp/src/link/receiver_link.rs impl=`~impl<Tar>endpoint::ReceiverLinkforReceiverLink<Tar>` name=on_transfer_state
//@@ nowhere
//@@ subst `let mut guard = self.unsettled.write();` => `let mut guard = &mut self.unsettled;` rule=R4
//@@ subst `guard.get_or_insert(OrderedMap::new())` => `opt_get_or_insert_new(&mut *guard)` rule=R15
//@@ spec
    ensures
        *delivery_tag is None ==> r == Err::<(), ReceiverTransferError>(ReceiverTransferError::DeliveryTagIsNone) && final(self).unsettled == old(self).unsettled,
        *delivery_tag is Some ==> r is Ok && ({     // [C02.receiver.frame-state]
            let k = (*delivery_tag)->Some_0;
            let m0 = omap(old(self).unsettled);
            let m1 = omap(final(self).unsettled);
            let presettled = settled is Some && settled->Some_0;
            let terminal = m0.contains_key(k) && m0[k] is Some && m0[k]->Some_0.spec_is_terminal();
            &&& presettled ==> m1 == m0.remove(k)                               // [C02.receiver.frame-state.settled-forgotten] a frame of a delivery the sender has settled takes the delivery OUT of the receiver's unsettled map (and touches no other delivery)
            &&& !presettled && terminal ==> m1 == m0                            // [C02.receiver.frame-state.terminal-is-final] once a delivery has attained a terminal outcome no later transfer frame alters it
            &&& !presettled && !terminal ==> m1 == m0.insert(k, Some(state))    // [C02.receiver.frame-state.recorded-under-its-own-tag] the state a transfer frame carries is recorded on THAT delivery -- under its own tag -- and on no other
        }),
        final(self).local_state == old(self).local_state && final(self).rcv_settle_mode == old(self).rcv_settle_mode
            && final(self).flow_state == old(self).flow_state && final(self).output_handle == old(self).output_handle,    // [C09.receiver.frame-state.no-credit-touched] a frame's delivery state is bookkeeping only: no credit is consumed, the link state is untouched
//@@ end

//@@ fn file=fe2o3-amqp/src/link/receiver_link.rs impl=`~impl<Tar>endpoint::ReceiverLinkforReceiverLink<Tar>` name=on_incomplete_transfer
//@@ nowhere
//@@ subst `DeliveryState::Received(Received { section_number, section_offset, })` => `received_state(section_number, section_offset)` rule=R11
//@@ subst `let mut guard = self.unsettled.write();` => `let mut guard = &mut self.unsettled;` rule=R4
//@@ subst `guard .get_or_insert(OrderedMap::new()) .insert(__E1, __E2)` => `opt_insert(&mut *guard, __E1, __E2)` rule=R15
//@@ spec
    ensures
        omap(final(self).unsettled) == omap(old(self).unsettled).insert(delivery_tag, Some(received_state_spec(section_number, section_offset))),   // [C02.receiver.incomplete-recorded] [C10.receiver.incomplete-progress-recorded] a delivery whose last frame has not arrived is held as unsettled under its own tag, with how far it has been received (sections, offset) -- which is what a resuming sender is told -- and no other delivery's record changes
        final(self).flow_state == old(self).flow_state,                                                                                             // [C09.receiver.incomplete-takes-no-credit] a frame that does not complete a delivery consumes no link credit and does not advance delivery-count
        final(self).local_state == old(self).local_state && final(self).rcv_settle_mode == old(self).rcv_settle_mode && final(self).output_handle == old(self).output_handle,
//@@ end
}

// ---------------------------------------------------------------------------------------------
// Link<R,T,F,M>: detach state machine (C13)
//@@ type file=fe2o3-amqp/src/link/mod.rs kind=struct name=Link
//@@ attr #[verifier::reject_recursive_types(M)]
//@@ subst `PhantomData<R>` => `core::marker::PhantomData<R>` rule=R11
//@@ subst `ArcUnsettledMap<M>` => `Option<OrderedMap<DeliveryTag, M>>` rule=R4
//@@ subst `Arc<OnceLock<SessionStopReason>>` => `OnceCell<SessionStopReason>` rule=R8
//@@ end

/// no frame for this link's handle can be produced once output_handle is None (send_flow / send_detach / transfer
/// generation all start from `output_handle.clone().ok_or(IllegalState)`)
pub open spec fn detach_sent_state(s: LinkState) -> bool {
    s is DetachSent || s is Detached || s is CloseSent || s is Closed
}

impl<R, T, F, M> Link<R, T, F, M> {
//@@ fn file=fe2o3-amqp/src/link/mod.rs impl=`impl<R, T, F, M> endpoint::LinkDetach for Link<R, T, F, M> where R: role::IntoRole + Send + Sync, T: Send, F: AsRef<LinkFlowState<R>> + Send + Sync, M: AsDeliveryState + Send + Sync,` name=on_incoming_detach
//@@ spec
    ensures
        detach.closed ==> (match old(self).local_state {
            LinkState::Attached | LinkState::AttachSent | LinkState::AttachReceived | LinkState::IncompleteAttachExchanged
            | LinkState::IncompleteAttachSent | LinkState::IncompleteAttachReceived =>
                final(self).local_state is CloseReceived && final(self).output_handle == old(self).output_handle
                && (match detach.error { Some(e) => r == Err::<(), DetachError>(DetachError::RemoteClosedWithError(e)), None => r is Ok }),
            LinkState::DetachSent =>
                final(self).local_state is CloseReceived && final(self).output_handle == old(self).output_handle
                && (match detach.error { Some(e) => r == Err::<(), DetachError>(DetachError::RemoteClosedWithError(e)), None => r == Err::<(), DetachError>(DetachError::ClosedByRemote) }),       // (a closing answer to OUR non-closing detach is reported as exactly that: the detach path re-attaches and closes on `ClosedByRemote`, unit LINKDETACH)
            LinkState::CloseSent =>
                final(self).local_state is Closed && final(self).output_handle is None
                && (match detach.error { Some(e) => r == Err::<(), DetachError>(DetachError::RemoteClosedWithError(e)), None => r is Ok }),
            _ => r == Err::<(), DetachError>(DetachError::IllegalState) && final(self).local_state == old(self).local_state && final(self).output_handle == old(self).output_handle,
        }),                                                                                                   // [C13.link.peer-close] a peer's closing detach moves to CloseReceived (to be answered by a closing detach) or completes our close -- then, and only then, the handle is released; the peer's error is what the caller gets
        !detach.closed ==> (match old(self).local_state {
            LinkState::Attached => final(self).local_state is DetachReceived && final(self).output_handle == old(self).output_handle,
            LinkState::DetachSent => final(self).local_state is Detached && final(self).output_handle is None,
            _ => r == Err::<(), DetachError>(DetachError::IllegalState) && final(self).local_state == old(self).local_state && final(self).output_handle == old(self).output_handle,
        }),                                                                                                   // [C13.link.peer-detach] likewise for a non-closing detach
        !detach.closed && (old(self).local_state is Attached || old(self).local_state is DetachSent) ==>
            (match detach.error { Some(e) => r == Err::<(), DetachError>(DetachError::RemoteDetachedWithError(e)), None => r is Ok }),   // [C13.link.peer-detach-error] [C14.link.peer-detach-error]
        r is Err && r->Err_0 is ClosedByRemote ==> old(self).local_state is DetachSent && detach.closed && detach.error is None,
        detach.error is Some ==> r is Err && !(r->Err_0 is ClosedByRemote) && !(r->Err_0 is DetachedByRemote),       // [C13.link.peer-detach-error-reported] [C14.link.peer-detach-error-reported] a detach of the peer that carries an error is never reported as a plain ClosedByRemote / DetachedByRemote (nor as success)
        final(self).input_handle == old(self).input_handle && final(self).name == old(self).name,
//@@ end

//@@ fn file=fe2o3-amqp/src/link/mod.rs impl=`impl<R, T, F, M> endpoint::LinkDetach for Link<R, T, F, M> where R: role::IntoRole + Send + Sync, T: Send, F: AsRef<LinkFlowState<R>> + Send + Sync, M: AsDeliveryState + Send + Sync,` name=send_detach
//@@ param writer : &mut ChanSender<LinkFrame>
//@@ subst `handle.into()` => `output_to_handle(handle)` rule=R16
//@@ subst `.map_err(|_v0| __E1)` => `.map_err(|_v0: ChanSendError| -> (o: DetachError) ensures o == detach_stop_err(self.session_stop_reason.val()) { __E1 })` rule=R18 unless `\.map_err\(`
//@@ spec
    ensures
        ({
            let legal = match (old(self).local_state, closed) {
                (LinkState::Attached, _) => true,
                (LinkState::DetachReceived, false) => true,
                (LinkState::CloseReceived, true) => true,
                _ => false,
            };
            &&& !legal ==> r is Err && final(writer).sent@ == old(writer).sent@ && final(self).local_state == old(self).local_state
                    && final(self).output_handle == old(self).output_handle                                  // [C13.link.one-detach] a detach is sent only from Attached / DetachReceived(non-closing) / CloseReceived(closing): after one was sent no second one can be
            &&& (old(self).local_state is CloseReceived && !closed) ==> r == Err::<(), DetachError>(DetachError::ClosedByRemote)          // [C13.link.close-answered-by-close] a peer's close cannot be answered with a non-closing detach
            &&& (old(self).local_state is DetachReceived && closed) ==> r == Err::<(), DetachError>(DetachError::DetachedByRemote)
            &&& legal ==> final(self).local_state == (match (old(self).local_state, closed) {
                    (LinkState::Attached, false) => LinkState::DetachSent,
                    (LinkState::DetachReceived, false) => LinkState::Detached,
                    (LinkState::Attached, true) => LinkState::CloseSent,
                    _ => LinkState::Closed,
                })
            &&& legal && old(self).output_handle is Some ==> final(self).output_handle is None                // [C13.link.handle-released-when-detach-sent] the output handle is given up exactly when the detach is sent, so no later frame can use it [C11.handle.given-up-with-the-detach] -- the session frees the number when it sees this detach and may hand it to another link at once: a link that still holds it would later detach (Drop) a handle that is no longer its own and release the NEW holder's handle and name
                    && (r is Ok ==> final(writer).sent@ == old(writer).sent@.push(LinkFrame::Detach(Detach { handle: Handle(old(self).output_handle->Some_0.0), closed, error })))   // [C13.link.detach-frame] the detach carries the link's handle, the closed flag and the caller's error
                    && (r is Err ==> final(writer).sent@ == old(writer).sent@ && final(writer).failures@ > old(writer).failures@)   // [C13.link.detach-fails-only-with-channel] with a handle and in a legal state the detach is queued unless the channel to the session is gone (this is the contract unit LINKDETACH relies on)
            &&& legal && old(self).output_handle is None ==> r is Err && final(writer).sent@ == old(writer).sent@   // [C13.link.no-frame-after-detach] without a handle nothing is sent
        }),
        r is Err && r->Err_0 is ClosedByRemote ==> old(self).local_state is CloseReceived && !closed,
        r is Err && final(writer).failures@ > old(writer).failures@ ==> r == Err::<(), DetachError>(detach_stop_err(old(self).session_stop_reason.val())),   // [C14.link.closed-channel-reports-stop-reason] a detach that cannot be queued because the session is gone fails with the reason the session published (SessionStopped(reason)); the caller learns whether the session or the connection stopped and the peer's error if there was one
        final(self).input_handle == old(self).input_handle && final(self).name == old(self).name,
//@@ end
}

impl<R, T, F, M> Link<R, T, F, M> {
    /// stand-ins: how the Attach performative is filled in (terminus, unsettled map, properties) is not part of this unit
    #[verifier::external_body]
    fn as_complete_attach(&self, handle: OutputHandle, is_reattaching: bool) -> (r: Attach) ensures !r.incomplete_unsettled { unimplemented!() }
    #[verifier::external_body]
    fn as_maybe_incomplete_attach(&self, max_frame_size: usize, handle: OutputHandle, is_reattaching: bool) -> (r: Result<Attach, SendAttachErrorKind>) { unimplemented!() }

//@@ fn file=fe2o3-amqp/src/link/mod.rs impl=`~impl<R,T,F,M>Link<R,T,F,M>whereR:role::IntoRole+Send+Sync,T:Into<TargetArchetype>` name=send_attach_inner
//@@ qmark
//@@ param writer : &mut ChanSender<LinkFrame>
//@@ param session : &SessionCtlTx
//@@ subst `let mut guard = self.unsettled.write(); *guard = None;` => `self.unsettled = None;` rule=R4 unless `unsettled\.write\(\)`
//@@ subst `let guard = self.unsettled.read(); guard.as_ref().map(|m| m.len())` => `unsettled_len(&self.unsettled)` rule=R15
//@@ subst `get_max_frame_size(session, &self.session_stop_reason)` => `get_max_frame_size(session, &self.session_stop_reason)` rule=optional
//@@ subst `|_v0|` => `|_v0: ChanSendError|` rule=optional-R5
//@@ subst `|_v1|` => `|_v1: ChanSendError|` rule=optional-R5
//@@ spec
    ensures
        ({
            let legal = old(self).local_state is Unattached || old(self).local_state is Detached || old(self).local_state is DetachSent || old(self).local_state is AttachReceived;
            &&& (!legal || old(self).output_handle is None) ==> r is Err && final(writer).sent@ == old(writer).sent@ && final(self).local_state == old(self).local_state   // [C13.link.attach-only-when-unattached] an attach is sent only by a link that has a handle and is not (being) attached: never a second attach for an attached link
            &&& r is Ok ==> final(writer).sent@.len() == old(writer).sent@.len() + 1 && final(writer).sent@.last() is Attach
                    && final(writer).sent@.drop_last() =~= old(writer).sent@                                                                                                 // [C13.link.attach-frame] exactly one attach frame
            &&& r is Ok ==> final(self).local_state == (match old(self).local_state {
                    LinkState::AttachReceived => if final(writer).sent@.last()->Attach_0.incomplete_unsettled { LinkState::IncompleteAttachExchanged } else { LinkState::Attached },
                    _ => if final(writer).sent@.last()->Attach_0.incomplete_unsettled { LinkState::IncompleteAttachSent } else { LinkState::AttachSent },
                })                                                                                                                                                           // [C13.link.attach-state] sending the attach completes the handshake if the peer's attach was already received, else waits for it
            &&& r is Err ==> final(writer).sent@ == old(writer).sent@ && final(self).local_state == old(self).local_state
        }),
        final(self).output_handle == old(self).output_handle && final(self).input_handle == old(self).input_handle && final(self).name == old(self).name,
        r is Ok && is_reattaching ==> final(self).unsettled is None,       // [C13.reattach.unsettled-map-cleared] a re-attach that only serves to answer the peer's closing detach announces no unsettled deliveries AND holds none: a map left behind makes the attach exchange report a resumption, the re-attach fail, and the closing detach owed to the peer is never written
//@@ end
}
#[verifier::external_body]
pub fn get_max_frame_size(session: &SessionCtlTx, stop: &OnceCell<SessionStopReason>) -> (r: Result<usize, SendAttachErrorKind>) { unimplemented!() }
#[verifier::external_body]
pub fn unsettled_len<M>(m: &Option<OrderedMap<DeliveryTag, M>>) -> (r: Option<usize>) { unimplemented!() }
pub trait ErrInto<T>: Sized { spec fn conv(self) -> T; fn err_into(self) -> (r: T) ensures r == self.conv(); }
impl ErrInto<DispositionError> for DispositionError { open spec fn conv(self) -> DispositionError { self } fn err_into(self) -> (r: DispositionError) { let e = self; assert(e == <DispositionError as ErrInto<DispositionError>>::conv(self)); e } }


// ---------------------------------------------------------------------------------------------
// Drop of a link endpoint (C13: dropping a handle sends at most one detach, for the handle the link still holds)
pub struct LinkH { pub output_handle: Option<OutputHandle> }
impl LinkH { pub fn output_handle_mut(&mut self) -> (r: &mut Option<OutputHandle>) ensures *r == old(self).output_handle, final(self).output_handle == *final(r) { &mut self.output_handle } }
impl<T> ChanSender<T> {
    /// mpsc::Sender::try_send: queues now or fails, never waits -- it fails when the receiving end is gone (`failures`) AND when the bounded queue is momentarily full (`fulls`: the other end is alive)
    #[verifier::external_body]
    pub fn try_send(&mut self, v: T) -> (r: Result<(), mpsc::error::TrySendError<T>>)
        ensures
            r is Ok ==> final(self).sent@ == old(self).sent@.push(v) && final(self).failures@ == old(self).failures@ && final(self).fulls@ == old(self).fulls@,
            r is Err ==> final(self).sent@ == old(self).sent@ && final(self).failures@ >= old(self).failures@ && final(self).fulls@ >= old(self).fulls@
                && final(self).failures@ + final(self).fulls@ == old(self).failures@ + old(self).fulls@ + 1,
            r is Err && r->Err_0 is Closed ==> final(self).failures@ == old(self).failures@ + 1,
            r is Err && r->Err_0 is Full ==> final(self).fulls@ == old(self).fulls@ + 1,
    { unimplemented!() }
}
/// tokio::sync::mpsc::error::TrySendError: the two ways a `try_send` fails (code that tells them apart stays inside the subset; a frame that met a FULL queue is a frame NOT handed over)
pub mod mpsc { pub mod error { pub enum TrySendError<T> { Full(T), Closed(T) } } }
/// SenderInner / ReceiverInner reduced to what their Drop touches (R11)
pub struct EndpointD { pub link: LinkH, pub outgoing: ChanSender<LinkFrame> }
pub open spec fn drop_contract(o: EndpointD, n: EndpointD) -> bool {
    &&& n.link.output_handle is None                                                                            // [C13.drop.handle-released] after the drop the link holds no handle: nothing can be written for it any more
    &&& (o.link.output_handle is None ==> n.outgoing.sent@ == o.outgoing.sent@)                                  // [C13.drop.no-second-detach] a link that has already sent (or never needed) its detach writes nothing when dropped
    &&& (o.link.output_handle is Some ==> (n.outgoing.sent@ == o.outgoing.sent@ && n.outgoing.failures@ + n.outgoing.fulls@ > o.outgoing.failures@ + o.outgoing.fulls@)
            || n.outgoing.sent@ == o.outgoing.sent@.push(LinkFrame::Detach(Detach { handle: Handle(o.link.output_handle->Some_0.0), closed: true, error: None })))   // [C13.drop.one-closing-detach] otherwise exactly one CLOSING detach for the link's own handle is queued (or none if the channel to the session refuses it)
}
impl EndpointD {
//@@ fn file=fe2o3-amqp/src/link/sender.rs impl=`impl<L: endpoint::SenderLink> Drop for SenderInner<L>` name=drop as=sender_drop id=SenderInner::drop
//@@ subst `handle.into()` => `output_to_handle(handle)` rule=R16
//@@ spec
    ensures drop_contract(*old(self), *final(self)),     // [C13.drop.handle-released] [C13.drop.no-second-detach] [C13.drop.one-closing-detach] (spelled out in drop_contract above)
//@@ end
//@@ fn file=fe2o3-amqp/src/link/receiver.rs impl=`impl<L: endpoint::ReceiverLink> Drop for ReceiverInner<L>` name=drop as=receiver_drop id=ReceiverInner::drop
//@@ subst `handle.into()` => `output_to_handle(handle)` rule=R16
//@@ spec
    ensures drop_contract(*old(self), *final(self)),     // [C13.drop.handle-released] [C13.drop.no-second-detach] [C13.drop.one-closing-detach] (spelled out in drop_contract above)
//@@ end
}

} // verus!
fn main() {}
