//@@ unit SIZEENTRY
#![feature(allocator_api)]
#![allow(unused_imports, unused_variables, dead_code, unused_mut, unused_parens)]
use vstd::prelude::*;

verus! {
global size_of usize == 8;

//@@ trusted machine integers: usize is 64 bits
//@@ trusted the value handed to a compound size serializer (`T: Serialize`) is a stand-in: sized through a SizeSerializer it returns sz(value, mode) -- an uninterpreted function of the value and of the serializer's mode (array-element position, pending struct encodings, markers), the size twin of unit SERENTRY's enc(value, mode) -- or fails; no value is larger than 2^32 octets (a larger one is refused by the compound it sits in: list_size / map_size / array_size, unit SERHDR); like its writing twin it consumes the markers and leaves the stack of pending encodings as it found it
//@@ trusted list_size / map_size / array_size (under contract in unit SERHDR: == octets the header writers produce) are stand-ins returning list_sz / map_sz / array_sz(body, position), uninterpreted here; serialize_u32's size twin (unit SERFIX) returns u32_sz
//@@ trusted that sz(v, m) == |enc(v, m)| for the leaf values is what units SERFIX / SERSTR / SERHDR / VALUESER prove per encoder; THIS unit decides that the compound size serializers add up the sizes of exactly the elements / fields the compound writers of ser.rs (unit SERENTRY) write, under the modes stated below. Where the size twin uses another mode than ser.rs the clause says so (three arms: DESIGN section 8)

pub enum Error { TooLong, Other }
pub trait ErrInto<T>: Sized { spec fn conv(self) -> T; fn err_into(self) -> (r: T) ensures r == self.conv(); }
impl ErrInto<Error> for Error { open spec fn conv(self) -> Error { self } fn err_into(self) -> (r: Error) { let e = self; assert(e == <Error as ErrInto<Error>>::conv(self)); e } }
impl Error { pub fn too_long() -> (r: Error) { Error::TooLong } }

//@@ type file=serde_amqp/src/util.rs kind=enum name=NonNativeType
//@@ end
//@@ type file=serde_amqp/src/util.rs kind=enum name=SequenceType
//@@ end
//@@ type file=serde_amqp/src/util.rs kind=enum name=StructEncoding clone
//@@ end
//@@ type file=serde_amqp/src/util.rs kind=enum name=IsArrayElement clone
//@@ end
//@@ type file=serde_amqp/src/util.rs kind=enum name=FieldRole
//@@ end
//@@ strconsts file=serde_amqp/src/constants.rs names=DESCRIBED_BASIC,DESCRIBED_LIST,DESCRIBED_MAP,DESCRIPTOR,ARRAY,DECIMAL32,DECIMAL64,DECIMAL128,SYMBOL,SYMBOL_REF,TIMESTAMP,UUID,TRANSPARENT_VEC,LAZY_VALUE lemma=lemma_names_distinct label=`[C20.constants.newtype-names-distinct] the names are pairwise different strings`

//@@ type file=serde_amqp/src/size_ser.rs kind=struct name=SizeSerializer
//@@ end

pub struct Mode { pub pos: IsArrayElement, pub encs: Seq<StructEncoding>, pub marker: Option<NonNativeType>, pub st: Option<SequenceType> }
pub open spec fn mode_of(se: SizeSerializer) -> Mode { Mode { pos: se.is_array_element, encs: se.struct_encoding@, marker: se.non_native_type, st: se.seq_type } }
pub open spec fn plain_mode() -> Mode { Mode { pos: IsArrayElement::False, encs: Seq::empty(), marker: None, st: None } }
/// as in unit SERENTRY
pub open spec fn elem_mode(st: Option<SequenceType>, num: int) -> Mode {
    match st {
        Some(SequenceType::Array) => Mode { pos: if num == 0 { IsArrayElement::FirstElement } else { IsArrayElement::OtherElement }, ..plain_mode() },
        _ => plain_mode(),
    }
}
pub open spec fn top_enc(encs: Seq<StructEncoding>) -> StructEncoding { if encs.len() == 0 { StructEncoding::None } else { encs.last() } }

#[verifier::external_body]
pub struct ValS { _p: u8 }
pub uninterp spec fn sz(v: ValS, m: Mode) -> nat;
impl ValS {
    #[verifier::external_body]
    pub fn serialize(&self, se: &mut SizeSerializer) -> (r: Result<usize, Error>)
        ensures r is Ok ==> r->Ok_0 == sz(*self, mode_of(*old(se))) && r->Ok_0 <= 0x1_0000_0000,
            final(se).non_native_type is None, final(se).seq_type is None, final(se).struct_encoding@ == old(se).struct_encoding@, final(se).is_array_element == old(se).is_array_element,
    { unimplemented!() }
}
pub uninterp spec fn list_sz(body: int, pos: IsArrayElement) -> Option<int>;
pub uninterp spec fn map_sz(body: int, pos: IsArrayElement) -> Option<int>;
pub uninterp spec fn array_sz(body: int, pos: IsArrayElement) -> Option<int>;
macro_rules! size_fn {
    ($($f:ident => $s:ident),*) => { verus!{ $(
        /// unit SERHDR: == the octets the matching header writer produces around a body of `len` octets
        #[verifier::external_body]
        pub fn $f(len: usize, is_array_element: &IsArrayElement) -> (r: Result<usize, usize>)
            ensures (match $s(len as int, *is_array_element) { Some(n) => r == Ok::<usize, usize>(n as usize) && 0 <= n <= usize::MAX && n <= len + 9 && len <= 0xffff_fffb, None => r is Err }),       // (the last two facts are SERHDR's: refused above 0xffff_fffb, a header has at most nine octets)
        { unimplemented!() }
    )* } }
}
size_fn!(list_size => list_sz, map_size => map_sz, array_size => array_sz);
//@@ fn file=serde_amqp/src/size_ser.rs name=transparent_vec_size
//@@ spec
    ensures r == Ok::<usize, usize>(len),       // [C20.size.transparent-vec-adds-nothing] a transparent vector is sized as the octets of its elements alone: no header, in any position (the encoder writes none either, unit SERENTRY)
//@@ end

//@@ type file=serde_amqp/src/size_ser.rs kind=struct name=SeqSerializer
//@@ end
//@@ type file=serde_amqp/src/size_ser.rs kind=struct name=TupleSerializer
//@@ end
//@@ type file=serde_amqp/src/size_ser.rs kind=struct name=MapSerializer
//@@ end

impl SizeSerializer {
//@@ fn file=serde_amqp/src/size_ser.rs impl=`impl SizeSerializer` name=new
//@@ spec
    ensures mode_of(r) == plain_mode(),
//@@ end
}

impl<'a> SeqSerializer<'a> {
//@@ fn file=serde_amqp/src/size_ser.rs impl=`impl<'a> SeqSerializer<'a>` name=new id=SeqSerializer::new
//@@ spec
    ensures *r.se == *old(se), *final(se) == *final(r.se), r.cumulated_size == 0, r.idx == 0,
//@@ end

//@@ fn file=serde_amqp/src/size_ser.rs impl=`impl ser::SerializeSeq for SeqSerializer<'_>` name=serialize_element id=SeqSerializer::serialize_element
//@@ qmark
//@@ generics
//@@ nowhere
//@@ orsplit
//@@ blockarms
//@@ param value : &ValS
//@@ spec
    requires old(self).cumulated_size < 0x7fff_ffff_0000_0000, old(self).idx < usize::MAX,
    ensures *final(self).se == *old(self).se, *final(final(self).se) == *final(old(self).se),
        r is Ok ==> final(self).idx == old(self).idx + 1
            && final(self).cumulated_size == old(self).cumulated_size + sz(*value, elem_mode(old(self).se.seq_type, old(self).idx as int)),       // [C20.size.seq-elements-sized-as-written] every element is sized under the mode it is WRITTEN under (unit SERENTRY, clause array.one-constructor: in an Array the first element with its constructor, the later ones without; list elements each with their own) and counted once
//@@ end

//@@ fn file=serde_amqp/src/size_ser.rs impl=`impl ser::SerializeSeq for SeqSerializer<'_>` name=end id=SeqSerializer::end
//@@ orsplit
//@@ blockarms
//@@ subst `.map_err(|_v0| Error::too_long())` => `.map_err(|_v0: usize| -> (o: Error) { Error::too_long() })` rule=R5
//@@ subst `.map_err(|_v1| Error::too_long())` => `.map_err(|_v1: usize| -> (o: Error) { Error::too_long() })` rule=R5
//@@ subst `.map_err(|_v2| Error::too_long())` => `.map_err(|_v2: usize| -> (o: Error) { Error::too_long() })` rule=R5
//@@ spec
    ensures
        r is Ok ==> (match old(self.se).seq_type {
            Some(SequenceType::Array) => array_sz(self.cumulated_size as int, old(self.se).is_array_element) == Some(r->Ok_0 as int),
            Some(SequenceType::TransparentVec) => r->Ok_0 == self.cumulated_size,
            _ => list_sz(self.cumulated_size as int, old(self.se).is_array_element) == Some(r->Ok_0 as int),
        }),       // [C20.size.seq-header-as-written] the size of a finished sequence is the size of the header ser.rs writes for it (array for an Array, list otherwise, nothing for a transparent vector) around the summed element sizes, in the enclosing position
//@@ end
}

impl<'a> TupleSerializer<'a> {
//@@ fn file=serde_amqp/src/size_ser.rs impl=`impl ser::SerializeTuple for TupleSerializer<'_>` name=serialize_element id=TupleSerializer::serialize_element
//@@ qmark
//@@ generics
//@@ nowhere
//@@ param value : &ValS
//@@ spec
    requires old(self).cumulated_size < 0x7fff_ffff_0000_0000,
    ensures *final(self).se == *old(self).se, *final(final(self).se) == *final(old(self).se),
        r is Ok ==> final(self).cumulated_size == old(self).cumulated_size + sz(*value, plain_mode()),       // [C20.size.tuple-elements-sized-as-written] list elements are sized each with its own constructor, as written
//@@ end

//@@ fn file=serde_amqp/src/size_ser.rs impl=`impl ser::SerializeTuple for TupleSerializer<'_>` name=end id=TupleSerializer::end
//@@ subst `.map_err(|_v0| Error::too_long())` => `.map_err(|_v0: usize| -> (o: Error) { Error::too_long() })` rule=R5
//@@ spec
    ensures r is Ok ==> list_sz(self.cumulated_size as int, old(self.se).is_array_element) == Some(r->Ok_0 as int),       // [C20.size.tuple-header-as-written]
//@@ end
}

impl<'a> MapSerializer<'a> {
//@@ fn file=serde_amqp/src/size_ser.rs impl=`impl ser::SerializeMap for MapSerializer<'_>` name=serialize_entry
//@@ qmark
//@@ generics
//@@ nowhere
//@@ param key : &ValS
//@@ param value : &ValS
//@@ spec
    requires old(self).cumulated_size < 0x7fff_ffff_0000_0000,
    ensures *final(self).se == *old(self).se, *final(final(self).se) == *final(old(self).se),
        r is Ok ==> final(self).cumulated_size == old(self).cumulated_size + sz(*key, plain_mode()) + sz(*value, plain_mode()),       // [C20.size.map-entries-sized-as-written] an entry is the size of its key plus the size of its value, each with its own constructor
//@@ end

//@@ fn file=serde_amqp/src/size_ser.rs impl=`impl ser::SerializeMap for MapSerializer<'_>` name=serialize_key
//@@ qmark
//@@ generics
//@@ nowhere
//@@ param key : &ValS
//@@ spec
    requires old(self).cumulated_size < 0x7fff_ffff_0000_0000,
    ensures *final(self).se == *old(self).se, *final(final(self).se) == *final(old(self).se),
        r is Ok ==> final(self).cumulated_size == old(self).cumulated_size + sz(*key, plain_mode()),       // [C20.size.map-entries-sized-as-written]
//@@ end

//@@ fn file=serde_amqp/src/size_ser.rs impl=`impl ser::SerializeMap for MapSerializer<'_>` name=serialize_value
//@@ qmark
//@@ generics
//@@ nowhere
//@@ param value : &ValS
//@@ spec
    requires old(self).cumulated_size < 0x7fff_ffff_0000_0000,
    ensures *final(self).se == *old(self).se, *final(final(self).se) == *final(old(self).se),
        r is Ok ==> final(self).cumulated_size == old(self).cumulated_size + sz(*value, plain_mode()),       // [C20.size.map-entries-sized-as-written]
//@@ end

//@@ fn file=serde_amqp/src/size_ser.rs impl=`impl ser::SerializeMap for MapSerializer<'_>` name=end id=MapSerializer::end
//@@ subst `.map_err(|_v0| Error::too_long())` => `.map_err(|_v0: usize| -> (o: Error) { Error::too_long() })` rule=R5
//@@ spec
    ensures r is Ok ==> map_sz(self.cumulated_size as int, old(self.se).is_array_element) == Some(r->Ok_0 as int),       // [C20.size.map-header-as-written]
//@@ end
}

// ================================================================ composites
//@@ type file=serde_amqp/src/size_ser.rs kind=struct name=TupleStructSerializer
//@@ end
//@@ type file=serde_amqp/src/size_ser.rs kind=struct name=StructSerializer
//@@ end
/// a field name as a map key (a str)
pub uninterp spec fn key_sz(k: Seq<char>, m: Mode) -> nat;
#[verifier::external_body]
pub fn str_serialize(key: &str, se: &mut SizeSerializer) -> (r: Result<usize, Error>)
    ensures r is Ok ==> r->Ok_0 == key_sz(key@, mode_of(*old(se))) && r->Ok_0 <= 0x1_0000_0000,
        final(se).non_native_type is None, final(se).seq_type is None, final(se).struct_encoding@ == old(se).struct_encoding@, final(se).is_array_element == old(se).is_array_element,
{ unimplemented!() }
pub fn vec_one(e: StructEncoding) -> (r: Vec<StructEncoding>) ensures r@ == seq![e] { let mut v = Vec::new(); v.push(e); v }
pub fn last_or_none(v: &Vec<StructEncoding>) -> (r: &StructEncoding) ensures *r == top_enc(v@) { if v.len() == 0 { &StructEncoding::None } else { &v[v.len() - 1] } }

impl SizeSerializer {
//@@ fn file=serde_amqp/src/size_ser.rs impl=`impl SizeSerializer` name=described_list
//@@ subst `vec![StructEncoding::DescribedList]` => `vec_one(StructEncoding::DescribedList)` rule=R14
//@@ spec
    ensures mode_of(r) == (Mode { encs: seq![StructEncoding::DescribedList], ..plain_mode() }),
//@@ end

//@@ fn file=serde_amqp/src/size_ser.rs impl=`impl SizeSerializer` name=described_map
//@@ subst `vec![StructEncoding::DescribedMap]` => `vec_one(StructEncoding::DescribedMap)` rule=R14
//@@ spec
    ensures mode_of(r) == (Mode { encs: seq![StructEncoding::DescribedMap], ..plain_mode() }),
//@@ end

//@@ fn file=serde_amqp/src/size_ser.rs impl=`impl SizeSerializer` name=struct_encoding as=struct_encoding
//@@ subst `self.struct_encoding.last().unwrap_or(&StructEncoding::None)` => `last_or_none(&self.struct_encoding)` rule=R15
//@@ spec
    ensures *r == top_enc(self.struct_encoding@),
//@@ end
}

impl<'a> StructSerializer<'a> {
//@@ fn file=serde_amqp/src/size_ser.rs impl=`impl ser::SerializeStruct for StructSerializer<'_>` name=serialize_field id=StructSerializer::serialize_field dropuses
//@@ qmark
//@@ generics
//@@ nowhere
//@@ blockarms
//@@ param value : &ValS
//@@ subst `key.serialize(&mut serializer)?` => `str_serialize(key, &mut serializer)?` rule=R28 unless `key\.serialize`
//@@ subst `value.serialize(&mut *self.se)?` => `value.serialize(self.se)?` rule=R4 unless `\*self\.se`
//@@ entry
    proof { lemma_names_distinct(); }
//@@ spec
    requires old(self).cumulated_size < 0x7fff_ffff_0000_0000, old(self).descriptor_size < 0x7fff_ffff_0000_0000,
    ensures final(self).se.struct_encoding@ == old(self).se.struct_encoding@, final(self).se.is_array_element == old(self).se.is_array_element, *final(final(self).se) == *final(old(self).se),
        r is Ok ==> ({
            let se0 = *old(self).se;
            let e = top_enc(se0.struct_encoding@);
            // [C20.size.composite-descriptor-outside-the-body] the descriptor is sized under the enclosing serializer's mode (as it is written) and kept OUT of the body the list / map header counts (D78)
            &&& key@ == DESCRIPTOR@ ==> final(self).cumulated_size == old(self).cumulated_size && final(self).descriptor_size == old(self).descriptor_size + sz(*value, mode_of(se0))
            // [C20.size.composite-fields-sized-as-written] every other field adds its size to the body, under the mode ser.rs writes it under: a plain struct's field in the enclosing position, a described list's / map's field through a fresh serializer that knows the form (the map form adds the key)
            &&& key@ != DESCRIPTOR@ ==> final(self).descriptor_size == old(self).descriptor_size && (match e {
                    StructEncoding::None => final(self).cumulated_size == old(self).cumulated_size + sz(*value, Mode { pos: se0.is_array_element, ..plain_mode() }),
                    StructEncoding::DescribedList => final(self).cumulated_size == old(self).cumulated_size + sz(*value, Mode { encs: seq![StructEncoding::DescribedList], ..plain_mode() }),
                    StructEncoding::DescribedMap => final(self).cumulated_size == old(self).cumulated_size + key_sz(key@, Mode { encs: seq![StructEncoding::DescribedMap], ..plain_mode() }) + sz(*value, Mode { encs: seq![StructEncoding::DescribedMap], ..plain_mode() }),
                    StructEncoding::DescribedBasic => final(self).cumulated_size == old(self).cumulated_size + sz(*value, plain_mode()),       // (ser.rs writes this field through the ENCLOSING serializer: the size twin uses a fresh one -- DESIGN section 8; equal for every value whose encoding does not look at the pending encodings or the array position)
                })
        }),
//@@ end
}

impl<'a> TupleStructSerializer<'a> {
//@@ fn file=serde_amqp/src/size_ser.rs impl=`impl<'a> TupleStructSerializer<'a>` name=descriptor
//@@ spec
    ensures *r.se == *old(se), *final(se) == *final(r.se), r.cumulated_size == 0, r.descriptor_size == 0, r.field_role is Descriptor,
//@@ end

//@@ fn file=serde_amqp/src/size_ser.rs impl=`impl<'a> TupleStructSerializer<'a>` name=fields
//@@ spec
    ensures *r.se == *old(se), *final(se) == *final(r.se), r.cumulated_size == 0, r.descriptor_size == 0, r.field_role is Fields,
//@@ end

//@@ fn file=serde_amqp/src/size_ser.rs impl=`impl ser::SerializeTupleStruct for TupleStructSerializer<'_>` name=serialize_field id=TupleStructSerializer::serialize_field
//@@ qmark
//@@ generics
//@@ nowhere
//@@ blockarms
//@@ param value : &ValS
//@@ subst `unreachable!("TupleStructSerializer is NOT used for DescribedMap")` => `{ unreachable_here(); Err(Error::Other) }` rule=R12
//@@ spec
    requires old(self).cumulated_size < 0x7fff_ffff_0000_0000, old(self).descriptor_size < 0x7fff_ffff_0000_0000,
        !(old(self).field_role is Fields && top_enc(old(self).se.struct_encoding@) is DescribedMap),
    ensures final(self).se.struct_encoding@ == old(self).se.struct_encoding@, final(self).se.is_array_element == old(self).se.is_array_element, *final(final(self).se) == *final(old(self).se),
        final(self).field_role is Fields,
        r is Ok ==> ({
            let se0 = *old(self).se;
            let e = top_enc(se0.struct_encoding@);
            &&& old(self).field_role is Descriptor ==> final(self).cumulated_size == old(self).cumulated_size && final(self).descriptor_size == old(self).descriptor_size + sz(*value, plain_mode())       // [C20.size.composite-descriptor-outside-the-body] the first field of a described tuple struct is its descriptor: sized on its own, outside the body
            &&& old(self).field_role is Fields ==> final(self).descriptor_size == old(self).descriptor_size
                    && final(self).cumulated_size == old(self).cumulated_size + sz(*value, if e is DescribedBasic { plain_mode() } else { Mode { pos: se0.is_array_element, ..plain_mode() } })       // [C20.size.composite-fields-sized-as-written] (a described list's field: ser.rs writes it through a serializer that knows the list form and is not in an array -- the size twin keeps the array position and forgets the form; a basic wrapper's: ser.rs keeps the array position, the size twin does not -- DESIGN section 8)
        }),
//@@ end
}
pub fn unreachable_here()
    requires false,     // [C20.size.no-unreachable-panic]
{}

// ================================================================ entry points of `impl ser::Serializer for &mut SizeSerializer`
impl<'a> StructSerializer<'a> {
//@@ fn file=serde_amqp/src/size_ser.rs impl=`impl<'a> StructSerializer<'a>` name=new id=StructSerializer::new
//@@ spec
    ensures *r.se == *old(se), *final(se) == *final(r.se), r.cumulated_size == 0, r.descriptor_size == 0,
//@@ end
}
impl<'a> MapSerializer<'a> {
//@@ fn file=serde_amqp/src/size_ser.rs impl=`impl<'a> MapSerializer<'a>` name=new id=MapSerializer::new
//@@ spec
    ensures *r.se == *old(se), *final(se) == *final(r.se), r.cumulated_size == 0,
//@@ end
}
pub uninterp spec fn u32_sz(v: u32, pos: IsArrayElement) -> nat;
#[verifier::external_body]
pub fn u32_as_val(v: &u32) -> (r: &ValS) ensures forall|m: Mode| #[trigger] sz(*r, m) == u32_sz(*v, m.pos) { unimplemented!() }
impl SizeSerializer {
//@@ fn file=serde_amqp/src/size_ser.rs impl=`impl<'a> ser::Serializer for &'a mut SizeSerializer` name=serialize_map
//@@ selfmut
//@@ ret Result<MapSerializer<'_>, Error>
//@@ spec
    ensures r is Ok, *r->Ok_0.se == *old(self), *final(self) == *final(r->Ok_0.se), r->Ok_0.cumulated_size == 0,
//@@ end

//@@ fn file=serde_amqp/src/size_ser.rs impl=`impl<'a> ser::Serializer for &'a mut SizeSerializer` name=serialize_newtype_struct
//@@ selfmut
//@@ generics
//@@ nowhere
//@@ param value : &ValS
//@@ ret Result<usize, Error>
//@@ entry
    proof { lemma_names_distinct(); }
//@@ spec
    ensures
        final(self).non_native_type is None && final(self).seq_type is None,
        r is Ok ==> ({
            let m0 = mode_of(*old(self));
            // [C20.size.newtype-sized-under-its-marker] each AMQP-specific newtype is sized under the marker it is written under (unit SERENTRY, clause newtype.marker-matches-type): the same name -> marker table, or size and bytes part ways for symbols, timestamps, decimals, uuids and arrays
            &&& name@ == SYMBOL@ ==> r->Ok_0 == sz(*value, Mode { marker: Some(NonNativeType::Symbol), ..m0 })
            &&& name@ == SYMBOL_REF@ ==> r->Ok_0 == sz(*value, Mode { marker: Some(NonNativeType::SymbolRef), ..m0 })
            &&& name@ == DECIMAL32@ ==> r->Ok_0 == sz(*value, Mode { marker: Some(NonNativeType::Dec32), ..m0 })
            &&& name@ == DECIMAL64@ ==> r->Ok_0 == sz(*value, Mode { marker: Some(NonNativeType::Dec64), ..m0 })
            &&& name@ == DECIMAL128@ ==> r->Ok_0 == sz(*value, Mode { marker: Some(NonNativeType::Dec128), ..m0 })
            &&& name@ == TIMESTAMP@ ==> r->Ok_0 == sz(*value, Mode { marker: Some(NonNativeType::Timestamp), ..m0 })
            &&& name@ == UUID@ ==> r->Ok_0 == sz(*value, Mode { marker: Some(NonNativeType::Uuid), ..m0 })
            &&& name@ == LAZY_VALUE@ ==> r->Ok_0 == sz(*value, Mode { marker: Some(NonNativeType::LazyValue), ..m0 })
            &&& name@ == ARRAY@ ==> r->Ok_0 == sz(*value, Mode { st: Some(SequenceType::Array), ..m0 })
            &&& name@ == TRANSPARENT_VEC@ ==> r->Ok_0 == sz(*value, Mode { st: Some(SequenceType::TransparentVec), ..m0 })
            &&& !(name@ == SYMBOL@ || name@ == SYMBOL_REF@ || name@ == DECIMAL32@ || name@ == DECIMAL64@ || name@ == DECIMAL128@ || name@ == TIMESTAMP@ || name@ == UUID@ || name@ == LAZY_VALUE@ || name@ == ARRAY@ || name@ == TRANSPARENT_VEC@)
                    ==> r->Ok_0 == sz(*value, m0)
        }),
//@@ end

//@@ fn file=serde_amqp/src/size_ser.rs impl=`impl<'a> ser::Serializer for &'a mut SizeSerializer` name=serialize_newtype_variant
//@@ selfmut
//@@ qmark
//@@ generics
//@@ nowhere
//@@ param value : &ValS
//@@ ret Result<usize, Error>
//@@ subst `value.serialize(self).map(|len| __E1)` => `(match value.serialize(self) { Ok(len) => Ok(__E1), Err(e) => Err(e) })` rule=R19 unless `\.map\(`
//@@ subst `state.serialize_entry(&variant_index, value)?` => `state.serialize_entry(u32_as_val(&variant_index), value)?` rule=R28
//@@ entry
    proof { lemma_names_distinct(); }
//@@ spec
    ensures
        r is Ok ==> ({
            let m0 = mode_of(*old(self));
            &&& name@ == DESCRIPTOR@ ==> r->Ok_0 == sz(*value, m0) + 1       // [C20.size.described-constructor-counted] the described-type constructor 0x00 in front of the descriptor is one octet
            &&& name@ != DESCRIPTOR@ ==> map_sz((u32_sz(variant_index, IsArrayElement::False) + sz(*value, plain_mode())) as int, m0.pos) == Some(r->Ok_0 as int)       // [C20.size.newtype-variant-as-written] any other newtype variant is sized as the two-item map ser.rs writes
        }),
//@@ end

//@@ fn file=serde_amqp/src/size_ser.rs impl=`impl<'a> ser::Serializer for &'a mut SizeSerializer` name=serialize_struct
//@@ selfmut
//@@ ret Result<StructSerializer<'_>, Error>
//@@ entry
    proof { lemma_names_distinct(); }
//@@ spec
    ensures r is Ok, *final(self) == *final(r->Ok_0.se), r->Ok_0.cumulated_size == 0, r->Ok_0.descriptor_size == 0,
        r->Ok_0.se.non_native_type == old(self).non_native_type, r->Ok_0.se.seq_type == old(self).seq_type, r->Ok_0.se.is_array_element == old(self).is_array_element,
        ({
            let e1 = r->Ok_0.se.struct_encoding@;
            let e0 = old(self).struct_encoding@;
            // [C20.size.composite-encoding-by-name] the same name -> pending-encoding table as ser.rs (unit SERENTRY, clause composite.encoding-by-name)
            &&& name@ == DESCRIBED_LIST@ ==> e1 == e0.push(StructEncoding::DescribedList)
            &&& name@ == DESCRIBED_MAP@ ==> e1 == e0.push(StructEncoding::DescribedMap)
            &&& name@ == DESCRIBED_BASIC@ ==> e1 == e0.push(StructEncoding::DescribedBasic)
            &&& name@ != DESCRIBED_LIST@ && name@ != DESCRIBED_MAP@ && name@ != DESCRIBED_BASIC@ ==> e1 == e0
        }),
//@@ end

//@@ fn file=serde_amqp/src/size_ser.rs impl=`impl<'a> ser::Serializer for &'a mut SizeSerializer` name=serialize_tuple_struct
//@@ selfmut
//@@ ret Result<TupleStructSerializer<'_>, Error>
//@@ entry
    proof { lemma_names_distinct(); }
//@@ spec
    ensures r is Ok, *final(self) == *final(r->Ok_0.se), r->Ok_0.cumulated_size == 0, r->Ok_0.descriptor_size == 0,
        r->Ok_0.se.non_native_type == old(self).non_native_type, r->Ok_0.se.seq_type == old(self).seq_type, r->Ok_0.se.is_array_element == old(self).is_array_element,
        ({
            let e1 = r->Ok_0.se.struct_encoding@;
            let e0 = old(self).struct_encoding@;
            &&& name@ == DESCRIBED_BASIC@ ==> e1 == e0.push(StructEncoding::DescribedBasic) && r->Ok_0.field_role is Descriptor       // [C20.size.composite-encoding-by-name]
            &&& name@ == DESCRIBED_LIST@ ==> e1 == e0.push(StructEncoding::DescribedList) && r->Ok_0.field_role is Descriptor
            &&& name@ != DESCRIBED_LIST@ && name@ != DESCRIBED_BASIC@ ==> e1 == e0 && r->Ok_0.field_role is Fields
        }),
//@@ end
//@@ fn file=serde_amqp/src/size_ser.rs impl=`impl<'a> ser::Serializer for &'a mut SizeSerializer` name=serialize_seq
//@@ selfmut
//@@ ret Result<SeqSerializer<'_>, Error>
//@@ spec
    ensures r is Ok, *r->Ok_0.se == *old(self), *final(self) == *final(r->Ok_0.se), r->Ok_0.cumulated_size == 0, r->Ok_0.idx == 0,       // [C20.size.compound-starts-empty] a sequence / tuple / variant starts with nothing sized yet, over THIS serializer (whose position and markers the header is sized under)
//@@ end

//@@ fn file=serde_amqp/src/size_ser.rs impl=`impl<'a> ser::Serializer for &'a mut SizeSerializer` name=serialize_tuple
//@@ selfmut
//@@ ret Result<TupleSerializer<'_>, Error>
//@@ spec
    ensures r is Ok, *r->Ok_0.se == *old(self), *final(self) == *final(r->Ok_0.se), r->Ok_0.cumulated_size == 0,       // [C20.size.compound-starts-empty]
//@@ end

//@@ fn file=serde_amqp/src/size_ser.rs impl=`impl<'a> ser::Serializer for &'a mut SizeSerializer` name=serialize_tuple_variant
//@@ selfmut
//@@ ret Result<VariantSerializer<'_>, Error>
//@@ spec
    ensures r is Ok, *r->Ok_0.se == *old(self), *final(self) == *final(r->Ok_0.se), r->Ok_0.cumulated_size == 0, r->Ok_0.variant_index == variant_index,       // [C20.size.compound-starts-empty] ... and under the index of THIS variant
//@@ end

//@@ fn file=serde_amqp/src/size_ser.rs impl=`impl<'a> ser::Serializer for &'a mut SizeSerializer` name=serialize_struct_variant
//@@ selfmut
//@@ ret Result<VariantSerializer<'_>, Error>
//@@ spec
    ensures r is Ok, *r->Ok_0.se == *old(self), *final(self) == *final(r->Ok_0.se), r->Ok_0.cumulated_size == 0, r->Ok_0.variant_index == variant_index,       // [C20.size.compound-starts-empty]
//@@ end

//@@ fn file=serde_amqp/src/size_ser.rs impl=`impl<'a> ser::Serializer for &'a mut SizeSerializer` name=serialize_some
//@@ selfmut
//@@ generics
//@@ nowhere
//@@ param value : &ValS
//@@ ret Result<usize, Error>
//@@ spec
    ensures r is Ok ==> r->Ok_0 == sz(*value, mode_of(*old(self))),       // [C20.size.some-is-the-value] a present optional value has the size of the value itself, under the mode it is written under (ser.rs serialize_some: unit SERENTRY)
//@@ end
}
//@@ type file=serde_amqp/src/size_ser.rs kind=struct name=VariantSerializer
//@@ end
impl<'a> TupleSerializer<'a> {
//@@ fn file=serde_amqp/src/size_ser.rs impl=`impl<'a> TupleSerializer<'a>` name=new id=TupleSerializer::new
//@@ spec
    ensures *r.se == *old(se), *final(se) == *final(r.se), r.cumulated_size == 0,
//@@ end
}
impl<'a> VariantSerializer<'a> {
//@@ fn file=serde_amqp/src/size_ser.rs impl=`impl<'a> VariantSerializer<'a>` name=new id=VariantSerializer::new
//@@ spec
    ensures *r.se == *old(se), *final(se) == *final(r.se), r.cumulated_size == 0, r.variant_index == variant_index,
//@@ end

//@@ fn file=serde_amqp/src/size_ser.rs impl=`impl ser::SerializeTupleVariant for VariantSerializer<'_>` name=serialize_field id=VariantSerializer::serialize_field
//@@ qmark
//@@ generics
//@@ nowhere
//@@ param value : &ValS
//@@ spec
    requires old(self).cumulated_size < 0x7fff_ffff_0000_0000,
    ensures *final(self).se == *old(self).se, *final(final(self).se) == *final(old(self).se), final(self).variant_index == old(self).variant_index,
        r is Ok ==> final(self).cumulated_size == old(self).cumulated_size + sz(*value, plain_mode()),       // [C20.size.variant-fields-sized-as-written] each field of a tuple / struct variant is sized with its own constructor, once -- as ser.rs buffers it (unit SERENTRY, clause enum.variant-fields-in-order)
//@@ end

//@@ fn file=serde_amqp/src/size_ser.rs impl=`impl ser::SerializeTupleVariant for VariantSerializer<'_>` name=end id=VariantSerializer::end
//@@ qmark
//@@ subst `ser::Serialize::serialize(&self.variant_index, &mut serializer)?` => `u32_as_val(&self.variant_index).serialize(&mut serializer)?` rule=R28
//@@ subst `.map_err(|_v0| Error::too_long())` => `.map_err(|_v0: usize| -> (o: Error) { Error::too_long() })` rule=R5
//@@ subst `.map_err(|_v1| Error::too_long())` => `.map_err(|_v1: usize| -> (o: Error) { Error::too_long() })` rule=R5
//@@ spec
    ensures
        r is Ok && old(self.se).is_array_element is False ==> ({
            let l = list_sz(self.cumulated_size as int, IsArrayElement::False);
            l is Some && map_sz(u32_sz(self.variant_index, IsArrayElement::False) + l->Some_0, IsArrayElement::False) == Some(r->Ok_0 as int)
        }),       // [C20.size.tuple-variant-as-written] the size of a tuple / struct variant is the size of what ser.rs writes for it (unit SERENTRY, clause enum.tuple-variant-is-index-and-field-list): a map header around the index and a list header around the summed field sizes
//@@ end
}
impl SizeSerializer {
}

//@@ fn file=serde_amqp/src/size_ser.rs name=serialized_size id=serialized_size
//@@ generics
//@@ nowhere
//@@ param value : &ValS
//@@ spec
    ensures r is Ok ==> r->Ok_0 == sz(*value, plain_mode()),       // [C20.size.entry-starts-unmarked] serialized_size hands the value a size serializer with no marker pending, no struct encoding and outside any array -- the state to_vec's fresh byte serializer starts in (unit SERENTRY, clause ser.fresh-serializer-is-plain) -- and returns what it answers
//@@ end

} // verus!
fn main() {}
