//@@ unit TXNDELEG
#![feature(allocator_api)]
#![allow(unused_imports, unused_variables, dead_code, unused_mut, unused_parens)]
use vstd::prelude::*;

verus! {

//@@ trusted the wrapped endpoint (S: endpoint::Session -- session::Session on a client, ListenerSession on a listener; units SESSION, ACCSESS) is an opaque value here; each of its operations is an UNINTERPRETED function step_<op>(state, arguments) -> (state', result): the contracts of this unit say that TxnSession performs exactly that operation, once, with the arguments it was given, hands back its result unchanged and touches nothing of its own
//@@ trusted async bodies with .await erased (R3); channel ends and sinks passed by reference are opaque values (what is written through a `&` end is part of the uninterpreted step; a `&mut` sink's new value is a component of the step's result)

macro_rules! opaque {
    ($($n:ident),*) => { verus!{ $(
        #[verifier::external_body]
        pub struct $n { _p: u8 }
    )* } }
}
opaque!(SessionS, SessionState, SessionStopReason, StopArc, ConnStopArc, OutgoingChannel, IncomingChannel, LinkRelayIn, OutputHandle, AllocLinkError, Begin, End, BeginError, EndError, Disposition, SessionInnerError, SessTx, AmqpError, Attach, LinkFlow, SessionFrame, SessionOutgoingItem, InputHandle, Transfer, Payload, Detach, SessCtl, TransactionManager, Fields, FlowRest);
//@@ gsubst `super::TXN_ID_KEY` => `TXN_ID_KEY` rule=R11
/// Flow: the field a transactional session may look at (`properties`, where a `txn-id` requests transactional acquisition), the rest is one opaque field (R11)
pub struct Flow { pub properties: Option<Fields>, pub rest: FlowRest }
pub const TXN_ID_KEY: &'static str = "txn-id";
impl Fields {
    pub uninterp spec fn has_key(&self, k: &str) -> bool;
    #[verifier::external_body]
    pub fn contains_key(&self, k: &str) -> (r: bool) ensures r == self.has_key(k) { unimplemented!() }
}

impl SessionS {
    pub uninterp spec fn get_local_state(self) -> SessionState;
    #[verifier::external_body]
    pub fn local_state(&self) -> (r: &SessionState) ensures *r == self.get_local_state() { unimplemented!() }
    pub uninterp spec fn step_set_session_stop_reason(self, reason: SessionStopReason) -> (SessionS, ());
    #[verifier::external_body]
    pub fn set_session_stop_reason(&mut self, reason: SessionStopReason) ensures (*final(self), ()) == old(self).step_set_session_stop_reason(reason) { unimplemented!() }
    pub uninterp spec fn step_abandon_pending_deliveries(self) -> (SessionS, ());
    #[verifier::external_body]
    pub fn abandon_pending_deliveries(&mut self) ensures (*final(self), ()) == old(self).step_abandon_pending_deliveries() { unimplemented!() }
    pub uninterp spec fn get_session_stop_reason(self) -> StopArc;
    #[verifier::external_body]
    pub fn session_stop_reason(&self) -> (r: &StopArc) ensures *r == self.get_session_stop_reason() { unimplemented!() }
    pub uninterp spec fn get_connection_stop_reason(self) -> ConnStopArc;
    #[verifier::external_body]
    pub fn connection_stop_reason(&self) -> (r: &ConnStopArc) ensures *r == self.get_connection_stop_reason() { unimplemented!() }
    pub uninterp spec fn get_outgoing_channel(self) -> OutgoingChannel;
    #[verifier::external_body]
    pub fn outgoing_channel(&self) -> (r: OutgoingChannel) ensures r == self.get_outgoing_channel() { unimplemented!() }
    pub uninterp spec fn step_allocate_link(self, link_name: String, link_relay: Option<LinkRelayIn>) -> (SessionS, Result<OutputHandle, AllocLinkError>);
    #[verifier::external_body]
    pub fn allocate_link(&mut self, link_name: String, link_relay: Option<LinkRelayIn>) -> (r: Result<OutputHandle, AllocLinkError>) ensures (*final(self), r) == old(self).step_allocate_link(link_name, link_relay) { unimplemented!() }
    pub uninterp spec fn step_deallocate_link(self, output_handle: OutputHandle) -> (SessionS, ());
    #[verifier::external_body]
    pub fn deallocate_link(&mut self, output_handle: OutputHandle) ensures (*final(self), ()) == old(self).step_deallocate_link(output_handle) { unimplemented!() }
    pub uninterp spec fn step_on_incoming_begin(self, channel: IncomingChannel, begin: Begin) -> (SessionS, Result<(), BeginError>);
    #[verifier::external_body]
    pub fn on_incoming_begin(&mut self, channel: IncomingChannel, begin: Begin) -> (r: Result<(), BeginError>) ensures (*final(self), r) == old(self).step_on_incoming_begin(channel, begin) { unimplemented!() }
    pub uninterp spec fn step_on_incoming_end(self, channel: IncomingChannel, end: End) -> (SessionS, Result<(), EndError>);
    #[verifier::external_body]
    pub fn on_incoming_end(&mut self, channel: IncomingChannel, end: End) -> (r: Result<(), EndError>) ensures (*final(self), r) == old(self).step_on_incoming_end(channel, end) { unimplemented!() }
    pub uninterp spec fn step_send_begin(self, writer: SessTx) -> (SessionS, Result<(), BeginError>);
    #[verifier::external_body]
    pub fn send_begin(&mut self, writer: &SessTx) -> (r: Result<(), BeginError>) ensures (*final(self), r) == old(self).step_send_begin(*writer) { unimplemented!() }
    pub uninterp spec fn step_send_end(self, writer: SessTx, error: Option<AmqpError>) -> (SessionS, Result<(), EndError>);
    #[verifier::external_body]
    pub fn send_end(&mut self, writer: &SessTx, error: Option<AmqpError>) -> (r: Result<(), EndError>) ensures (*final(self), r) == old(self).step_send_end(*writer, error) { unimplemented!() }
    pub uninterp spec fn step_on_outgoing_attach(self, attach: Attach) -> (SessionS, Result<SessionFrame, SessionInnerError>);
    #[verifier::external_body]
    pub fn on_outgoing_attach(&mut self, attach: Attach) -> (r: Result<SessionFrame, SessionInnerError>) ensures (*final(self), r) == old(self).step_on_outgoing_attach(attach) { unimplemented!() }
    pub uninterp spec fn step_on_outgoing_flow(self, flow: LinkFlow) -> (SessionS, Result<SessionFrame, SessionInnerError>);
    #[verifier::external_body]
    pub fn on_outgoing_flow(&mut self, flow: LinkFlow) -> (r: Result<SessionFrame, SessionInnerError>) ensures (*final(self), r) == old(self).step_on_outgoing_flow(flow) { unimplemented!() }
    pub uninterp spec fn step_maybe_outgoing_session_flow(self) -> (SessionS, Option<SessionOutgoingItem>);
    #[verifier::external_body]
    pub fn maybe_outgoing_session_flow(&mut self) -> (r: Option<SessionOutgoingItem>) ensures (*final(self), r) == old(self).step_maybe_outgoing_session_flow() { unimplemented!() }
    pub uninterp spec fn step_on_outgoing_transfer(self, input_handle: InputHandle, transfer: Transfer, payload: Payload) -> (SessionS, Result<Option<SessionOutgoingItem>, SessionInnerError>);
    #[verifier::external_body]
    pub fn on_outgoing_transfer(&mut self, input_handle: InputHandle, transfer: Transfer, payload: Payload) -> (r: Result<Option<SessionOutgoingItem>, SessionInnerError>) ensures (*final(self), r) == old(self).step_on_outgoing_transfer(input_handle, transfer, payload) { unimplemented!() }
    pub uninterp spec fn step_on_outgoing_disposition(self, disposition: Disposition) -> (SessionS, Result<SessionFrame, SessionInnerError>);
    #[verifier::external_body]
    pub fn on_outgoing_disposition(&mut self, disposition: Disposition) -> (r: Result<SessionFrame, SessionInnerError>) ensures (*final(self), r) == old(self).step_on_outgoing_disposition(disposition) { unimplemented!() }
    pub uninterp spec fn step_on_outgoing_detach(self, detach: Detach) -> (SessionS, SessionFrame);
    #[verifier::external_body]
    pub fn on_outgoing_detach(&mut self, detach: Detach) -> (r: SessionFrame) ensures (*final(self), r) == old(self).step_on_outgoing_detach(detach) { unimplemented!() }
    pub uninterp spec fn step_allocate_incoming_link(self, link_name: String, link_relay: LinkRelayIn, input_handle: InputHandle) -> (SessionS, Result<OutputHandle, AllocLinkError>);
    #[verifier::external_body]
    pub fn allocate_incoming_link(&mut self, link_name: String, link_relay: LinkRelayIn, input_handle: InputHandle) -> (r: Result<OutputHandle, AllocLinkError>) ensures (*final(self), r) == old(self).step_allocate_incoming_link(link_name, link_relay, input_handle) { unimplemented!() }
    pub uninterp spec fn step_on_incoming_flow(self, flow: Flow) -> (SessionS, Result<Option<SessionOutgoingItem>, SessionInnerError>);
    #[verifier::external_body]
    pub fn on_incoming_flow(&mut self, flow: Flow) -> (r: Result<Option<SessionOutgoingItem>, SessionInnerError>) ensures (*final(self), r) == old(self).step_on_incoming_flow(flow) { unimplemented!() }
    pub uninterp spec fn step_on_incoming_detach(self, detach: Detach) -> (SessionS, Result<(), SessionInnerError>);
    #[verifier::external_body]
    pub fn on_incoming_detach(&mut self, detach: Detach) -> (r: Result<(), SessionInnerError>) ensures (*final(self), r) == old(self).step_on_incoming_detach(detach) { unimplemented!() }
}
pub struct TxnSession { pub session: SessionS, pub control: SessCtl, pub txn_manager: TransactionManager }

impl TxnSession {
//@@ fn file=fe2o3-amqp/src/transaction/session.rs impl=`~impl<S>endpoint::SessionforTxnSession<S>where` name=local_state
//@@ ret &SessionState
//@@ spec
    ensures *r == self.session.get_local_state(),     // [C13.txn-session.state-is-the-sessions] the state the wrapper reports is the state of the session it wraps
//@@ end
//@@ fn file=fe2o3-amqp/src/transaction/session.rs impl=`~impl<S>endpoint::SessionforTxnSession<S>where` name=set_session_stop_reason
//@@ param reason : SessionStopReason
//@@ spec
    ensures
        (final(self).session, ()) == old(self).session.step_set_session_stop_reason(reason),     // [C14.txn-session.stop-reason-published-in-the-sessions-cell] the stop reason is recorded in the cell of the wrapped session -- the one its handles and links read
        final(self).control == old(self).control && final(self).txn_manager == old(self).txn_manager,
//@@ end
//@@ fn file=fe2o3-amqp/src/transaction/session.rs impl=`~impl<S>endpoint::SessionforTxnSession<S>where` name=abandon_pending_deliveries
//@@ spec
    ensures
        (final(self).session, ()) == old(self).session.step_abandon_pending_deliveries(),     // [C14.txn-session.waiters-released-by-the-session] when the engine stops, the sends still waiting on links of the wrapped session are released by it (unit SESSION [C14.session-stop.every-sending-relay-reached])
        final(self).control == old(self).control && final(self).txn_manager == old(self).txn_manager,
//@@ end
//@@ fn file=fe2o3-amqp/src/transaction/session.rs impl=`~impl<S>endpoint::SessionforTxnSession<S>where` name=session_stop_reason
//@@ ret &StopArc
//@@ spec
    ensures *r == self.session.get_session_stop_reason(),     // [C14.txn-session.stop-reason-cell-is-the-sessions]
//@@ end
//@@ fn file=fe2o3-amqp/src/transaction/session.rs impl=`~impl<S>endpoint::SessionforTxnSession<S>where` name=connection_stop_reason
//@@ ret &ConnStopArc
//@@ spec
    ensures *r == self.session.get_connection_stop_reason(),     // [C14.txn-session.connection-stop-cell-is-the-sessions]
//@@ end
//@@ fn file=fe2o3-amqp/src/transaction/session.rs impl=`~impl<S>endpoint::SessionforTxnSession<S>where` name=outgoing_channel
//@@ ret OutgoingChannel
//@@ spec
    ensures r == self.session.get_outgoing_channel(),     // [C11.txn-session.channel-is-the-sessions]
//@@ end
//@@ fn file=fe2o3-amqp/src/transaction/session.rs impl=`~impl<S>endpoint::SessionforTxnSession<S>where` name=allocate_link
//@@ param link_name : String
//@@ param link_relay : Option<LinkRelayIn>
//@@ ret Result<OutputHandle, AllocLinkError>
//@@ spec
    ensures
        (final(self).session, r) == old(self).session.step_allocate_link(link_name, link_relay),     // [C11.txn-session.local-link-allocated-by-the-session] a link this side initiates gets its handle from the wrapped session's table (fresh, within handle-max: unit SESSION)
        final(self).control == old(self).control && final(self).txn_manager == old(self).txn_manager,
//@@ end
//@@ fn file=fe2o3-amqp/src/transaction/session.rs impl=`~impl<S>endpoint::SessionforTxnSession<S>where` name=deallocate_link
//@@ param output_handle : OutputHandle
//@@ spec
    ensures
        (final(self).session, ()) == old(self).session.step_deallocate_link(output_handle),     // [C11.txn-session.handle-released-by-the-session] [C13.txn-session.link-released-by-the-session]
        final(self).control == old(self).control && final(self).txn_manager == old(self).txn_manager,
//@@ end
//@@ fn file=fe2o3-amqp/src/transaction/session.rs impl=`~impl<S>endpoint::SessionforTxnSession<S>where` name=on_incoming_begin
//@@ param channel : IncomingChannel
//@@ param begin : Begin
//@@ ret Result<(), BeginError>
//@@ spec
    ensures
        (final(self).session, r) == old(self).session.step_on_incoming_begin(channel, begin),     // [C13.txn-session.begin-handled-by-the-session] [C07.txn-session.windows-initialised-by-the-session] the peer's begin (its windows, its next-outgoing-id) is taken over by the wrapped session, unchanged
        final(self).control == old(self).control && final(self).txn_manager == old(self).txn_manager,
//@@ end
//@@ fn file=fe2o3-amqp/src/transaction/session.rs impl=`~impl<S>endpoint::SessionforTxnSession<S>where` name=on_incoming_end
//@@ param channel : IncomingChannel
//@@ param end : End
//@@ ret Result<(), EndError>
//@@ spec
    ensures
        (final(self).session, r) == old(self).session.step_on_incoming_end(channel, end),     // [C13.txn-session.end-handled-by-the-session] [C14.txn-session.peer-end-error-reported]
        final(self).control == old(self).control && final(self).txn_manager == old(self).txn_manager,
//@@ end
//@@ fn file=fe2o3-amqp/src/transaction/session.rs impl=`~impl<S>endpoint::SessionforTxnSession<S>where` name=send_begin
//@@ param writer : &SessTx
//@@ ret Result<(), BeginError>
//@@ spec
    ensures
        (final(self).session, r) == old(self).session.step_send_begin(*writer),     // [C13.txn-session.begin-sent-by-the-session]
        final(self).control == old(self).control && final(self).txn_manager == old(self).txn_manager,
//@@ end
//@@ fn file=fe2o3-amqp/src/transaction/session.rs impl=`~impl<S>endpoint::SessionforTxnSession<S>where` name=send_end
//@@ param writer : &SessTx
//@@ param error : Option<AmqpError>
//@@ ret Result<(), EndError>
//@@ spec
    ensures
        (final(self).session, r) == old(self).session.step_send_end(*writer, error),     // [C13.txn-session.end-sent-by-the-session]
        final(self).control == old(self).control && final(self).txn_manager == old(self).txn_manager,
//@@ end
//@@ fn file=fe2o3-amqp/src/transaction/session.rs impl=`~impl<S>endpoint::SessionforTxnSession<S>where` name=on_outgoing_attach
//@@ param attach : Attach
//@@ ret Result<SessionFrame, SessionInnerError>
//@@ spec
    ensures
        (final(self).session, r) == old(self).session.step_on_outgoing_attach(attach),     // [C11.txn-session.attach-framed-by-the-session]
        final(self).control == old(self).control && final(self).txn_manager == old(self).txn_manager,
//@@ end
//@@ fn file=fe2o3-amqp/src/transaction/session.rs impl=`~impl<S>endpoint::SessionforTxnSession<S>where` name=on_outgoing_flow
//@@ param flow : LinkFlow
//@@ ret Result<SessionFrame, SessionInnerError>
//@@ spec
    ensures
        (final(self).session, r) == old(self).session.step_on_outgoing_flow(flow),     // [C07.txn-session.flow-reports-the-sessions-state] [C09.txn-session.link-flow-framed-by-the-session] a flow a link of this session sends carries the wrapped session's current window state
        final(self).control == old(self).control && final(self).txn_manager == old(self).txn_manager,
//@@ end
//@@ fn file=fe2o3-amqp/src/transaction/session.rs impl=`~impl<S>endpoint::SessionforTxnSession<S>where` name=maybe_outgoing_session_flow
//@@ ret Option<SessionOutgoingItem>
//@@ spec
    ensures
        (final(self).session, r) == old(self).session.step_maybe_outgoing_session_flow(),     // [C07.txn-session.window-top-up-by-the-session]
        final(self).control == old(self).control && final(self).txn_manager == old(self).txn_manager,
//@@ end
//@@ fn file=fe2o3-amqp/src/transaction/session.rs impl=`~impl<S>endpoint::SessionforTxnSession<S>where` name=on_outgoing_transfer
//@@ param input_handle : InputHandle
//@@ param transfer : Transfer
//@@ param payload : Payload
//@@ ret Result<Option<SessionOutgoingItem>, SessionInnerError>
//@@ spec
    ensures
        (final(self).session, r) == old(self).session.step_on_outgoing_transfer(input_handle, transfer, payload),     // [C07.txn-session.outgoing-transfer-accounted-by-the-session] [C01.txn-session.outgoing-transfer-unchanged] every transfer a sender of this session emits goes through the wrapped session's window accounting (numbered, counted, parked when the peer's window is closed) exactly once, unchanged
        final(self).control == old(self).control && final(self).txn_manager == old(self).txn_manager,
//@@ end
//@@ fn file=fe2o3-amqp/src/transaction/session.rs impl=`~impl<S>endpoint::SessionforTxnSession<S>where` name=on_outgoing_disposition
//@@ param disposition : Disposition
//@@ ret Result<SessionFrame, SessionInnerError>
//@@ spec
    ensures
        (final(self).session, r) == old(self).session.step_on_outgoing_disposition(disposition),     // [C02.txn-session.outgoing-disposition-unchanged]
        final(self).control == old(self).control && final(self).txn_manager == old(self).txn_manager,
//@@ end
//@@ fn file=fe2o3-amqp/src/transaction/session.rs impl=`~impl<S>endpoint::SessionforTxnSession<S>where` name=on_outgoing_detach
//@@ param detach : Detach
//@@ ret SessionFrame
//@@ spec
    ensures
        (final(self).session, r) == old(self).session.step_on_outgoing_detach(detach),     // [C13.txn-session.detach-handled-by-the-session] [C11.txn-session.handle-released-by-the-session]
        final(self).control == old(self).control && final(self).txn_manager == old(self).txn_manager,
//@@ end
//@@ fn file=fe2o3-amqp/src/transaction/session.rs impl=`~impl<S>endpoint::SessionforTxnSession<S>where` name=allocate_incoming_link
//@@ param link_name : String
//@@ param link_relay : LinkRelayIn
//@@ param input_handle : InputHandle
//@@ ret Result<OutputHandle, AllocLinkError>
//@@ spec
    ensures
        (final(self).session, r) == old(self).session.step_allocate_incoming_link(link_name, link_relay, input_handle),     // [C11.txn-session.incoming-link-allocated-by-the-session]
        final(self).control == old(self).control && final(self).txn_manager == old(self).txn_manager,
//@@ end
//@@ fn file=fe2o3-amqp/src/transaction/session.rs impl=`~impl<S>endpoint::SessionforTxnSession<S>where` name=on_incoming_flow
//@@ param flow : Flow
//@@ ret Result<Option<SessionOutgoingItem>, SessionInnerError>
//@@ spec
    ensures
        (final(self).session, r) == old(self).session.step_on_incoming_flow(flow),     // [C07.txn-session.flow-handled-by-the-session] [C08.txn-session.flow-handled-by-the-session] a flow (session window and link credit) is applied by the wrapped session, unchanged, and its answer handed on
        final(self).control == old(self).control && final(self).txn_manager == old(self).txn_manager,
//@@ end
//@@ fn file=fe2o3-amqp/src/transaction/session.rs impl=`~impl<S>endpoint::SessionforTxnSession<S>where` name=on_incoming_detach
//@@ param detach : Detach
//@@ ret Result<(), SessionInnerError>
//@@ spec
    ensures
        (final(self).session, r) == old(self).session.step_on_incoming_detach(detach),     // [C13.txn-session.peer-detach-handled-by-the-session]
        final(self).control == old(self).control && final(self).txn_manager == old(self).txn_manager,
//@@ end
}

} // verus!
fn main() {}
