//@@ unit ATTACHBUILD
#![feature(allocator_api)]
#![allow(unused_imports, unused_variables, dead_code, unused_mut, unused_parens)]
use vstd::prelude::*;

verus! {

global size_of usize == 8;
/// std: the quotient rounded towards positive infinity (panics on a zero divisor) -- present so that a change using it is decided
pub assume_specification[ usize::div_ceil ](lhs: usize, rhs: usize) -> (r: usize)
    requires rhs != 0,
    ensures r as int == (lhs as int + rhs as int - 1) / (rhs as int);

//@@ trusted link/mod.rs: how the attach of a resuming link is cut down until it fits a frame. `Link::as_attach_inner` is extracted: every field of the attach against `attach_spec` (the link's own name, the handle given, role, settle modes, terminus, capabilities and the flow state's initial delivery-count and properties); `Box` erased (R8), the `Into` conversions of handle / target / capabilities are named stand-ins (R16)
//@@ trusted the iterator chains `map.iter().map(|(k, v)| (k.clone(), v.as_delivery_state().clone())).collect()` and `(0..len).zip(map.iter()).map(..).collect()` are stand-ins: the first `min(len, |map|)` entries of the map in its own order, each tag with its delivery state (std: zip stops with the shorter side; indexmap iterates in insertion order)
//@@ trusted the serialization of the attach into the scratch buffer is a stand-in that appends asz(link, k, incomplete) octets: an uninterpreted size that depends on the link and on how many unsettled entries the attach carries. ASSUMED (precondition of as_maybe_incomplete_attach): the attach WITHOUT unsettled entries fits the frame size given
//@@ trusted machine integers: usize is 64 bits; an unsettled map holds fewer than 2^62 entries

macro_rules! opaque {
    ($($n:ident),*) => { verus!{ $(
        #[verifier::external_body]
        pub struct $n { _p: u8 }
    )* } }
}
opaque!(DeliveryTag, DeliveryStateS, MsgS, OutputHandle, SerErr, StringS, Handle, Role, SndMode, RcvMode, SourceS, TargetS, TargetArchetypeS, CapsS, CapsOut, Fields);
impl Clone for OutputHandle { #[verifier::external_body] fn clone(&self) -> (r: Self) ensures r == *self { unimplemented!() } }
pub enum SendAttachErrorKind { IllegalState, Other }
pub trait ErrInto<T>: Sized { spec fn conv(self) -> T; fn err_into(self) -> (r: T) ensures r == self.conv(); }
impl ErrInto<SendAttachErrorKind> for SendAttachErrorKind { open spec fn conv(self) -> SendAttachErrorKind { self } fn err_into(self) -> (r: SendAttachErrorKind) { let e = self; assert(e == <SendAttachErrorKind as ErrInto<SendAttachErrorKind>>::conv(self)); e } }
/// the delivery state an unsettled message is listed with (`AsDeliveryState::as_delivery_state`)
pub uninterp spec fn state_of(m: MsgS) -> Option<DeliveryStateS>;
/// the link's unsettled map: entries in insertion order
#[verifier::external_body]
pub struct UnsettledMap { _p: u8 }
impl UnsettledMap {
    pub uninterp spec fn view(&self) -> Seq<(DeliveryTag, MsgS)>;
    #[verifier::external_body]
    pub fn len(&self) -> (r: usize) ensures r == self@.len(), self@.len() < 0x4000_0000_0000_0000 { unimplemented!() }
}
/// the map an attach lists
pub struct OutMap { pub entries: Ghost<Seq<(DeliveryTag, Option<DeliveryStateS>)>> }
pub open spec fn listed(m: Seq<(DeliveryTag, MsgS)>, k: int) -> Seq<(DeliveryTag, Option<DeliveryStateS>)> {
    Seq::new((if k < m.len() { k } else { m.len() as int }) as nat, |i: int| (m[i].0, state_of(m[i].1)))
}
/// `(0..len).zip(map.iter()).map(|(_, (key, val))| (key.clone(), val.as_delivery_state().clone())).collect()`; with len = |map| the chain without the zip
#[verifier::external_body]
pub fn collect_first(map: &UnsettledMap, len: usize) -> (r: OutMap) ensures r.entries@ == listed(map@, len as int) { unimplemented!() }

macro_rules! cloneable { ($($n:ident),*) => { verus!{ $( impl Clone for $n { #[verifier::external_body] fn clone(&self) -> (r: Self) ensures r == *self { unimplemented!() } } )* } } }
cloneable!(StringS, SndMode, RcvMode, SourceS, TargetS, CapsS);
pub uninterp spec fn handle_of(h: OutputHandle) -> Handle;
#[verifier::external_body]
pub fn handle_into(h: OutputHandle) -> (r: Handle) ensures r == handle_of(h) { unimplemented!() }
pub uninterp spec fn archetype_of(t: TargetS) -> TargetArchetypeS;
#[verifier::external_body]
pub fn target_into(t: TargetS) -> (r: TargetArchetypeS) ensures r == archetype_of(t) { unimplemented!() }
pub uninterp spec fn caps_of(c: CapsS) -> CapsOut;
#[verifier::external_body]
pub fn caps_into(c: CapsS) -> (r: CapsOut) ensures r == caps_of(c) { unimplemented!() }
/// the link's flow state: what the attach reads from it
pub struct FlowStateS { pub idc: Ghost<u32>, pub props: Ghost<Option<Fields>> }
impl FlowStateS {
    #[verifier::external_body]
    pub fn initial_delivery_count(&self) -> (r: u32) ensures r == self.idc@ { unimplemented!() }
    #[verifier::external_body]
    pub fn properties(&self) -> (r: Option<Fields>) ensures r == self.props@ { unimplemented!() }
}
/// the attach performative (fe2o3-amqp-types performatives/attach.rs: field order is unit WIRELAYOUT's), Box erased (R8)
pub struct Attach {
    pub name: StringS, pub handle: Handle, pub role: Role, pub snd_settle_mode: SndMode, pub rcv_settle_mode: RcvMode, pub source: Option<SourceS>, pub target: Option<TargetArchetypeS>,
    pub unsettled: Option<OutMap>, pub incomplete_unsettled: bool, pub initial_delivery_count: Option<u32>, pub max_message_size: Option<u64>,
    pub offered_capabilities: Option<CapsOut>, pub desired_capabilities: Option<CapsOut>, pub properties: Option<Fields>,
}
pub type AttachS = Attach;
/// how many unsettled entries an attach lists
pub open spec fn k_of(a: Attach) -> int { match a.unsettled { Some(m) => m.entries@.len() as int, None => 0 } }
pub struct BytesMutS { pub n: Ghost<nat> }
impl BytesMutS {
    pub fn new() -> (r: Self) ensures r.n@ == 0 { BytesMutS { n: Ghost(0) } }
    #[verifier::external_body]
    pub fn len(&self) -> (r: usize) ensures r == self.n@ { unimplemented!() }
    pub fn clear(&mut self) ensures final(self).n@ == 0 { self.n = Ghost(0); }
}
pub struct Link { pub unsettled: Option<UnsettledMap>, pub name: StringS, pub snd_settle_mode: SndMode, pub rcv_settle_mode: RcvMode, pub source: Option<SourceS>, pub target: Option<TargetS>,
    pub max_message_size: u64, pub flow_state: FlowStateS, pub offered_capabilities: Option<CapsS>, pub desired_capabilities: Option<CapsS>, pub role: Role }
impl Link { #[verifier::external_body] pub fn role_s(&self) -> (r: Role) ensures r == self.role { unimplemented!() } }
/// THE attach of link `l` under handle `h` listing `u`: every field from the link's own configuration and state (AMQP 1.0 part 2, 2.7.3)
pub open spec fn attach_spec(l: Link, h: OutputHandle, u: Option<OutMap>, incomplete: bool) -> Attach {
    Attach {
        name: l.name, handle: handle_of(h), role: l.role, snd_settle_mode: l.snd_settle_mode, rcv_settle_mode: l.rcv_settle_mode, source: l.source,
        target: match l.target { Some(t) => Some(archetype_of(t)), None => None },
        unsettled: u, incomplete_unsettled: incomplete,
        initial_delivery_count: Some(l.flow_state.idc@),
        max_message_size: if l.max_message_size == 0 { None } else { Some(l.max_message_size) },
        offered_capabilities: match l.offered_capabilities { Some(c) => Some(caps_of(c)), None => None },
        desired_capabilities: match l.desired_capabilities { Some(c) => Some(caps_of(c)), None => None },
        properties: l.flow_state.props@,
    }
}
/// what get_unsettled_map returns, as a function of the link
pub open spec fn unsettled_spec(l: Link, is_reattaching: bool, partial: usize) -> Option<OutMap> {
    if kof(l, is_reattaching, partial) == 0 { None } else { Some(OutMap { entries: Ghost(listed(l.unsettled->Some_0@, kof(l, is_reattaching, partial))) }) }
}
/// the number of entries the link's attach lists when it is asked for "one in `partial`" of them
pub open spec fn kof(l: Link, is_reattaching: bool, partial: usize) -> int {
    if is_reattaching || l.unsettled is None { 0 } else if partial <= 1 { l.unsettled->Some_0@.len() as int } else { l.unsettled->Some_0@.len() as int / partial as int }
}
/// octets of the encoded attach (to_vec: units SERENTRY / WIRELAYOUT)
pub uninterp spec fn asz(a: Attach) -> nat;
/// `let mut serializer = Serializer::from((&mut buf).writer()); attach.serialize(&mut serializer)`
#[verifier::external_body]
pub fn serialize_attach(l: &Link, attach: &AttachS, buf: &mut BytesMutS) -> (r: Result<(), SerErr>)
    ensures r is Ok ==> final(buf).n@ == old(buf).n@ + asz(*attach),
{ unimplemented!() }

impl Link {
//@@ fn file=fe2o3-amqp/src/link/mod.rs impl=`~impl<R,T,F,M>Link<R,T,F,M>where` name=get_unsettled_map id=Link::get_unsettled_map
//@@ orsplit
//@@ blockarms
//@@ ret Option<OutMap>
//@@ subst `let guard = self.unsettled.read(); let map = guard.as_ref()?;` => `let map = match self.unsettled.as_ref() { Some(m) => m, None => return None };` rule=R4,R27
//@@ subst `map .iter() .map(|(key, val)| (key.clone(), val.as_delivery_state().clone())) .collect()` => `collect_first(map, map.len())` rule=R34
//@@ subst `(0..len) .zip(map.iter()) .map(|(_, (key, val))| (key.clone(), val.as_delivery_state().clone())) .collect()` => `collect_first(map, len)` rule=R34
//@@ entry
    proof {
        if self.unsettled is Some && partial_unsettled >= 2 {
            let t = self.unsettled->Some_0@.len() as int;
            let p = partial_unsettled as int;
            assert((t / p) * p <= t) by (nonlinear_arith) requires p >= 2, t >= 0;
        }
    }
//@@ spec
    ensures
        kof(*self, is_reattaching, partial_unsettled) > 0 ==> r == unsettled_spec(*self, is_reattaching, partial_unsettled),
        is_reattaching ==> r is None,       // [C13.reattach.unsettled-map-is-null] when a link is re-attached (as opposed to resumed) its attach lists no unsettled deliveries (AMQP 1.0 part 2, 2.6.3)
        r is Some ==> r->Some_0.entries@ == listed(self.unsettled->Some_0@, kof(*self, is_reattaching, partial_unsettled)),       // [C02.resume.unsettled-listed-with-their-states] a resuming attach lists the link's unsettled deliveries in their own order, each tag with the state the link holds for it -- all of them, or (incomplete-unsettled) the first 1/partial of them
        r is Some ==> r->Some_0.entries@.len() == kof(*self, is_reattaching, partial_unsettled),
        r is None ==> kof(*self, is_reattaching, partial_unsettled) == 0 || self.unsettled->Some_0@.len() == 0,
        partial_unsettled >= 2 && r is Some ==> r->Some_0.entries@.len() * partial_unsettled <= self.unsettled->Some_0@.len(),       // [C15.attach.partial-map-shrinks-to-nothing] asked for one in `partial`, the attach lists at most total / partial entries: once `partial` exceeds the number of unsettled deliveries it lists none -- what the sizing loop below needs in order to end, however large the states are that the peer made the link hold
//@@ end

//@@ fn file=fe2o3-amqp/src/link/mod.rs impl=`~impl<R,T,F,M>Link<R,T,F,M>where` name=as_attach_inner id=Link::as_attach_inner
//@@ ret Attach
//@@ subst `self.flow_state.as_ref()` => `self.flow_state` rule=R8
//@@ subst `handle.into()` => `handle_into(handle)` rule=R16
//@@ subst `R::into_role()` => `self.role_s()` rule=R7
//@@ subst `.map(Box::new)` => `` rule=optional-R8
//@@ subst `self.target.clone().map(Into::into)` => `self.target.clone().map(|t: TargetS| -> (o: TargetArchetypeS) ensures o == archetype_of(t) { target_into(t) })` rule=R8,R17
//@@ subst `self.offered_capabilities.clone().map(Into::into)` => `self.offered_capabilities.clone().map(|c: CapsS| -> (o: CapsOut) ensures o == caps_of(c) { caps_into(c) })` rule=R17
//@@ subst `self.desired_capabilities.clone().map(Into::into)` => `self.desired_capabilities.clone().map(|c: CapsS| -> (o: CapsOut) ensures o == caps_of(c) { caps_into(c) })` rule=R17
//@@ spec
    ensures
        ({
            let u = r.unsettled;
            &&& r == attach_spec(*self, handle, u, partial_unsettled > 1)       // [C13.attach.fields-from-the-links-own-state] [C11.attach.fields-from-the-links-own-state] [C08.attach.fields-from-the-links-own-state] [C02.attach.fields-from-the-links-own-state] the attach a link sends carries ITS name, the handle it was given, its role, the settle modes and terminus it was configured with, the initial delivery-count and properties its flow state holds NOW, max-message-size absent when unlimited -- and is marked incomplete-unsettled exactly when it was asked to list only part of the unsettled map
            &&& k_of(r) == kof(*self, is_reattaching, partial_unsettled)
            &&& kof(*self, is_reattaching, partial_unsettled) > 0 ==> u == unsettled_spec(*self, is_reattaching, partial_unsettled)       // [C02.resume.unsettled-listed-with-their-states]
            &&& kof(*self, is_reattaching, partial_unsettled) == 0 ==> (u is None || u->Some_0.entries@.len() == 0)
        }),
//@@ end

//@@ fn file=fe2o3-amqp/src/link/mod.rs impl=`~impl<R,T,F,M>Link<R,T,F,M>where` name=as_complete_attach id=Link::as_complete_attach
//@@ ret AttachS
//@@ spec
    ensures !r.incomplete_unsettled, k_of(r) == kof(*self, is_reattaching, 1), r == attach_spec(*self, handle, r.unsettled, false),       // [C02.resume.complete-attach-lists-everything] the attach that is not marked incomplete lists every unsettled delivery of the link
//@@ end

//@@ fn file=fe2o3-amqp/src/link/mod.rs impl=`~impl<R,T,F,M>Link<R,T,F,M>where` name=as_maybe_incomplete_attach id=Link::as_maybe_incomplete_attach
//@@ shape loops=while
//@@ qmark
//@@ ret Result<AttachS, SendAttachErrorKind>
//@@ subst `BytesMut::new()` => `BytesMutS::new()` rule=R11
//@@ subst `let mut serializer = Serializer::from((&mut buf).writer()); attach .serialize(&mut serializer) .map_err(|_v0| SendAttachErrorKind::IllegalState)?;` => `serialize_attach(self, &attach, &mut buf).map_err(|_v0: SerErr| -> (o: SendAttachErrorKind) { SendAttachErrorKind::IllegalState })?;` rule=optional-R9
//@@ subst `let mut serializer = Serializer::from((&mut buf).writer()); attach .serialize(&mut serializer) .map_err(|_v1| SendAttachErrorKind::IllegalState)?;` => `serialize_attach(self, &attach, &mut buf).map_err(|_v1: SerErr| -> (o: SendAttachErrorKind) { SendAttachErrorKind::IllegalState })?;` rule=optional-R9
//@@ loop 0
            invariant
                denominator >= 1, buf.n@ == asz(attach),
                k_of(attach) == kof(*self, is_reattaching, denominator), attach == attach_spec(*self, handle, attach.unsettled, denominator > 1),
                fits_when_empty(*self, handle, max_frame_size), total_of(*self) < 0x4000_0000_0000_0000,
            decreases (if kof(*self, is_reattaching, denominator) == 0 && denominator > 1 { 0int } else { 2 * total_of(*self) + 2 - denominator }),       // [C15.attach.sizing-terminates] the loop that halves the listed part of the unsettled map ends: every round lists fewer entries, and an attach that lists none fits
//@@ loopstart 0
            proof {
                // the body is entered only while the attach does not fit, i.e. while it still lists at least one entry (or nothing has been cut yet)
                if kof(*self, is_reattaching, denominator) == 0 { assert(asz(attach_spec(*self, handle, attach.unsettled, denominator > 1)) <= max_frame_size); }
                assert(kof(*self, is_reattaching, denominator) > 0);
                lemma_kof(*self, is_reattaching, denominator);
            }
//@@ spec
    requires
        fits_when_empty(*self, handle, max_frame_size),       // ASSUMED: the attach without unsettled entries fits the frame
        total_of(*self) < 0x4000_0000_0000_0000,       // ASSUMED: fewer than 2^62 unsettled deliveries
    ensures
        r is Ok ==> asz(r->Ok_0) <= max_frame_size,       // [C06.attach.resuming-attach-fits-the-frame] the attach that is sent fits the frame size it was cut down for
        r is Ok ==> exists|d: usize| d >= 1 && k_of(r->Ok_0) == kof(*self, is_reattaching, d) && r->Ok_0 == attach_spec(*self, handle, r->Ok_0.unsettled, d > 1),       // [C02.resume.incomplete-flag-iff-cut] it is marked incomplete-unsettled exactly when entries were left out
//@@ end
}
/// every attach of this link that lists no unsettled delivery fits
pub open spec fn fits_when_empty(l: Link, h: OutputHandle, max: usize) -> bool {
    forall|u: Option<OutMap>, inc: bool| (u is None || u->Some_0.entries@.len() == 0) ==> asz(#[trigger] attach_spec(l, h, u, inc)) <= max
}
pub open spec fn total_of(l: Link) -> int { if l.unsettled is None { 0 } else { l.unsettled->Some_0@.len() as int } }
/// while at least one entry is listed the divisor does not exceed the number of entries
pub proof fn lemma_kof(l: Link, re: bool, d: usize)
    requires d >= 1,
    ensures kof(l, re, d) > 0 ==> d <= total_of(l), kof(l, re, d) <= total_of(l),
{
    if !re && l.unsettled is Some && d > 1 {
        let t = l.unsettled->Some_0@.len() as int;
        assert(t / (d as int) > 0 ==> d as int <= t) by (nonlinear_arith) requires d as int >= 1, t >= 0;
        assert(t / (d as int) <= t) by (nonlinear_arith) requires d as int >= 1, t >= 0;
    }
}

} // verus!
fn main() {}
