//@@ unit ATTACHBUILD
#![feature(allocator_api)]
#![allow(unused_imports, unused_variables, dead_code, unused_mut, unused_parens)]
use vstd::prelude::*;

verus! {

global size_of usize == 8;
/// std: the quotient rounded towards positive infinity (panics on a zero divisor) -- present so that a change using it is decided
pub assume_specification[ usize::div_ceil ](lhs: usize, rhs: usize) -> (r: usize)
    requires rhs != 0,
    ensures r as int == (lhs as int + rhs as int - 1) / (rhs as int);

//@@ trusted link/mod.rs: how the attach of a resuming link is cut down until it fits a frame. `Link::as_attach_inner` (a struct literal of fourteen cloned fields) is a stand-in: the attach it builds carries the unsettled entries `get_unsettled_map(is_reattaching, partial_unsettled)` returns and is marked incomplete exactly when partial_unsettled > 1 -- restated from its body, not extracted
//@@ trusted the iterator chains `map.iter().map(|(k, v)| (k.clone(), v.as_delivery_state().clone())).collect()` and `(0..len).zip(map.iter()).map(..).collect()` are stand-ins: the first `min(len, |map|)` entries of the map in its own order, each tag with its delivery state (std: zip stops with the shorter side; indexmap iterates in insertion order)
//@@ trusted the serialization of the attach into the scratch buffer is a stand-in that appends asz(link, k, incomplete) octets: an uninterpreted size that depends on the link and on how many unsettled entries the attach carries. ASSUMED (precondition of as_maybe_incomplete_attach): the attach WITHOUT unsettled entries fits the frame size given
//@@ trusted machine integers: usize is 64 bits; an unsettled map holds fewer than 2^62 entries

macro_rules! opaque {
    ($($n:ident),*) => { verus!{ $(
        #[verifier::external_body]
        pub struct $n { _p: u8 }
    )* } }
}
opaque!(DeliveryTag, DeliveryStateS, MsgS, OutputHandle, SerErr);
impl Clone for OutputHandle { #[verifier::external_body] fn clone(&self) -> (r: Self) ensures r == *self { unimplemented!() } }
pub enum SendAttachErrorKind { IllegalState, Other }
pub trait ErrInto<T>: Sized { spec fn conv(self) -> T; fn err_into(self) -> (r: T) ensures r == self.conv(); }
impl ErrInto<SendAttachErrorKind> for SendAttachErrorKind { open spec fn conv(self) -> SendAttachErrorKind { self } fn err_into(self) -> (r: SendAttachErrorKind) { let e = self; assert(e == <SendAttachErrorKind as ErrInto<SendAttachErrorKind>>::conv(self)); e } }
/// the delivery state an unsettled message is listed with (`AsDeliveryState::as_delivery_state`)
pub uninterp spec fn state_of(m: MsgS) -> Option<DeliveryStateS>;
/// the link's unsettled map: entries in insertion order
#[verifier::external_body]
pub struct UnsettledMap { _p: u8 }
impl UnsettledMap {
    pub uninterp spec fn view(&self) -> Seq<(DeliveryTag, MsgS)>;
    #[verifier::external_body]
    pub fn len(&self) -> (r: usize) ensures r == self@.len(), self@.len() < 0x4000_0000_0000_0000 { unimplemented!() }
}
/// the map an attach lists
pub struct OutMap { pub entries: Ghost<Seq<(DeliveryTag, Option<DeliveryStateS>)>> }
pub open spec fn listed(m: Seq<(DeliveryTag, MsgS)>, k: int) -> Seq<(DeliveryTag, Option<DeliveryStateS>)> {
    Seq::new((if k < m.len() { k } else { m.len() as int }) as nat, |i: int| (m[i].0, state_of(m[i].1)))
}
/// `(0..len).zip(map.iter()).map(|(_, (key, val))| (key.clone(), val.as_delivery_state().clone())).collect()`; with len = |map| the chain without the zip
#[verifier::external_body]
pub fn collect_first(map: &UnsettledMap, len: usize) -> (r: OutMap) ensures r.entries@ == listed(map@, len as int) { unimplemented!() }

pub struct AttachS { pub k: Ghost<int>, pub incomplete: bool, pub of: Ghost<int> }
pub struct BytesMutS { pub n: Ghost<nat> }
impl BytesMutS {
    pub fn new() -> (r: Self) ensures r.n@ == 0 { BytesMutS { n: Ghost(0) } }
    #[verifier::external_body]
    pub fn len(&self) -> (r: usize) ensures r == self.n@ { unimplemented!() }
    pub fn clear(&mut self) ensures final(self).n@ == 0 { self.n = Ghost(0); }
}
pub struct Link { pub unsettled: Option<UnsettledMap>, pub id: Ghost<int> }
/// the number of entries the link's attach lists when it is asked for "one in `partial`" of them
pub open spec fn kof(l: Link, is_reattaching: bool, partial: usize) -> int {
    if is_reattaching || l.unsettled is None { 0 } else if partial <= 1 { l.unsettled->Some_0@.len() as int } else { l.unsettled->Some_0@.len() as int / partial as int }
}
/// octets of the encoded attach of link `l` listing its first k unsettled entries
pub uninterp spec fn asz(l: Link, k: int, incomplete: bool) -> nat;
/// `let mut serializer = Serializer::from((&mut buf).writer()); attach.serialize(&mut serializer)`
#[verifier::external_body]
pub fn serialize_attach(l: &Link, attach: &AttachS, buf: &mut BytesMutS) -> (r: Result<(), SerErr>)
    requires attach.of@ == l.id@,
    ensures r is Ok ==> final(buf).n@ == old(buf).n@ + asz(*l, attach.k@, attach.incomplete),
{ unimplemented!() }

impl Link {
//@@ fn file=fe2o3-amqp/src/link/mod.rs impl=`~impl<R,T,F,M>Link<R,T,F,M>where` name=get_unsettled_map id=Link::get_unsettled_map
//@@ orsplit
//@@ blockarms
//@@ ret Option<OutMap>
//@@ subst `let guard = self.unsettled.read(); let map = guard.as_ref()?;` => `let map = match self.unsettled.as_ref() { Some(m) => m, None => return None };` rule=R4,R27
//@@ subst `map .iter() .map(|(key, val)| (key.clone(), val.as_delivery_state().clone())) .collect()` => `collect_first(map, map.len())` rule=R34
//@@ subst `(0..len) .zip(map.iter()) .map(|(_, (key, val))| (key.clone(), val.as_delivery_state().clone())) .collect()` => `collect_first(map, len)` rule=R34
//@@ entry
    proof {
        if self.unsettled is Some && partial_unsettled >= 2 {
            let t = self.unsettled->Some_0@.len() as int;
            let p = partial_unsettled as int;
            assert((t / p) * p <= t) by (nonlinear_arith) requires p >= 2, t >= 0;
        }
    }
//@@ spec
    ensures
        is_reattaching ==> r is None,       // [C13.reattach.unsettled-map-is-null] when a link is re-attached (as opposed to resumed) its attach lists no unsettled deliveries (AMQP 1.0 part 2, 2.6.3)
        r is Some ==> r->Some_0.entries@ == listed(self.unsettled->Some_0@, kof(*self, is_reattaching, partial_unsettled)),       // [C02.resume.unsettled-listed-with-their-states] a resuming attach lists the link's unsettled deliveries in their own order, each tag with the state the link holds for it -- all of them, or (incomplete-unsettled) the first 1/partial of them
        r is Some ==> r->Some_0.entries@.len() == kof(*self, is_reattaching, partial_unsettled),
        r is None ==> kof(*self, is_reattaching, partial_unsettled) == 0 || self.unsettled->Some_0@.len() == 0,
        partial_unsettled >= 2 && r is Some ==> r->Some_0.entries@.len() * partial_unsettled <= self.unsettled->Some_0@.len(),       // [C15.attach.partial-map-shrinks-to-nothing] asked for one in `partial`, the attach lists at most total / partial entries: once `partial` exceeds the number of unsettled deliveries it lists none -- what the sizing loop below needs in order to end, however large the states are that the peer made the link hold
//@@ end

    /// the attach of this link with the unsettled entries get_unsettled_map(is_reattaching, partial_unsettled) returns (stand-in: see the unit's notes)
    #[verifier::external_body]
    pub fn as_attach_inner(&self, handle: OutputHandle, is_reattaching: bool, partial_unsettled: usize) -> (r: AttachS)
        ensures r.k@ == kof(*self, is_reattaching, partial_unsettled), r.incomplete == (partial_unsettled > 1), r.of@ == self.id@,
    { unimplemented!() }

//@@ fn file=fe2o3-amqp/src/link/mod.rs impl=`~impl<R,T,F,M>Link<R,T,F,M>where` name=as_complete_attach id=Link::as_complete_attach
//@@ ret AttachS
//@@ spec
    ensures !r.incomplete, r.k@ == kof(*self, is_reattaching, 1),       // [C02.resume.complete-attach-lists-everything] the attach that is not marked incomplete lists every unsettled delivery of the link
//@@ end

//@@ fn file=fe2o3-amqp/src/link/mod.rs impl=`~impl<R,T,F,M>Link<R,T,F,M>where` name=as_maybe_incomplete_attach id=Link::as_maybe_incomplete_attach
//@@ qmark
//@@ ret Result<AttachS, SendAttachErrorKind>
//@@ subst `BytesMut::new()` => `BytesMutS::new()` rule=R11
//@@ subst `let mut serializer = Serializer::from((&mut buf).writer()); attach .serialize(&mut serializer) .map_err(|_v0| SendAttachErrorKind::IllegalState)?;` => `serialize_attach(self, &attach, &mut buf).map_err(|_v0: SerErr| -> (o: SendAttachErrorKind) { SendAttachErrorKind::IllegalState })?;` rule=R9
//@@ subst `let mut serializer = Serializer::from((&mut buf).writer()); attach .serialize(&mut serializer) .map_err(|_v1| SendAttachErrorKind::IllegalState)?;` => `serialize_attach(self, &attach, &mut buf).map_err(|_v1: SerErr| -> (o: SendAttachErrorKind) { SendAttachErrorKind::IllegalState })?;` rule=R9
//@@ loop 0
            invariant
                denominator >= 1, buf.n@ == asz(*self, kof(*self, is_reattaching, denominator), denominator > 1),
                attach.k@ == kof(*self, is_reattaching, denominator), attach.incomplete == (denominator > 1), attach.of@ == self.id@,
                kof(*self, is_reattaching, denominator) > 0 || denominator == 1 || buf.n@ <= max_frame_size,
                forall|inc: bool| asz(*self, 0, inc) <= max_frame_size, total_of(*self) < 0x4000_0000_0000_0000,
            decreases (if kof(*self, is_reattaching, denominator) == 0 && denominator > 1 { 0int } else { 2 * total_of(*self) + 2 - denominator }),       // [C15.attach.sizing-terminates] the loop that halves the listed part of the unsettled map ends: every round lists fewer entries, and an attach that lists none fits
//@@ loopstart 0
            proof {
                // the body is entered only while the attach does not fit, i.e. while it still lists at least one entry (or nothing has been cut yet)
                if kof(*self, is_reattaching, denominator) == 0 { assert(asz(*self, 0, denominator > 1) <= max_frame_size); }
                assert(kof(*self, is_reattaching, denominator) > 0);
                lemma_kof(*self, is_reattaching, denominator);
            }
//@@ spec
    requires
        forall|inc: bool| asz(*self, 0, inc) <= max_frame_size,       // ASSUMED: the attach without unsettled entries fits the frame
        total_of(*self) < 0x4000_0000_0000_0000,       // ASSUMED: fewer than 2^62 unsettled deliveries
    ensures
        r is Ok ==> asz(*self, r->Ok_0.k@, r->Ok_0.incomplete) <= max_frame_size,       // [C06.attach.resuming-attach-fits-the-frame] the attach that is sent fits the frame size it was cut down for
        r is Ok ==> exists|d: usize| d >= 1 && r->Ok_0.k@ == kof(*self, is_reattaching, d) && r->Ok_0.incomplete == (d > 1),       // [C02.resume.incomplete-flag-iff-cut] it is marked incomplete-unsettled exactly when entries were left out
//@@ end
}
pub open spec fn total_of(l: Link) -> int { if l.unsettled is None { 0 } else { l.unsettled->Some_0@.len() as int } }
/// while at least one entry is listed the divisor does not exceed the number of entries
pub proof fn lemma_kof(l: Link, re: bool, d: usize)
    requires d >= 1,
    ensures kof(l, re, d) > 0 ==> d <= total_of(l), kof(l, re, d) <= total_of(l),
{
    if !re && l.unsettled is Some && d > 1 {
        let t = l.unsettled->Some_0@.len() as int;
        assert(t / (d as int) > 0 ==> d as int <= t) by (nonlinear_arith) requires d as int >= 1, t >= 0;
        assert(t / (d as int) <= t) by (nonlinear_arith) requires d as int >= 1, t >= 0;
    }
}

} // verus!
fn main() {}
