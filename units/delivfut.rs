//@@ unit DELIVFUT
#![feature(allocator_api)]
#![allow(unused_imports, unused_variables, dead_code, unused_mut, unused_parens)]
use vstd::prelude::*;

verus! {

//@@ trusted `Future::poll` is verified as an ordinary function of (&mut self, cx): Pin and pin_project are erased (R3: `self.project()` is `self`, the `#[pin]` field is reached through `&mut`); the completion channel of the send (tokio oneshot::Receiver<Option<DeliveryState>>, resolved by UnsettledMessage::settle / settle_with_state -- unit LINK) is a stand-in whose poll_unpin yields Pending, Ready(Ok(value)) with the value the channel was resolved with, or Ready(Err(closed)) when the resolving end was dropped; a Ready result is handed out at most once
//@@ trusted the generic output `O: FromPreSettled + FromDeliveryState + FromDeliveryFailure` is instantiated at SendResult = Result<Outcome, SendError> (R28), the only instantiation outside the transaction feature; the trait's associated functions are re-homed as free functions (R2)
//@@ trusted leaf stand-ins: the bodies of the delivery states / outcomes, DeliveryTag, definitions::Error, DetachError, RecvError, Context are opaque; Arc<OnceLock<SessionStopReason>> is a write-once cell read with get() (R8)

macro_rules! opaque {
    ($($n:ident),*) => { verus!{ $(
        #[verifier::external_body]
        pub struct $n { _p: u8 }
        impl Clone for $n { #[verifier::external_body] fn clone(&self) -> (r: Self) ensures r == *self { unimplemented!() } }
    )* } }
}
pub struct Accepted {}
impl Clone for Accepted { fn clone(&self) -> (r: Self) ensures r == *self { Accepted {} } }
opaque!(Rejected, Released, Modified, Declared, TransactionalState, Received, DeliveryTag, AmqpError, DetachError, RecvError, Context, SessionStopReason);
pub mod definitions { pub type Error = super::AmqpError; }

//@@ type file=fe2o3-amqp-types/src/messaging/delivery_state/mod.rs kind=enum name=DeliveryState
//@@ end
//@@ type file=fe2o3-amqp-types/src/messaging/delivery_state/mod.rs kind=enum name=Outcome
//@@ end
//@@ type file=fe2o3-amqp/src/link/error.rs kind=enum name=LinkStateError
//@@ end
//@@ type file=fe2o3-amqp/src/link/error.rs kind=enum name=SendError
//@@ end
pub type SendResult = Result<Outcome, SendError>;
pub fn link_state_error_into(e: LinkStateError) -> (r: SendError) ensures r == SendError::LinkStateError(e) { SendError::LinkStateError(e) }

pub enum Poll<T> { Ready(T), Pending }
/// tokio oneshot::Receiver<Option<DeliveryState>>
pub struct OutcomeRx { pub resolved: Ghost<Option<Option<DeliveryState>>>, pub closed: Ghost<bool>, pub taken: Ghost<bool> }
impl OutcomeRx {
    #[verifier::external_body]
    pub fn poll_unpin(&mut self, cx: &mut Context) -> (r: Poll<Result<Option<DeliveryState>, RecvError>>)
        requires !old(self).taken@,
        ensures final(self).resolved == old(self).resolved, final(self).closed == old(self).closed,
            (match r {
                Poll::Pending => !final(self).taken@,
                Poll::Ready(Ok(v)) => final(self).taken@ && old(self).resolved@ == Some(v),
                Poll::Ready(Err(_)) => final(self).taken@ && old(self).resolved@ is None && old(self).closed@,
            }),
            old(self).resolved@ is Some ==> r is Ready,        // a resolved channel is ready
    { unimplemented!() }
}
pub enum Settlement { Settled(DeliveryTag), Unsettled { delivery_tag: DeliveryTag, outcome: OutcomeRx } }
pub struct StopCell { pub v: Ghost<Option<SessionStopReason>> }
impl StopCell {
    #[verifier::external_body]
    pub fn get(&self) -> (r: Option<&SessionStopReason>) ensures (match r { Some(x) => self.v@ == Some(*x), None => self.v@ is None }) { unimplemented!() }
}
pub struct DeliveryFut { pub settlement: Settlement, pub session_stop_reason: StopCell }

/// what an unsettled send completes with, given the state its completion channel was resolved with: the outcome the receiving side applied, as it is
pub open spec fn outcome_of(state: DeliveryState) -> SendResult {
    match state {
        DeliveryState::Accepted(a) => Ok(Outcome::Accepted(a)),
        DeliveryState::Rejected(x) => Ok(Outcome::Rejected(x)),
        DeliveryState::Released(x) => Ok(Outcome::Released(x)),
        DeliveryState::Modified(x) => Ok(Outcome::Modified(x)),
        DeliveryState::Received(_) => Err(SendError::NonTerminalDeliveryState),
        DeliveryState::Declared(_) => Err(SendError::IllegalDeliveryState),
        DeliveryState::TransactionalState(_) => Err(SendError::IllegalDeliveryState),
    }
}

//@@ fn file=fe2o3-amqp/src/link/delivery.rs impl=`impl FromPreSettled for SendResult` name=from_settled
//@@ ret SendResult
//@@ spec
    ensures r is Ok && r->Ok_0 is Accepted,          // [C02.presettled.completes-as-accepted] a pre-settled send completes as accepted
//@@ end
//@@ fn file=fe2o3-amqp/src/link/delivery.rs impl=`impl FromDeliveryState for SendResult` name=from_none
//@@ ret SendResult
//@@ spec
    ensures r is Err,
//@@ end
//@@ fn file=fe2o3-amqp/src/link/delivery.rs impl=`impl FromDeliveryState for SendResult` name=from_delivery_state
//@@ ret SendResult
//@@ orsplit
//@@ spec
    ensures r == outcome_of(state),                  // [C02.outcome.as-the-receiver-applied-it] accepted / rejected / released / modified reach the application as exactly that outcome, with its fields (the error of a rejection, the flags of a modification); a non-terminal or transactional state is not an outcome
//@@ end
//@@ fn file=fe2o3-amqp/src/link/delivery.rs impl=`impl FromDeliveryFailure for SendResult` name=from_oneshot_recv_error
//@@ ret SendResult
//@@ subst `(_: RecvError)` => `(_e: RecvError)` rule=R5
//@@ subst `LinkStateError::IllegalState.into()` => `link_state_error_into(LinkStateError::IllegalState)` rule=R16
//@@ spec
    ensures r is Err,
//@@ end
//@@ fn file=fe2o3-amqp/src/link/delivery.rs impl=`impl FromDeliveryFailure for SendResult` name=from_session_stop_reason
//@@ ret SendResult
//@@ subst `LinkStateError::SessionStopped(reason).into()` => `link_state_error_into(LinkStateError::SessionStopped(reason))` rule=R16
//@@ spec
    ensures r == Err::<Outcome, SendError>(SendError::LinkStateError(LinkStateError::SessionStopped(reason))),     // [C14.send.outcome-reports-the-stop-reason] the outcome of an earlier (batchable) send fails with an error that says the session stopped and why
//@@ end

impl DeliveryFut {
//@@ fn file=fe2o3-amqp/src/link/delivery.rs impl=`~impl<O>Futurefor DeliveryFut<O>where` name=poll
//@@ ret Poll<SendResult>
//@@ param self : &mut Self
//@@ param cx : &mut Context
//@@ subst `let this = self.project();` => `let this = self;` rule=R3
//@@ subst `let mut settlement = this.settlement;` => `let mut settlement = &mut this.settlement;` rule=R3
//@@ subst `O::` => `` rule=R28
//@@ spec
    requires old(self).settlement is Unsettled ==> !old(self).settlement->Unsettled_outcome.taken@,
    ensures
        old(self).settlement is Settled ==> r is Ready && r->Ready_0 is Ok && r->Ready_0->Ok_0 is Accepted,                      // [C02.presettled.completes-without-waiting] a pre-settled send completes as accepted at the first poll: it waits for nothing
        old(self).settlement is Unsettled ==> ({
            let rx = old(self).settlement->Unsettled_outcome;
            &&& (rx.resolved@ is Some && rx.resolved@->Some_0 is Some ==> r == Poll::Ready(outcome_of(rx.resolved@->Some_0->Some_0)))   // [C02.send.completes-with-the-state-its-channel-was-resolved-with] an unsettled send completes with precisely the state ITS completion channel was resolved with (unit LINK: the disposition's state for this delivery's tag), mapped one to one
            &&& (r is Ready && r->Ready_0 is Ok ==> rx.resolved@ is Some && rx.resolved@->Some_0 is Some && r->Ready_0 == outcome_of(rx.resolved@->Some_0->Some_0))   // [C02.send.no-outcome-out-of-thin-air] it never reports an outcome that was not delivered on that channel
            &&& (r is Pending ==> rx.resolved@ is None && !final(self).settlement->Unsettled_outcome.taken@)                     // [C02.send.pending-consumes-nothing]
            &&& (rx.resolved@ is None && r is Ready && old(self).session_stop_reason.v@ is Some
                    ==> r->Ready_0 == Err::<Outcome, SendError>(SendError::LinkStateError(LinkStateError::SessionStopped(old(self).session_stop_reason.v@->Some_0))))   // [C14.send.outcome-reports-the-stop-reason] when the completion channel dies because the session (or its connection) stopped, the error carries the published reason
        }),
//@@ end
}

} // verus!
fn main() {}
