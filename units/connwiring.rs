//@@ unit CONNWIRING
#![feature(allocator_api)]
#![allow(unused_imports, unused_variables, dead_code, unused_mut, unused_parens)]
use vstd::prelude::*;

verus! {

//@@ trusted sharing is modelled by IDENTITY (R8b): channel ends and the stop-reason cell are stand-ins with a ghost identity; `mpsc::channel` returns two ends with the same identity, `.clone()` keeps it
//@@ trusted Transport::negotiate_amqp_header (unit HEADERS), Open::from(builder) (unit BUILDER), Connection::new, ConnectionEngine::open (unit CONNENG: open_inner) are stand-ins: `open` hands back an engine holding the two receiving ends and the connection it was given; `spawn` hands back a join handle and the receiving end of the outcome channel of THAT engine (ghost `engine_of`); the generic `spawn_engine_fn: F` is instantiated with `spawn_engine` (R28; the two local-set variants are not under contract)

macro_rules! shared {
    ($($n:ident),*) => { verus!{ $(
        #[verifier::external_body]
        pub struct $n { _p: u8 }
        impl $n { pub uninterp spec fn id(&self) -> int; }
        impl Clone for $n { #[verifier::external_body] fn clone(&self) -> (r: Self) ensures r.id() == self.id() { unimplemented!() } }
    )* } }
}
macro_rules! opaque {
    ($($n:ident),*) => { verus!{ $(
        #[verifier::external_body]
        pub struct $n { _p: u8 }
    )* } }
}
shared!(ConnStopArc, JoinHandle, OutcomeRx);
opaque!(ConnectionControl, SessionFrame, FramedW, FramedR, TransportS, Open, OpenError, NegotiationError, BuilderRest, Duration);
#[verifier::external_body]
#[verifier::reject_recursive_types(T)]
pub struct Tx<T> { _p: core::marker::PhantomData<T> }
impl<T> Tx<T> { pub uninterp spec fn id(&self) -> int; }
#[verifier::external_body]
#[verifier::reject_recursive_types(T)]
pub struct Rx<T> { _p: core::marker::PhantomData<T> }
impl<T> Rx<T> { pub uninterp spec fn id(&self) -> int; }
pub mod mpsc {
    use super::*;
    #[verifier::external_body]
    pub fn channel<T>(n: usize) -> (r: (Tx<T>, Rx<T>)) ensures r.0.id() == r.1.id() { unimplemented!() }
}
pub const DEFAULT_CONTROL_CHAN_BUF: usize = 128;
pub enum ConnectionState { Start, HeaderSent, HeaderReceived, HeaderExchange, Other }
pub trait ErrInto<T>: Sized { spec fn conv(self) -> T; fn err_into(self) -> (r: T) ensures r == self.conv(); }
pub uninterp spec fn neg_to_open(e: NegotiationError) -> OpenError;
impl ErrInto<OpenError> for NegotiationError { open spec fn conv(self) -> OpenError { neg_to_open(self) } #[verifier::external_body] fn err_into(self) -> (r: OpenError) { unimplemented!() } }
impl ErrInto<OpenError> for OpenError { open spec fn conv(self) -> OpenError { self } fn err_into(self) -> (r: OpenError) { let e = self; assert(e == <OpenError as ErrInto<OpenError>>::conv(self)); e } }
impl TransportS {
    #[verifier::external_body]
    pub fn negotiate_amqp_header(framed_write: FramedW, framed_read: FramedR, local_state: &mut ConnectionState, idle_timeout: Option<Duration>) -> (r: Result<TransportS, NegotiationError>) { unimplemented!() }
}
pub struct Builder { pub idle_time_out: Option<u32>, pub buffer_size: usize, pub rest: BuilderRest }
impl Open { #[verifier::external_body] pub fn from(b: Builder) -> (r: Open) { unimplemented!() } }
#[verifier::external_body]
pub fn idle_duration(t: Option<u32>) -> (r: Option<Duration>) { unimplemented!() }
/// Duration::from_millis (present so that the explicit-match spelling of the idle time-out conversion is decided)
impl Duration { #[verifier::external_body] pub fn from_millis(ms: u64) -> (r: Duration) { unimplemented!() } }
pub struct Connection { pub connection_stop_reason: ConnStopArc }
impl Connection {
    #[verifier::external_body]
    pub fn new(local_state: ConnectionState, local_open: Open) -> (r: Connection) { unimplemented!() }
    pub fn connection_stop_reason(&self) -> (r: &ConnStopArc) ensures *r == self.connection_stop_reason { &self.connection_stop_reason }
}
pub struct ConnectionEngine { pub connection: Connection, pub control: Rx<ConnectionControl>, pub outgoing_session_frames: Rx<SessionFrame> }
impl JoinHandle { pub uninterp spec fn engine_of(&self) -> ConnectionEngine; }
impl OutcomeRx { pub uninterp spec fn engine_of(&self) -> ConnectionEngine; }
impl ConnectionEngine {
    /// ConnectionEngine::open (unit CONNENG): the engine that comes up holds the receiving ends and the connection it was given
    #[verifier::external_body]
    pub fn open(transport: TransportS, connection: Connection, control: Rx<ConnectionControl>, outgoing_session_frames: Rx<SessionFrame>) -> (r: Result<ConnectionEngine, OpenError>)
        ensures r is Ok ==> r->Ok_0.connection.connection_stop_reason.id() == connection.connection_stop_reason.id() && r->Ok_0.control.id() == control.id() && r->Ok_0.outgoing_session_frames.id() == outgoing_session_frames.id(),
    { unimplemented!() }
    #[verifier::external_body]
    pub fn spawn(self) -> (r: (JoinHandle, OutcomeRx)) ensures r.0.engine_of() == self, r.1.engine_of() == self { unimplemented!() }
}
pub struct ConnectionHandle { pub is_closed: bool, pub control: Tx<ConnectionControl>, pub handle: JoinHandle, pub outcome: OutcomeRx, pub outgoing: Tx<SessionFrame>, pub connection_stop_reason: ConnStopArc, pub session_listener: () }
pub open spec fn wired(h: ConnectionHandle) -> bool {
    let e = h.outcome.engine_of();
    &&& h.handle.engine_of() == e
    &&& h.control.id() == e.control.id()                                               // [C12.connection-wiring.handle-controls-this-engine]
    &&& h.outgoing.id() == e.outgoing_session_frames.id()                              // [C11.connection-wiring.sessions-write-to-this-engine] [C01.connection-wiring.sessions-write-to-this-engine]
    &&& h.connection_stop_reason.id() == e.connection.connection_stop_reason.id()      // [C14.connection-wiring.handle-reads-the-engines-stop-reason]
    &&& !h.is_closed
}

//@@ fn file=fe2o3-amqp/src/connection/builder.rs name=spawn_engine
//@@ generics
//@@ nowhere
//@@ param engine : ConnectionEngine
//@@ param control_tx : Tx<ConnectionControl>
//@@ param outgoing_tx : Tx<SessionFrame>
//@@ ret Result<ConnectionHandle, OpenError>
//@@ subst `engine.connection_stop_reason()` => `engine.connection.connection_stop_reason()` rule=R2
//@@ spec
    ensures
        r is Ok && r->Ok_0.control == control_tx && r->Ok_0.outgoing == outgoing_tx && r->Ok_0.outcome.engine_of() == engine && r->Ok_0.handle.engine_of() == engine
            && r->Ok_0.connection_stop_reason.id() == engine.connection.connection_stop_reason.id() && !r->Ok_0.is_closed,      // [C14.connection-wiring.handle-reads-the-engines-stop-reason] [C12.connection-wiring.handle-controls-this-engine] the handle is built around the engine that was spawned: its outcome, its join handle, its stop-reason cell, and the two sending ends it was given
//@@ end

impl Builder {
//@@ fn file=fe2o3-amqp/src/connection/builder.rs impl=`impl<Tls> Builder<'_, mode::ConnectorWithId, Tls>` name=connect_amqp_with_framed
//@@ qmark
//@@ generics
//@@ nowhere
//@@ param framed_write : FramedW
//@@ param framed_read : FramedR
//@@ param spawn_engine_fn : ()
//@@ ret Result<ConnectionHandle, OpenError>
//@@ subst `Transport::negotiate_amqp_header(` => `TransportS::negotiate_amqp_header(` rule=R9
//@@ subst `(spawn_engine_fn)(engine, control_tx, outgoing_tx)` => `spawn_engine(engine, control_tx, outgoing_tx)` rule=R28
//@@ subst `self .idle_time_out .map(|millis| Duration::from_millis(millis as u64))` => `idle_duration(self.idle_time_out)` rule=R18 unless `\.map\(`
//@@ spec
    ensures
        r is Ok ==> wired(r->Ok_0),     // [C12.connection-wiring.handle-controls-this-engine] [C11.connection-wiring.sessions-write-to-this-engine] [C01.connection-wiring.sessions-write-to-this-engine] [C14.connection-wiring.handle-reads-the-engines-stop-reason] the connection that comes up is wired to itself: the control queue and the session-frame queue the handle (and, through it, every session) writes to are the ones the engine reads, and the stop-reason cell the handle and the sessions read is the one of the engine's connection
//@@ end
}

// ---------------------------------------------------------------------------------------------------------------
// the listener side (acceptor/connection.rs): ConnectionAcceptor::negotiate_amqp_with_framed
//@@ trusted (listener) ListenerConnection is reduced to the wrapped connection's stop-reason cell and the sending end of the queue of incoming sessions; the same ConnectionEngine::open / spawn stand-ins, for an engine around a ListenerConnection
opaque!(IncomingSession);
impl Clone for Open { #[verifier::external_body] fn clone(&self) -> (r: Self) { unimplemented!() } }
pub struct ListenerConnection { pub connection: Connection, pub session_listener: Tx<IncomingSession> }
pub struct LConnectionEngine { pub connection: ListenerConnection, pub control: Rx<ConnectionControl>, pub outgoing_session_frames: Rx<SessionFrame> }
shared!(LJoinHandle, LOutcomeRx);
impl LJoinHandle { pub uninterp spec fn engine_of(&self) -> LConnectionEngine; }
impl LOutcomeRx { pub uninterp spec fn engine_of(&self) -> LConnectionEngine; }
impl LConnectionEngine {
    #[verifier::external_body]
    pub fn open(transport: TransportS, connection: ListenerConnection, control: Rx<ConnectionControl>, outgoing_session_frames: Rx<SessionFrame>) -> (r: Result<LConnectionEngine, OpenError>)
        ensures r is Ok ==> r->Ok_0.connection.connection.connection_stop_reason.id() == connection.connection.connection_stop_reason.id() && r->Ok_0.connection.session_listener.id() == connection.session_listener.id()
            && r->Ok_0.control.id() == control.id() && r->Ok_0.outgoing_session_frames.id() == outgoing_session_frames.id(),
    { unimplemented!() }
    pub fn connection_stop_reason(&self) -> (r: &ConnStopArc) ensures *r == self.connection.connection.connection_stop_reason { &self.connection.connection.connection_stop_reason }
    #[verifier::external_body]
    pub fn spawn(self) -> (r: (LJoinHandle, LOutcomeRx)) ensures r.0.engine_of() == self, r.1.engine_of() == self { unimplemented!() }
}
pub struct ListenerConnectionHandle { pub is_closed: bool, pub control: Tx<ConnectionControl>, pub handle: LJoinHandle, pub outcome: LOutcomeRx, pub outgoing: Tx<SessionFrame>, pub connection_stop_reason: ConnStopArc, pub session_listener: Rx<IncomingSession> }
pub struct LocalOpen { pub idle_time_out: Option<u32> }
pub struct ConnectionAcceptor { pub local_open_idle: Option<u32>, pub local_open: Open, pub buffer_size: usize }
pub mod connection { pub use super::Connection; }
pub open spec fn wired_l(h: ListenerConnectionHandle) -> bool {
    let e = h.outcome.engine_of();
    &&& h.handle.engine_of() == e
    &&& h.control.id() == e.control.id()                                               // [C12.connection-wiring.handle-controls-this-engine]
    &&& h.outgoing.id() == e.outgoing_session_frames.id()                              // [C11.connection-wiring.sessions-write-to-this-engine] [C01.connection-wiring.sessions-write-to-this-engine]
    &&& h.connection_stop_reason.id() == e.connection.connection.connection_stop_reason.id()   // [C14.connection-wiring.handle-reads-the-engines-stop-reason]
    &&& h.session_listener.id() == e.connection.session_listener.id()                  // [C13.listener-wiring.begins-reach-this-handles-session-acceptor] the sessions the peer begins are offered to the acceptor that holds THIS connection handle
    &&& !h.is_closed
}
impl ConnectionAcceptor {
//@@ fn file=fe2o3-amqp/src/acceptor/connection.rs impl=`impl<Tls, Sasl> ConnectionAcceptor<Tls, Sasl>` name=negotiate_amqp_with_framed
//@@ qmark
//@@ generics
//@@ nowhere
//@@ param framed_write : FramedW
//@@ param framed_read : FramedR
//@@ ret Result<ListenerConnectionHandle, OpenError>
//@@ subst `Transport::negotiate_amqp_header(` => `TransportS::negotiate_amqp_header(` rule=R9
//@@ subst `self .local_open .idle_time_out .map(|millis| Duration::from_millis(millis as u64))` => `idle_duration(self.local_open_idle)` rule=R18 unless `\.map\(`
//@@ subst `ConnectionEngine::open(` => `LConnectionEngine::open(` rule=R7
//@@ subst `let connection_handle = ConnectionHandle {` => `let connection_handle = ListenerConnectionHandle {` rule=R7
//@@ spec
    ensures
        r is Ok ==> wired_l(r->Ok_0),     // [C12.connection-wiring.handle-controls-this-engine] [C11.connection-wiring.sessions-write-to-this-engine] [C01.connection-wiring.sessions-write-to-this-engine] [C14.connection-wiring.handle-reads-the-engines-stop-reason] [C13.listener-wiring.begins-reach-this-handles-session-acceptor]
//@@ end
}

} // verus!
fn main() {}
