//@@ unit LCONNDELEG
#![feature(allocator_api)]
#![allow(unused_imports, unused_variables, dead_code, unused_mut, unused_parens)]
use vstd::prelude::*;

verus! {

//@@ trusted the wrapped endpoint (connection::Connection, under contract in unit CONN) is an opaque value here; each of its operations is an UNINTERPRETED function step_<op>(state, arguments) -> (state', result): the contracts of this unit say that ListenerConnection performs exactly that operation, once, with the arguments it was given, hands back its result unchanged and touches nothing of its own
//@@ trusted async bodies with .await erased (R3); channel ends and sinks passed by reference are opaque values (what is written through a `&` end is part of the uninterpreted step; a `&mut` sink's new value is a component of the step's result)

macro_rules! opaque {
    ($($n:ident),*) => { verus!{ $(
        #[verifier::external_body]
        pub struct $n { _p: u8 }
    )* } }
}
opaque!(ConnectionS, ConnectionState, Open, ConnStopArc, ConnectionStopReason, SessionTx, OutgoingChannel, AllocSessionError, IncomingChannel, OpenError, End, ConnectionInnerError, Close, CloseError, FrameSink, AmqpError, Frame, SessionTxRef, SessionListener);

impl ConnectionS {
    pub uninterp spec fn get_local_state(self) -> ConnectionState;
    #[verifier::external_body]
    pub fn local_state(&self) -> (r: &ConnectionState) ensures *r == self.get_local_state() { unimplemented!() }
    pub uninterp spec fn get_local_open(self) -> Open;
    #[verifier::external_body]
    pub fn local_open(&self) -> (r: &Open) ensures *r == self.get_local_open() { unimplemented!() }
    pub uninterp spec fn get_connection_stop_reason(self) -> ConnStopArc;
    #[verifier::external_body]
    pub fn connection_stop_reason(&self) -> (r: &ConnStopArc) ensures *r == self.get_connection_stop_reason() { unimplemented!() }
    pub uninterp spec fn step_set_connection_stop_reason(self, reason: ConnectionStopReason) -> (ConnectionS, ());
    #[verifier::external_body]
    pub fn set_connection_stop_reason(&mut self, reason: ConnectionStopReason) ensures (*final(self), ()) == old(self).step_set_connection_stop_reason(reason) { unimplemented!() }
    pub uninterp spec fn step_allocate_session(self, tx: SessionTx) -> (ConnectionS, Result<OutgoingChannel, AllocSessionError>);
    #[verifier::external_body]
    pub fn allocate_session(&mut self, tx: SessionTx) -> (r: Result<OutgoingChannel, AllocSessionError>) ensures (*final(self), r) == old(self).step_allocate_session(tx) { unimplemented!() }
    pub uninterp spec fn step_deallocate_session(self, outgoing_channel: OutgoingChannel) -> (ConnectionS, ());
    #[verifier::external_body]
    pub fn deallocate_session(&mut self, outgoing_channel: OutgoingChannel) ensures (*final(self), ()) == old(self).step_deallocate_session(outgoing_channel) { unimplemented!() }
    pub uninterp spec fn step_on_incoming_open(self, channel: IncomingChannel, open: Open) -> (ConnectionS, Result<(), OpenError>);
    #[verifier::external_body]
    pub fn on_incoming_open(&mut self, channel: IncomingChannel, open: Open) -> (r: Result<(), OpenError>) ensures (*final(self), r) == old(self).step_on_incoming_open(channel, open) { unimplemented!() }
    pub uninterp spec fn step_on_incoming_end(self, channel: IncomingChannel, end: End) -> (ConnectionS, Result<(), ConnectionInnerError>);
    #[verifier::external_body]
    pub fn on_incoming_end(&mut self, channel: IncomingChannel, end: End) -> (r: Result<(), ConnectionInnerError>) ensures (*final(self), r) == old(self).step_on_incoming_end(channel, end) { unimplemented!() }
    pub uninterp spec fn step_on_incoming_close(self, channel: IncomingChannel, close: Close) -> (ConnectionS, Result<(), CloseError>);
    #[verifier::external_body]
    pub fn on_incoming_close(&mut self, channel: IncomingChannel, close: Close) -> (r: Result<(), CloseError>) ensures (*final(self), r) == old(self).step_on_incoming_close(channel, close) { unimplemented!() }
    pub uninterp spec fn step_send_open(self, writer: FrameSink) -> (ConnectionS, FrameSink, Result<(), OpenError>);
    #[verifier::external_body]
    pub fn send_open(&mut self, writer: &mut FrameSink) -> (r: Result<(), OpenError>) ensures (*final(self), *final(writer), r) == old(self).step_send_open(*old(writer)) { unimplemented!() }
    pub uninterp spec fn step_send_close(self, writer: FrameSink, error: Option<AmqpError>) -> (ConnectionS, FrameSink, Result<(), CloseError>);
    #[verifier::external_body]
    pub fn send_close(&mut self, writer: &mut FrameSink, error: Option<AmqpError>) -> (r: Result<(), CloseError>) ensures (*final(self), *final(writer), r) == old(self).step_send_close(*old(writer), error) { unimplemented!() }
    pub uninterp spec fn step_on_outgoing_end(self, channel: OutgoingChannel, end: End) -> (ConnectionS, Result<Frame, ConnectionInnerError>);
    #[verifier::external_body]
    pub fn on_outgoing_end(&mut self, channel: OutgoingChannel, end: End) -> (r: Result<Frame, ConnectionInnerError>) ensures (*final(self), r) == old(self).step_on_outgoing_end(channel, end) { unimplemented!() }
    pub uninterp spec fn step_session_tx_by_incoming_channel(self, channel: IncomingChannel) -> (ConnectionS, Option<SessionTxRef>);
    #[verifier::external_body]
    pub fn session_tx_by_incoming_channel(&mut self, channel: IncomingChannel) -> (r: Option<&SessionTxRef>) ensures (*final(self), opt_deref(r)) == old(self).step_session_tx_by_incoming_channel(channel) { unimplemented!() }
}
pub open spec fn opt_deref<T>(o: Option<&T>) -> Option<T> { match o { Some(x) => Some(*x), None => None } }
pub struct ListenerConnection { pub connection: ConnectionS, pub session_listener: SessionListener }

impl ListenerConnection {
//@@ fn file=fe2o3-amqp/src/acceptor/connection.rs impl=`impl endpoint::Connection for ListenerConnection` name=local_state
//@@ generics
//@@ nowhere
//@@ ret &ConnectionState
//@@ spec
    ensures *r == self.connection.get_local_state(),     // [C12.listener-connection.state-is-the-connections] the state the listener connection reports and acts on is the state of the connection it wraps
//@@ end
//@@ fn file=fe2o3-amqp/src/acceptor/connection.rs impl=`impl endpoint::Connection for ListenerConnection` name=local_open
//@@ generics
//@@ nowhere
//@@ ret &Open
//@@ spec
    ensures *r == self.connection.get_local_open(),     // [C12.listener-connection.open-is-the-connections] [C17.listener-connection.limits-are-the-connections]
//@@ end
//@@ fn file=fe2o3-amqp/src/acceptor/connection.rs impl=`impl endpoint::Connection for ListenerConnection` name=connection_stop_reason
//@@ generics
//@@ nowhere
//@@ ret &ConnStopArc
//@@ spec
    ensures *r == self.connection.get_connection_stop_reason(),     // [C14.listener-connection.stop-reason-cell-is-the-connections]
//@@ end
//@@ fn file=fe2o3-amqp/src/acceptor/connection.rs impl=`impl endpoint::Connection for ListenerConnection` name=set_connection_stop_reason
//@@ generics
//@@ nowhere
//@@ param reason : ConnectionStopReason
//@@ spec
    ensures
        (final(self).connection, ()) == old(self).connection.step_set_connection_stop_reason(reason),     // [C14.listener-connection.stop-reason-published-in-the-connections-cell]
        final(self).session_listener == old(self).session_listener,
//@@ end
//@@ fn file=fe2o3-amqp/src/acceptor/connection.rs impl=`impl endpoint::Connection for ListenerConnection` name=allocate_session
//@@ generics
//@@ nowhere
//@@ param tx : SessionTx
//@@ ret Result<OutgoingChannel, AllocSessionError>
//@@ spec
    ensures
        (final(self).connection, r) == old(self).connection.step_allocate_session(tx),     // [C11.listener-connection.channel-allocated-by-the-connection] [C17.listener-connection.channel-max-enforced-by-the-connection] a listener-side session gets its channel from the wrapped connection's table: fresh and within the agreed channel-max (unit CONN)
        final(self).session_listener == old(self).session_listener,
//@@ end
//@@ fn file=fe2o3-amqp/src/acceptor/connection.rs impl=`impl endpoint::Connection for ListenerConnection` name=deallocate_session
//@@ generics
//@@ nowhere
//@@ param outgoing_channel : OutgoingChannel
//@@ spec
    ensures
        (final(self).connection, ()) == old(self).connection.step_deallocate_session(outgoing_channel),     // [C11.listener-connection.channel-released-by-the-connection]
        final(self).session_listener == old(self).session_listener,
//@@ end
//@@ fn file=fe2o3-amqp/src/acceptor/connection.rs impl=`impl endpoint::Connection for ListenerConnection` name=on_incoming_open
//@@ generics
//@@ nowhere
//@@ param channel : IncomingChannel
//@@ param open : Open
//@@ ret Result<(), OpenError>
//@@ spec
    ensures
        (final(self).connection, r) == old(self).connection.step_on_incoming_open(channel, open),     // [C12.listener-connection.open-handled-by-the-connection] [C17.listener-connection.limits-agreed-by-the-connection] the peer's open (its channel-max, max-frame-size, idle time-out) is taken over by the wrapped connection
        final(self).session_listener == old(self).session_listener,
//@@ end
//@@ fn file=fe2o3-amqp/src/acceptor/connection.rs impl=`impl endpoint::Connection for ListenerConnection` name=on_incoming_end
//@@ generics
//@@ nowhere
//@@ param channel : IncomingChannel
//@@ param end : End
//@@ ret Result<(), ConnectionInnerError>
//@@ spec
    ensures
        (final(self).connection, r) == old(self).connection.step_on_incoming_end(channel, end),     // [C11.listener-connection.end-unmaps-in-the-connection] [C13.listener-connection.end-reaches-its-session]
        final(self).session_listener == old(self).session_listener,
//@@ end
//@@ fn file=fe2o3-amqp/src/acceptor/connection.rs impl=`impl endpoint::Connection for ListenerConnection` name=on_incoming_close
//@@ generics
//@@ nowhere
//@@ param channel : IncomingChannel
//@@ param close : Close
//@@ ret Result<(), CloseError>
//@@ spec
    ensures
        (final(self).connection, r) == old(self).connection.step_on_incoming_close(channel, close),     // [C12.listener-connection.close-handled-by-the-connection]
        final(self).session_listener == old(self).session_listener,
//@@ end
//@@ fn file=fe2o3-amqp/src/acceptor/connection.rs impl=`impl endpoint::Connection for ListenerConnection` name=send_open
//@@ generics
//@@ nowhere
//@@ param writer : &mut FrameSink
//@@ ret Result<(), OpenError>
//@@ spec
    ensures
        (final(self).connection, *final(writer), r) == old(self).connection.step_send_open(*old(writer)),     // [C12.listener-connection.open-sent-by-the-connection]
        final(self).session_listener == old(self).session_listener,
//@@ end
//@@ fn file=fe2o3-amqp/src/acceptor/connection.rs impl=`impl endpoint::Connection for ListenerConnection` name=send_close
//@@ generics
//@@ nowhere
//@@ param writer : &mut FrameSink
//@@ param error : Option<AmqpError>
//@@ ret Result<(), CloseError>
//@@ spec
    ensures
        (final(self).connection, *final(writer), r) == old(self).connection.step_send_close(*old(writer), error),     // [C12.listener-connection.close-sent-by-the-connection]
        final(self).session_listener == old(self).session_listener,
//@@ end
//@@ fn file=fe2o3-amqp/src/acceptor/connection.rs impl=`impl endpoint::Connection for ListenerConnection` name=on_outgoing_end
//@@ generics
//@@ nowhere
//@@ param channel : OutgoingChannel
//@@ param end : End
//@@ ret Result<Frame, ConnectionInnerError>
//@@ spec
    ensures
        (final(self).connection, r) == old(self).connection.step_on_outgoing_end(channel, end),     // [C11.listener-connection.end-framed-by-the-connection]
        final(self).session_listener == old(self).session_listener,
//@@ end
//@@ fn file=fe2o3-amqp/src/acceptor/connection.rs impl=`impl endpoint::Connection for ListenerConnection` name=session_tx_by_incoming_channel
//@@ generics
//@@ nowhere
//@@ param channel : IncomingChannel
//@@ ret Option<&SessionTxRef>
//@@ spec
    ensures
        (final(self).connection, opt_deref(r)) == old(self).connection.step_session_tx_by_incoming_channel(channel),     // [C11.listener-connection.frames-routed-by-the-connections-table] a session frame is forwarded through the wrapped connection's channel table
        final(self).session_listener == old(self).session_listener,
//@@ end
}

} // verus!
fn main() {}
