//@@ unit UNSETTLED
#![feature(allocator_api)]
#![allow(unused_imports, unused_variables, dead_code, unused_mut, unused_parens)]
use vstd::prelude::*;

verus! {

//@@ trusted link/sender_link.rs SenderLink::handle_unsettled_in_attach: the four iterator-adapter chains (`into_keys().map(..).collect()`, `into_iter().filter_map(..).collect()`, `into_iter().chain(..).collect()`) are written as the loops the std adapters perform over iterator stand-ins (R34), the closure bodies copied token for token through metavariables; `opt.map(|resume| (tag, resume))` inside them as the match it denotes (R19b)
//@@ trusted the two ordered maps are stand-ins: the link's own unsettled map yields its entries in insertion order; the peer's map answers `swap_remove(tag)` with the entry recorded for THAT tag (uninterpreted lookup / removal: indexmap) and `into_keys()` with the tags still in it; `resume_delivery` (unit RESUME: the resumption table) is a stand-in returning rd(local, remote)
//@@ trusted the unsettled map's lock (`self.unsettled.write()`) is erased (R4); `guard.take()` is Option::take on the map

macro_rules! opaque {
    ($($n:ident),*) => { verus!{ $(
        #[verifier::external_body]
        pub struct $n { _p: u8 }
    )* } }
}
opaque!(DeliveryTag, MsgS, StateS, OneshotS, RdOther, SenderAttachError);
/// fe2o3-amqp-types MESSAGE_FORMAT (0)
pub const MESSAGE_FORMAT: u32 = 0;
pub enum ResumingDelivery { Abort { message_format: u32, sender: Option<OneshotS> }, Other(RdOther) }
pub uninterp spec fn rd(local: MsgS, remote: Option<Option<StateS>>) -> Option<ResumingDelivery>;
#[verifier::external_body]
pub fn resume_delivery(local: MsgS, remote: Option<Option<StateS>>) -> (r: Option<ResumingDelivery>) ensures r == rd(local, remote) { unimplemented!() }

pub type LEntry = (DeliveryTag, MsgS);
pub type REntry = (DeliveryTag, Option<StateS>);
pub type Out = (DeliveryTag, ResumingDelivery);
#[verifier::external_body]
pub struct LocalMap { _p: u8 }
#[verifier::external_body]
pub struct RemoteMap { _p: u8 }
pub struct LocalIter { pub rest: Ghost<Seq<LEntry>> }
pub struct KeyIter { pub rest: Ghost<Seq<DeliveryTag>> }
pub uninterp spec fn rm_lookup(m: Seq<REntry>, tag: DeliveryTag) -> Option<Option<StateS>>;
pub uninterp spec fn rm_without(m: Seq<REntry>, tag: DeliveryTag) -> Seq<REntry>;
pub uninterp spec fn keys_of(m: Seq<REntry>) -> Seq<DeliveryTag>;
impl LocalMap {
    pub uninterp spec fn view(&self) -> Seq<LEntry>;
    #[verifier::external_body]
    pub fn is_empty(&self) -> (r: bool) ensures r == (self@.len() == 0) { unimplemented!() }
    #[verifier::external_body]
    pub fn into_iter(self) -> (r: LocalIter) ensures r.rest@ == self@ { unimplemented!() }
}
impl RemoteMap {
    pub uninterp spec fn view(&self) -> Seq<REntry>;
    #[verifier::external_body]
    pub fn is_empty(&self) -> (r: bool) ensures r == (self@.len() == 0) { unimplemented!() }
    #[verifier::external_body]
    pub fn swap_remove(&mut self, tag: &DeliveryTag) -> (r: Option<Option<StateS>>) ensures r == rm_lookup(old(self)@, *tag), final(self)@ == rm_without(old(self)@, *tag) { unimplemented!() }
    #[verifier::external_body]
    pub fn into_keys(self) -> (r: KeyIter) ensures r.rest@ == keys_of(self@) { unimplemented!() }
}
impl LocalIter {
    #[verifier::external_body]
    pub fn next(&mut self) -> (r: Option<LEntry>)
        ensures old(self).rest@.len() == 0 ==> r is None && final(self).rest@ == old(self).rest@,
            old(self).rest@.len() > 0 ==> r == Some(old(self).rest@[0]) && final(self).rest@ == old(self).rest@.skip(1),
    { unimplemented!() }
}
impl KeyIter {
    #[verifier::external_body]
    pub fn next(&mut self) -> (r: Option<DeliveryTag>)
        ensures old(self).rest@.len() == 0 ==> r is None && final(self).rest@ == old(self).rest@,
            old(self).rest@.len() > 0 ==> r == Some(old(self).rest@[0]) && final(self).rest@ == old(self).rest@.skip(1),
    { unimplemented!() }
}
/// `local.into_iter().chain(remote).collect()`
pub fn vec_chain(a: Vec<Out>, b: Vec<Out>) -> (r: Vec<Out>) ensures r@ == a@ + b@ { let mut a = a; let mut b = b; a.append(&mut b); a }

/// every tag the peer lists and the link does not know: aborted, under the default message format, with nobody waiting for it
pub open spec fn aborts(keys: Seq<DeliveryTag>) -> Seq<Out> { Seq::new(keys.len(), |i: int| (keys[i], ResumingDelivery::Abort { message_format: MESSAGE_FORMAT, sender: None })) }
/// the peer's map after the tags of the first k local entries have been taken out of it
pub open spec fn rem_after(loc: Seq<LEntry>, rem: Seq<REntry>, k: int) -> Seq<REntry> decreases k {
    if k <= 0 { rem } else { rm_without(rem_after(loc, rem, k - 1), loc[k - 1].0) }
}
/// what the first k local entries resume as: each against the peer's entry for ITS OWN tag (looked up in the map as it stands, i.e. once), kept if the resumption table says there is something to do
pub open spec fn out_after(loc: Seq<LEntry>, rem: Seq<REntry>, k: int) -> Seq<Out> decreases k {
    if k <= 0 { Seq::empty() } else {
        let prev = out_after(loc, rem, k - 1);
        match rd(loc[k - 1].1, rm_lookup(rem_after(loc, rem, k - 1), loc[k - 1].0)) { Some(x) => prev.push((loc[k - 1].0, x)), None => prev }
    }
}
/// the same with no peer map at all: every local delivery against "no entry"
pub open spec fn out_alone(loc: Seq<LEntry>, k: int) -> Seq<Out> decreases k {
    if k <= 0 { Seq::empty() } else {
        let prev = out_alone(loc, k - 1);
        match rd(loc[k - 1].1, None) { Some(x) => prev.push((loc[k - 1].0, x)), None => prev }
    }
}
//@@ type file=fe2o3-amqp/src/link/state.rs kind=enum name=LinkState
//@@ end
pub enum SenderAttachExchange { Complete, IncompleteUnsettled(Vec<Out>), Resume(Vec<Out>) }
impl SenderAttachExchange {
//@@ fn file=fe2o3-amqp/src/link/mod.rs impl=`impl SenderAttachExchange` name=complete_or id=SenderAttachExchange::complete_or
//@@ spec
    ensures self is Complete ==> r is Ok, !(self is Complete) ==> r == Err::<(), E>(err),       // [C02.attach.only-a-complete-exchange-is-an-attached-link] a plain attach succeeds only when the exchange completed: one that found unsettled deliveries to resume is reported to the caller, the link is not silently treated as freshly attached (what unit WIRING assumes of it)
//@@ end
}
pub struct SenderLink { pub unsettled: Option<LocalMap>, pub local_state: LinkState }
pub open spec fn incomplete(st: LinkState) -> bool { st is IncompleteAttachReceived || st is IncompleteAttachSent || st is IncompleteAttachExchanged }
pub open spec fn list_of(r: SenderAttachExchange) -> Seq<Out> { match r { SenderAttachExchange::Complete => Seq::empty(), SenderAttachExchange::IncompleteUnsettled(v) => v@, SenderAttachExchange::Resume(v) => v@ } }

impl SenderLink {
//@@ fn file=fe2o3-amqp/src/link/sender_link.rs impl=`impl<T> SenderLink<T>` name=handle_unsettled_in_attach id=SenderLink::handle_unsettled_in_attach
//@@ shape loops=whilelet,whilelet,whilelet,whilelet
//@@ attr #[verifier::loop_isolation(false)]
//@@ attr #[verifier::allow_complex_invariants]
//@@ param remote_unsettled : Option<RemoteMap>
//@@ ret Result<SenderAttachExchange, SenderAttachError>
//@@ subst `let mut guard = self.unsettled.write();` => `let mut guard = &mut self.unsettled;` rule=R4
//@@ subst `remote_map .into_keys() .map(|delivery_tag| __E1) .collect()` => `{ let mut __o: Vec<Out> = Vec::new(); let mut __ks = remote_map.into_keys(); let ghost __k0 = __ks.rest@; while let Some(delivery_tag) = __ks.next() { __o.push(__E1); } __o }` rule=R34
//@@ subst `local_map .into_iter() .filter_map(|(tag, local)| { resume_delivery(local, __E1).map(|resume| (tag, resume)) }) .collect()` => `{ let mut __o: Vec<Out> = Vec::new(); let ghost __l0 = local_map@; let mut __li = local_map.into_iter(); while let Some((tag, local)) = __li.next() { if let Some(__x) = (match resume_delivery(local, __E1) { Some(resume) => Some((tag, resume)), None => None }) { __o.push(__x); } } __o }` rule=R34,R19b
//@@ subst `local_map .into_iter() .filter_map(|(tag, local)| { let remote = remote_map.swap_remove(&tag); resume_delivery(local, __E1).map(|resume| (tag, resume)) }) .collect()` => `{ let mut __o: Vec<Out> = Vec::new(); let ghost __l0 = local_map@; let ghost __r0 = remote_map@; let mut __li = local_map.into_iter(); while let Some((tag, local)) = __li.next() { if let Some(__x) = ({ let remote = remote_map.swap_remove(&tag); match resume_delivery(local, __E1) { Some(resume) => Some((tag, resume)), None => None } }) { __o.push(__x); } } __o }` rule=R34,R19b
//@@ subst `remote_map .into_keys() .map(|tag| __E1)` => `{ let mut __o: Vec<Out> = Vec::new(); let mut __ks = remote_map.into_keys(); let ghost __k0 = __ks.rest@; while let Some(tag) = __ks.next() { __o.push(__E1); } __o }` rule=R34
//@@ subst `local.into_iter().chain(remote).collect()` => `vec_chain(local, remote)` rule=R34
//@@ loop 0
            invariant __o@ + aborts(__ks.rest@) =~= aborts(__k0),
            ensures __ks.rest@.len() == 0,
            decreases __ks.rest@.len(),
//@@ loop 1
            invariant __li.rest@.len() <= __l0.len(), __li.rest@ =~= __l0.skip(__l0.len() - __li.rest@.len()), __o@ == out_alone(__l0, __l0.len() - __li.rest@.len()),
            ensures __li.rest@.len() == 0,
            decreases __li.rest@.len(),
//@@ loop 2
            invariant __li.rest@.len() <= __l0.len(), __li.rest@ =~= __l0.skip(__l0.len() - __li.rest@.len()), __o@ == out_after(__l0, __r0, __l0.len() - __li.rest@.len()),
                remote_map@ == rem_after(__l0, __r0, __l0.len() - __li.rest@.len()),
            ensures __li.rest@.len() == 0,
            decreases __li.rest@.len(),
//@@ loop 3
            invariant __o@ + aborts(__ks.rest@) =~= aborts(__k0),
            ensures __ks.rest@.len() == 0,
            decreases __ks.rest@.len(),
//@@ spec
    ensures
        final(self).unsettled is None,       // [C02.resume.unsettled-map-handed-over] the link's unsettled deliveries leave its map for the resumption: each is either resumed / re-sent / settled by it or dropped with its waiter told -- none stays behind to be matched a second time
        final(self).local_state == old(self).local_state,
        r is Ok,
        ({
            let loc = match old(self).unsettled { Some(m) => m@, None => Seq::<LEntry>::empty() };
            let nothing = (old(self).unsettled is None || loc.len() == 0) && (remote_unsettled is None || remote_unsettled->Some_0@.len() == 0);
            &&& nothing ==> r->Ok_0 is Complete       // [C02.resume.nothing-unsettled-is-complete] with nothing unsettled on either side the exchange is complete
            &&& !nothing ==> (if incomplete(old(self).local_state) { r->Ok_0 is IncompleteUnsettled } else { r->Ok_0 is Resume })
            &&& !nothing ==> list_of(r->Ok_0) =~= (match (old(self).unsettled, remote_unsettled) {
                    (None, Some(rm)) => aborts(keys_of(rm@)),
                    (Some(lm), None) => out_alone(lm@, lm@.len() as int),
                    (Some(lm), Some(rm)) => out_after(lm@, rm@, lm@.len() as int) + aborts(keys_of(rem_after(lm@, rm@, lm@.len() as int))),
                    (None, None) => Seq::<Out>::empty(),
                })       // [C02.resume.every-unsettled-delivery-matched-by-its-own-tag] every delivery the link still holds unsettled is put to the resumption table against the peer's entry for ITS OWN tag (none for a tag the peer does not list), in the map's order, once; every tag only the peer lists is aborted; nothing else is resumed
        }),
//@@ end
}

} // verus!
fn main() {}
