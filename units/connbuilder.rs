//@@ unit CONNBUILDER
#![feature(allocator_api)]
#![allow(unused_imports, unused_variables, dead_code, unused_mut, unused_parens)]
use vstd::prelude::*;
use std::marker::PhantomData;

verus! {

//@@ trusted the field types of the connection builder are opaque (R11); R7: `impl Into<String>` is taken as String. The TLS-connector transitions (features `rustls` / `native-tls`, off in the build the units describe) are not extracted.
macro_rules! opaque { ($($n:ident),*) => { verus!{ $( #[verifier::external_body] pub struct $n { _p: u8 } )* } } }
opaque!(IetfLanguageTag, Symbol, Fields, SaslProfile);
pub struct MaxFrameSize(pub u32);
pub struct ChannelMax(pub u16);
pub type Milliseconds = u32;
pub mod mode { pub struct ConnectorNoId; pub struct ConnectorWithId; }

//@@ type file=fe2o3-amqp/src/connection/builder.rs kind=struct name=Builder
//@@ end

impl<'a, Tls> Builder<'a, mode::ConnectorNoId, Tls> {
//@@ fn file=fe2o3-amqp/src/connection/builder.rs impl=`impl<'a, Tls> Builder<'a, mode::ConnectorNoId, Tls>` name=container_id
//@@ param id : String
//@@ subst `id.into()` => `id` rule=optional-R7
//@@ spec
    ensures
        r.container_id == id,
        r.sasl_profile == self.sasl_profile && r.alt_tls_estab == self.alt_tls_estab && r.tls_connector == self.tls_connector,       // [C19.builder.naming-the-container-keeps-the-sasl-profile] giving the connection its container-id keeps the SASL profile (and the TLS choice) configured before: a client configured for SCRAM / PLAIN does not silently open without the SASL layer because the builder was used in another order
        r.max_frame_size == self.max_frame_size && r.channel_max == self.channel_max && r.idle_time_out == self.idle_time_out,       // [C06.builder.naming-the-container-keeps-the-limits] [C17.builder.naming-the-container-keeps-the-limits] nor are max-frame-size, channel-max and the idle time-out lost
        r.hostname == self.hostname && r.sasl_hostname == self.sasl_hostname && r.scheme == self.scheme && r.domain == self.domain && r.buffer_size == self.buffer_size,
        r.outgoing_locales == self.outgoing_locales && r.incoming_locales == self.incoming_locales && r.offered_capabilities == self.offered_capabilities
            && r.desired_capabilities == self.desired_capabilities && r.properties == self.properties,
//@@ end
}

impl<'a, Mode, Tls> Builder<'a, Mode, Tls> {
//@@ fn file=fe2o3-amqp/src/connection/builder.rs impl=`impl<'a, Mode, Tls> Builder<'a, Mode, Tls>` name=sasl_profile
//@@ param profile : SaslProfile
//@@ subst `profile.into()` => `profile` rule=optional-R7
//@@ spec
    ensures r == (Builder { sasl_profile: Some(profile), ..self }),       // [C19.builder.sasl-profile-stored] the SASL profile given is the one the connection will negotiate with (stored in its field, nothing else touched)
//@@ end

//@@ fn file=fe2o3-amqp/src/connection/builder.rs impl=`impl<'a, Mode, Tls> Builder<'a, Mode, Tls>` name=alt_tls_establishment
//@@ spec
    ensures r == (Builder { alt_tls_estab: value, ..self }),
//@@ end

//@@ fn file=fe2o3-amqp/src/connection/builder.rs impl=`impl<'a, Mode, Tls> Builder<'a, Mode, Tls>` name=hostname
//@@ param hostname : Option<&'a str>
//@@ subst `hostname.into()` => `hostname` rule=optional-R7
//@@ spec
    ensures r == (Builder { hostname: hostname, ..self }),
//@@ end

//@@ fn file=fe2o3-amqp/src/connection/builder.rs impl=`impl<'a, Mode, Tls> Builder<'a, Mode, Tls>` name=sasl_hostname
//@@ param sasl_hostname : Option<&'a str>
//@@ subst `sasl_hostname.into()` => `sasl_hostname` rule=optional-R7
//@@ spec
    ensures r == (Builder { sasl_hostname: sasl_hostname, ..self }),       // [C19.builder.sasl-hostname-stored]
//@@ end
}

} // verus!
fn main() {}
