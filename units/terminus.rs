//@@ unit TERMINUS
#![feature(allocator_api)]
#![allow(unused_imports, unused_variables, dead_code, unused_mut, unused_parens)]
use vstd::prelude::*;

verus! {

//@@ trusted Source / Target are reduced to the fields the terminus checks read (R11: dynamic, address, dynamic-node-properties, filter; all opaque but the flag); `verify_filter` (a loop over the desired filter set with iterator adapters) is a stand-in that can only report DesiredFilterNotSupported; the Coordinator's capability check (a loop with `contains`) is not extracted
macro_rules! opaque { ($($n:ident),*) => { verus!{ $( #[verifier::external_body] pub struct $n { _p: u8 } )* } } }
opaque!(Address, NodeProps, FilterSet, AmqpError, SessionStopReason, NotSupportedKeys);
pub struct DesiredFilterNotSupported { pub not_supported: NotSupportedKeys }
pub struct Source { pub address: Option<Address>, pub dynamic: bool, pub dynamic_node_properties: Option<NodeProps>, pub filter: Option<FilterSet> }
pub struct Target { pub address: Option<Address>, pub dynamic: bool, pub dynamic_node_properties: Option<NodeProps> }
//@@ type file=fe2o3-amqp/src/link/error.rs kind=enum name=SenderAttachError
//@@ subst `definitions::Error` => `AmqpError` rule=R11
//@@ end
//@@ type file=fe2o3-amqp/src/link/error.rs kind=enum name=ReceiverAttachError
//@@ subst `definitions::Error` => `AmqpError` rule=R11
//@@ end
pub trait ErrInto<T>: Sized { spec fn conv(self) -> T; fn err_into(self) -> (r: T) ensures r == self.conv(); }
impl ErrInto<ReceiverAttachError> for DesiredFilterNotSupported { open spec fn conv(self) -> ReceiverAttachError { ReceiverAttachError::DesiredFilterNotSupported(self) } fn err_into(self) -> (r: ReceiverAttachError) { ReceiverAttachError::DesiredFilterNotSupported(self) } }
#[verifier::external_body]
pub fn verify_filter(desired: &Option<FilterSet>, supported: &Option<FilterSet>) -> (r: Result<(), DesiredFilterNotSupported>) { unimplemented!() }

/// the conditions the terminus checks may report (what units LINKATTACH and LINKEXCH assume of them: none of these is `IllegalState`, a missing terminus or a settle-mode conflict -- each of which
/// makes `handle_attach_error` react differently)
pub open spec fn terminus_cond_s(e: SenderAttachError) -> bool {
    e is SourceAddressIsSomeWhenDynamicIsTrue || e is TargetAddressIsNoneWhenDynamicIsTrue || e is DynamicNodePropertiesIsSomeWhenDynamicIsFalse || e is DesireTxnCapabilitiesNotSupported
}
pub open spec fn terminus_cond_r(e: ReceiverAttachError) -> bool {
    e is SourceAddressIsNoneWhenDynamicIsTrue || e is TargetAddressIsSomeWhenDynamicIsTrue || e is DynamicNodePropertiesIsSomeWhenDynamicIsFalse || e is DesiredFilterNotSupported
}

impl Source {
//@@ fn file=fe2o3-amqp/src/link/source.rs impl=`impl VerifySource for Source` name=verify_as_sender as=source_verify_as_sender
//@@ spec
    ensures
        r is Err ==> terminus_cond_s(r->Err_0),       // [C13.attach.terminus-check-reports-its-own-conditions] a source the peer states wrongly is refused with the condition that says so (and the link is then closed with it, unit LINKEXCH)
        other.dynamic && other.address is Some ==> r is Err && r->Err_0 is SourceAddressIsSomeWhenDynamicIsTrue,       // [C15.attach.dynamic-source-with-address-refused] a request to create a node dynamically must not name an address
        !other.dynamic && other.dynamic_node_properties is Some ==> r is Err && r->Err_0 is DynamicNodePropertiesIsSomeWhenDynamicIsFalse,       // [C15.attach.node-properties-without-dynamic-refused] (the detach that closes the link names THIS condition)
        !(other.dynamic && other.address is Some) && !(!other.dynamic && other.dynamic_node_properties is Some) ==> r is Ok,
//@@ end

//@@ fn file=fe2o3-amqp/src/link/source.rs impl=`impl VerifySource for Source` name=verify_as_receiver as=source_verify_as_receiver
//@@ qmark
//@@ spec
    ensures
        r is Err ==> terminus_cond_r(r->Err_0),       // [C13.attach.terminus-check-reports-its-own-conditions]
        other.dynamic && other.address is None ==> r is Err && (r->Err_0 is SourceAddressIsNoneWhenDynamicIsTrue || r->Err_0 is DesiredFilterNotSupported),       // [C15.attach.dynamic-source-without-address-refused] a dynamically created node must come back with its address
        !other.dynamic && other.dynamic_node_properties is Some ==> r is Err && (r->Err_0 is DynamicNodePropertiesIsSomeWhenDynamicIsFalse || r->Err_0 is DesiredFilterNotSupported),
        !(other.dynamic && other.address is None) && !(!other.dynamic && other.dynamic_node_properties is Some) ==> r is Ok || r->Err_0 is DesiredFilterNotSupported,       // a source that is stated correctly is refused for its filter only
//@@ end
}
impl Target {
//@@ fn file=fe2o3-amqp/src/link/target_archetype.rs impl=`impl VerifyTargetArchetype for Target` name=verify_as_sender as=target_verify_as_sender
//@@ spec
    ensures
        r is Err ==> terminus_cond_s(r->Err_0),       // [C13.attach.terminus-check-reports-its-own-conditions]
        (other.dynamic && other.address is None) || (!other.dynamic && other.dynamic_node_properties is Some) <==> r is Err,       // [C15.attach.dynamic-target-without-address-refused]
        r is Err ==> (r->Err_0 is TargetAddressIsNoneWhenDynamicIsTrue <==> other.dynamic),
//@@ end

//@@ fn file=fe2o3-amqp/src/link/target_archetype.rs impl=`impl VerifyTargetArchetype for Target` name=verify_as_receiver as=target_verify_as_receiver
//@@ spec
    ensures
        r is Err ==> terminus_cond_r(r->Err_0),       // [C13.attach.terminus-check-reports-its-own-conditions]
        (other.dynamic && other.address is Some) || (!other.dynamic && other.dynamic_node_properties is Some) <==> r is Err,       // [C15.attach.dynamic-target-with-address-refused]
        r is Err ==> (r->Err_0 is TargetAddressIsSomeWhenDynamicIsTrue <==> other.dynamic),
//@@ end
}

} // verus!
fn main() {}
