// ---- common prelude: stand-ins for std / third-party containers and leaf types (TRUSTED) ----
//@@ trusted HashMap<K,V> stand-in: std::collections::HashMap modelled as Map<K,V> (new/insert/remove/get/get_mut/contains_key/len; `values()` visits every key exactly once in some fixed order, R29b); K's Eq+Hash assumed to agree with structural equality
//@@ trusted Slab<T> stand-in: slab::Slab modelled as Map<usize,T>; vacant_entry().key() is not in the domain; insert adds exactly that key; indexing `slab[k]` requires k occupied (it panics otherwise)
//@@ trusted derived Clone impls return a value equal to self

#[verifier::external_body]
#[verifier::reject_recursive_types(K)]
#[verifier::reject_recursive_types(V)]
pub struct HashMap<K, V> { m: std::collections::HashMap<u8, (K, V)> }

impl<K, V> View for HashMap<K, V> {
    type V = Map<K, V>;
    uninterp spec fn view(&self) -> Map<K, V>;
}

impl<K, V> HashMap<K, V> {
    #[verifier::external_body]
    pub fn new() -> (r: Self)
        ensures r@ == Map::<K, V>::empty(),
    { unimplemented!() }

    #[verifier::external_body]
    pub fn insert(&mut self, k: K, v: V) -> (r: Option<V>)
        ensures
            final(self)@ == old(self)@.insert(k, v),
            match r { Some(o) => old(self)@.contains_key(k) && o == old(self)@[k], None => !old(self)@.contains_key(k) },
    { unimplemented!() }

    #[verifier::external_body]
    pub fn remove(&mut self, k: &K) -> (r: Option<V>)
        ensures
            final(self)@ == old(self)@.remove(*k),
            match r { Some(v) => old(self)@.contains_key(*k) && v == old(self)@[*k], None => !old(self)@.contains_key(*k) },
    { unimplemented!() }

    #[verifier::external_body]
    pub fn get(&self, k: &K) -> (r: Option<&V>)
        ensures
            match r { Some(v) => self@.contains_key(*k) && *v == self@[*k], None => !self@.contains_key(*k) },
    { unimplemented!() }

    #[verifier::external_body]
    pub fn get_mut(&mut self, k: &K) -> (r: Option<&mut V>)
        ensures
            match r {
                Some(v) => old(self)@.contains_key(*k) && *v == old(self)@[*k]
                    && final(self)@ == old(self)@.insert(*k, *final(v)),
                None => !old(self)@.contains_key(*k) && final(self)@ == old(self)@,
            },
    { unimplemented!() }

    #[verifier::external_body]
    pub fn contains_key(&self, k: &K) -> (r: bool)
        ensures r == self@.contains_key(*k),
    { unimplemented!() }

    /// the order in which `values()` / `iter()` visit the map: some sequence of its keys, each exactly once (R29b)
    pub uninterp spec fn order(&self) -> Seq<K>;
    #[verifier::external_body]
    pub fn len(&self) -> (r: usize)
        ensures r == self.order().len(), self.order().no_duplicates(),
            forall|k: K| self@.contains_key(k) <==> #[trigger] self.order().contains(k),
    { unimplemented!() }
    /// the i-th step of `values()`
    #[verifier::external_body]
    pub fn value_at(&self, i: usize) -> (r: &V)
        requires i < self.order().len(),
        ensures self@.contains_key(self.order()[i as int]), *r == self@[self.order()[i as int]],
    { unimplemented!() }
}

// slab::Slab<T>
#[verifier::external_body]
#[verifier::reject_recursive_types(T)]
pub struct Slab<T> { m: Vec<T> }

impl<T> View for Slab<T> {
    type V = Map<usize, T>;
    uninterp spec fn view(&self) -> Map<usize, T>;
}
pub uninterp spec fn slab_len<T>(m: Map<usize, T>) -> nat;
impl<T> Slab<T> {
    #[verifier::external_body]
    pub fn new() -> (r: Self) ensures r@ == Map::<usize, T>::empty() { unimplemented!() }
    /// number of occupied entries
    #[verifier::external_body]
    pub fn len(&self) -> (r: usize) ensures r == slab_len(self@) { unimplemented!() }
    /// stores the value under SOME vacant key and returns it (which one is up to the slab: the lowest free slot, not necessarily len())
    #[verifier::external_body]
    pub fn insert(&mut self, v: T) -> (r: usize)
        ensures !old(self)@.contains_key(r), final(self)@ == old(self)@.insert(r, v),
    { unimplemented!() }
}
/// `slab[key]` panics on a vacant key: the key must be occupied
impl<T> vstd::std_specs::core::IndexSpecImpl<usize> for Slab<T> {
    open spec fn index_req(&self, i: &usize) -> bool { self@.contains_key(*i) }
}
impl<T> core::ops::Index<usize> for Slab<T> {
    type Output = T;
    #[verifier::external_body]
    fn index(&self, i: usize) -> (r: &T)
        ensures *r == self@[i],
    { unimplemented!() }
}

#[verifier::reject_recursive_types(T)]
pub struct VacantEntry<'a, T> { pub slab: &'a mut Slab<T>, pub k: Ghost<usize> }

impl<'a, T> VacantEntry<'a, T> {
    #[verifier::external_body]
    pub fn key(&self) -> (r: usize)
        ensures r == self.k@,
    { unimplemented!() }

    #[verifier::external_body]
    pub fn insert(self, v: T)
        ensures final(self.slab)@ == old(self.slab)@.insert(self.k@, v),
    { unimplemented!() }
}

impl<T> Slab<T> {
    /// the key `vacant_entry` would hand out next (never an occupied one)
    pub uninterp spec fn spec_vacant_key(&self) -> usize;

    #[verifier::external_body]
    pub fn vacant_entry(&mut self) -> (e: VacantEntry<'_, T>)
        ensures
            *e.slab == *old(self),
            *final(self) == *final(e.slab),
            e.k@ == old(self).spec_vacant_key(),
            !old(self)@.contains_key(e.k@),
    { unimplemented!() }

    #[verifier::external_body]
    pub fn try_remove(&mut self, k: usize) -> (r: Option<T>)
        ensures
            final(self)@ == old(self)@.remove(k),
            match r { Some(v) => old(self)@.contains_key(k) && v == old(self)@[k], None => !old(self)@.contains_key(k) },
    { unimplemented!() }

    #[verifier::external_body]
    pub fn remove(&mut self, k: usize) -> (r: T)
        requires old(self)@.contains_key(k),   // slab::Slab::remove panics on a vacant key
        ensures final(self)@ == old(self)@.remove(k), r == old(self)@[k],
    { unimplemented!() }

    #[verifier::external_body]
    pub fn contains(&self, k: usize) -> (r: bool)
        ensures r == self@.contains_key(k),
    { unimplemented!() }

    #[verifier::external_body]
    pub fn get(&self, k: usize) -> (r: Option<&T>)
        ensures match r { Some(v) => self@.contains_key(k) && *v == self@[k], None => !self@.contains_key(k) },
    { unimplemented!() }

    #[verifier::external_body]
    pub fn get_mut(&mut self, k: usize) -> (r: Option<&mut T>)
        ensures
            match r {
                Some(v) => old(self)@.contains_key(k) && *v == old(self)@[k]
                    && final(self)@ == old(self)@.insert(k, *final(v)),
                None => !old(self)@.contains_key(k) && final(self)@ == old(self)@,
            },
    { unimplemented!() }
}

pub assume_specification<'a, T: Copy> [std::option::Option::<&'a T>::copied] (o: std::option::Option<&'a T>) -> (r: std::option::Option<T>)
    ensures r == (match o { Some(x) => Some(*x), None => None::<T> });

pub assume_specification<T, A: std::alloc::Allocator> [std::collections::VecDeque::<T, A>::is_empty] (q: &std::collections::VecDeque<T, A>) -> (r: bool)
    ensures r == (q@.len() == 0);

/// core::mem::replace (not used by the code under contract today; present so that a change introducing it is decided, not undecided)
pub assume_specification<T> [core::mem::replace::<T>] (dest: &mut T, src: T) -> (r: T)
    ensures *final(dest) == src, r == *old(dest);

// serial / wrapping arithmetic on 32-bit sequence numbers (RFC 1982 as used by AMQP 1.0)
pub open spec fn add32(a: u32, b: int) -> u32 { ((a as int + b) % 0x1_0000_0000) as u32 }
pub open spec fn sub32(a: u32, b: u32) -> u32 { ((a as int - b as int) % 0x1_0000_0000) as u32 }

/// R35: `v.extend(x)` (this Verus has no specification for Vec::extend): the elements x yields are appended in order -- an Option yields none or one, a Vec all of its elements
pub trait IntoSeqS<T>: Sized { spec fn seq_of(self) -> Seq<T>; }
impl<T> IntoSeqS<T> for Option<T> { open spec fn seq_of(self) -> Seq<T> { match self { Some(x) => seq![x], None => Seq::<T>::empty() } } }
impl<T> IntoSeqS<T> for Vec<T> { open spec fn seq_of(self) -> Seq<T> { self@ } }
#[verifier::external_body]
pub fn vec_extend_s<T, I: IntoSeqS<T>>(v: &mut Vec<T>, it: I)
    ensures final(v)@ == old(v)@ + it.seq_of(),
{ unimplemented!() }
