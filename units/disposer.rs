//@@ unit DISPOSER
#![feature(allocator_api)]
#![allow(unused_imports, unused_variables, dead_code, unused_mut, unused_parens)]
use vstd::prelude::*;

verus! {

//@@ trusted sharing is modelled by IDENTITY: every reference-counted cell (Arc<..>, the flow-state handle, the unsettled-map handle, an mpsc::Sender) is a stand-in with a ghost identity; `.clone()` / `Arc::clone(&x)` yield a handle of the SAME identity, `Arc::new(..)` (and every other constructor) yields a handle whose identity is unconstrained, i.e. not provably the same. What the cells hold and how they are updated is the business of units LINKFLOW / LINK
//@@ trusted CreditMode, ReceiverSettleMode, Option<OutputHandle> are plain values with value-equal Clone

macro_rules! shared {
    ($($n:ident),*) => { verus!{ $(
        #[verifier::external_body]
        pub struct $n { _p: u8 }
        impl $n { pub uninterp spec fn id(&self) -> int; }
        impl Clone for $n { #[verifier::external_body] fn clone(&self) -> (r: Self) ensures r.id() == self.id() { unimplemented!() } }
    )* } }
}
macro_rules! plain {
    ($($n:ident),*) => { verus!{ $(
        #[verifier::external_body]
        pub struct $n { _p: u8 }
        impl Clone for $n { #[verifier::external_body] fn clone(&self) -> (r: Self) ensures r == *self { unimplemented!() } }
    )* } }
}
shared!(LinkFrameTx, ArcReceiverUnsettledMap, ReceiverFlowState, ArcAtomicU32, ArcStopReason);
plain!(ReceiverSettleMode, OptOutputHandle, CreditMode);
/// `Arc::clone(&x)` keeps the identity; `Arc::new(..)` makes a NEW cell (identity unconstrained)
pub struct Arc {}
pub struct AtomicU32 { pub v: u32 }
pub enum Ordering { Relaxed, Acquire, Release, AcqRel, SeqCst }
impl Arc {
    #[verifier::external_body]
    pub fn clone(x: &ArcAtomicU32) -> (r: ArcAtomicU32) ensures r.id() == x.id() { unimplemented!() }
    #[verifier::external_body]
    pub fn new(x: AtomicU32) -> (r: ArcAtomicU32) { unimplemented!() }
}
impl AtomicU32 { pub fn new(v: u32) -> (r: Self) { AtomicU32 { v } } }
impl ArcAtomicU32 {
    #[verifier::external_body]
    pub fn load(&self, o: Ordering) -> (r: u32) { unimplemented!() }
}

// the fields `disposer` reads (R11)
pub struct ReceiverLinkS {
    pub unsettled: ArcReceiverUnsettledMap,
    pub rcv_settle_mode: ReceiverSettleMode,
    pub flow_state: ReceiverFlowState,
    pub output_handle: OptOutputHandle,
    pub session_stop_reason: ArcStopReason,
}
pub struct ReceiverInner {
    pub link: ReceiverLinkS,
    pub credit_mode: CreditMode,
    pub processed: ArcAtomicU32,
    pub outgoing: LinkFrameTx,
}
//@@ type file=fe2o3-amqp/src/link/receiver.rs kind=struct name=ReceiverDisposer
//@@ subst `mpsc::Sender<LinkFrame>` => `LinkFrameTx` rule=R9
//@@ subst `Option<OutputHandle>` => `OptOutputHandle` rule=R11
//@@ subst `Arc<AtomicU32>` => `ArcAtomicU32` rule=R8
//@@ subst `Arc<OnceLock<SessionStopReason>>` => `ArcStopReason` rule=R8
//@@ end
pub struct Receiver { pub inner: ReceiverInner }

impl Receiver {
//@@ fn file=fe2o3-amqp/src/link/receiver.rs impl=`impl Receiver` name=disposer
//@@ spec
    ensures
        r.processed.id() == self.inner.processed.id(),                        // [C09.disposer.counts-on-the-receivers-counter] dispositions made through a disposer count towards the SAME `processed` counter as the receiver's own (and every other disposer's): Auto(n) re-issues credit once n/2 deliveries have been disposed of, through whichever handles -- a private counter per disposer never reaches the threshold when the application takes a disposer per delivery, and the sender stalls after n deliveries
        r.flow_state.id() == self.inner.link.flow_state.id(),                  // [C09.disposer.shares-flow-state] the top-up flow it sends reports the link's own delivery-count / credit
        r.unsettled.id() == self.inner.link.unsettled.id(),                    // [C02.disposer.shares-unsettled-map] it settles in the receiver's unsettled map, so that after settlement the receiver does not retain the delivery
        r.outgoing.id() == self.inner.outgoing.id(),                           // [C02.disposer.same-outgoing-channel] its dispositions travel the link's own channel to the session
        r.session_stop_reason.id() == self.inner.link.session_stop_reason.id(), // [C14.disposer.reads-the-published-stop-reason]
        r.credit_mode == self.inner.credit_mode, r.rcv_settle_mode == self.inner.link.rcv_settle_mode, r.output_handle == self.inner.link.output_handle,
//@@ end
}

} // verus!
fn main() {}
