//@@ unit VISITENUM
#![feature(allocator_api)]
#![allow(unused_imports, unused_variables, dead_code, unused_mut, unused_parens)]
use vstd::prelude::*;

verus! {

//@@ trusted written by tools/mkvisitenum.py from a table. serde's EnumAccess / VariantAccess (serde_amqp::de::VariantAccess: unit DEENTRY) are stand-ins that RECORD what is done with them: `variant()` reads the identifier (which Field it yields is the peer's choice), `newtype_variant()` decodes the variant's content -- consuming its octets -- as the type asked for, `unit_variant()` consumes nothing (DEENTRY [C03.enum.unit-variant-has-no-content]); the payload types are opaque; the log lives behind the `&mut` the access objects hold (Verus' prophecy encoding)
pub struct ErrS { pub k: u8 }
pub trait ErrInto<T>: Sized { spec fn conv(self) -> T; fn err_into(self) -> (r: T) ensures r == self.conv(); }
impl ErrInto<ErrS> for ErrS { open spec fn conv(self) -> ErrS { self } fn err_into(self) -> (r: ErrS) { let e = self; assert(e == <ErrS as ErrInto<ErrS>>::conv(self)); e } }
/// what was done with the access objects: the identifier read, the content decoded as payload kind k, a unit variant taken (nothing consumed)
pub enum Op { Variant, Newtype(int), Unit }
pub trait Payload: Sized { spec fn kind() -> int; }

// ================================================================ DeliveryState (fe2o3-amqp-types/src/messaging/delivery_state/delivery_state_impl.rs)
pub mod m_delivery_state {
use super::*;
pub struct Received {}
impl Payload for Received { open spec fn kind() -> int { 0 } }
pub struct Accepted {}
impl Payload for Accepted { open spec fn kind() -> int { 1 } }
pub struct Rejected {}
impl Payload for Rejected { open spec fn kind() -> int { 2 } }
pub struct Released {}
impl Payload for Released { open spec fn kind() -> int { 3 } }
pub struct Modified {}
impl Payload for Modified { open spec fn kind() -> int { 4 } }
pub struct Declared {}
impl Payload for Declared { open spec fn kind() -> int { 5 } }
pub struct TransactionalState {}
impl Payload for TransactionalState { open spec fn kind() -> int { 6 } }
//@@ type file=fe2o3-amqp-types/src/messaging/delivery_state/delivery_state_impl.rs kind=enum name=Field
//@@ end
//@@ type file=fe2o3-amqp-types/src/messaging/delivery_state/mod.rs kind=enum name=DeliveryState
//@@ end
pub struct EnumAccS<'a> { pub log: &'a mut Ghost<Seq<Op>>, pub field: Ghost<Field> }
pub struct VariantS<'a> { pub log: &'a mut Ghost<Seq<Op>> }
impl<'a> EnumAccS<'a> {
    #[verifier::external_body]
    pub fn variant(self) -> (r: Result<(Field, VariantS<'a>), ErrS>)
        ensures r is Ok ==> r->Ok_0.0 == self.field@ && (*r->Ok_0.1.log)@ == (*old(self.log))@.push(Op::Variant) && *final(self.log) == *final(r->Ok_0.1.log),
            r is Err ==> *final(self.log) == *old(self.log),
    { unimplemented!() }
}
impl<'a> VariantS<'a> {
    #[verifier::external_body]
    pub fn newtype_variant<T: Payload>(self) -> (r: Result<T, ErrS>)
        ensures (*final(self.log))@ == (*old(self.log))@.push(Op::Newtype(T::kind())),
    { unimplemented!() }
    #[verifier::external_body]
    pub fn unit_variant(self) -> (r: Result<(), ErrS>)
        ensures (*final(self.log))@ == (*old(self.log))@.push(Op::Unit),
    { unimplemented!() }
}
pub struct Visitor {}
impl Visitor {
//@@ fn file=fe2o3-amqp-types/src/messaging/delivery_state/delivery_state_impl.rs impl=`impl<'de> de::Visitor<'de> for Visitor` name=visit_enum id=delivery_state::visit_enum
//@@ qmark
//@@ generics <'a>
//@@ nowhere
//@@ param data : EnumAccS<'a>
//@@ ret Result<DeliveryState, ErrS>
//@@ spec
    ensures
        r is Ok ==> (match data.field@ {
            Field::Received => r->Ok_0 is Received && (*final(data.log))@ == (*old(data.log))@.push(Op::Variant).push(Op::Newtype(0)),
            Field::Accepted => r->Ok_0 is Accepted && (*final(data.log))@ == (*old(data.log))@.push(Op::Variant).push(Op::Newtype(1)),
            Field::Rejected => r->Ok_0 is Rejected && (*final(data.log))@ == (*old(data.log))@.push(Op::Variant).push(Op::Newtype(2)),
            Field::Released => r->Ok_0 is Released && (*final(data.log))@ == (*old(data.log))@.push(Op::Variant).push(Op::Newtype(3)),
            Field::Modified => r->Ok_0 is Modified && (*final(data.log))@ == (*old(data.log))@.push(Op::Variant).push(Op::Newtype(4)),
            Field::Declared => r->Ok_0 is Declared && (*final(data.log))@ == (*old(data.log))@.push(Op::Variant).push(Op::Newtype(5)),
            Field::TransactionalState => r->Ok_0 is TransactionalState && (*final(data.log))@ == (*old(data.log))@.push(Op::Variant).push(Op::Newtype(6)),
        }),       // [C03.enum.variant-content-consumed-once] [C05.enum.variant-content-consumed-once] [C20.enum.variant-content-consumed-once] [C02.enum.variant-content-consumed-once] the variant the descriptor names becomes the same-named variant of the result, and its content is decoded -- its octets consumed -- exactly once, as the type of THAT variant: what follows the value on the wire (a transfer's payload behind its state, the next field of a disposition) starts where the value ends
//@@ end
}
} // mod

// ================================================================ Outcome (fe2o3-amqp-types/src/messaging/delivery_state/outcome_impl.rs)
pub mod m_outcome {
use super::*;
pub struct Accepted {}
impl Payload for Accepted { open spec fn kind() -> int { 0 } }
pub struct Rejected {}
impl Payload for Rejected { open spec fn kind() -> int { 1 } }
pub struct Released {}
impl Payload for Released { open spec fn kind() -> int { 2 } }
pub struct Modified {}
impl Payload for Modified { open spec fn kind() -> int { 3 } }
pub struct Declared {}
impl Payload for Declared { open spec fn kind() -> int { 4 } }
//@@ type file=fe2o3-amqp-types/src/messaging/delivery_state/outcome_impl.rs kind=enum name=Field
//@@ end
//@@ type file=fe2o3-amqp-types/src/messaging/delivery_state/mod.rs kind=enum name=Outcome
//@@ end
pub struct EnumAccS<'a> { pub log: &'a mut Ghost<Seq<Op>>, pub field: Ghost<Field> }
pub struct VariantS<'a> { pub log: &'a mut Ghost<Seq<Op>> }
impl<'a> EnumAccS<'a> {
    #[verifier::external_body]
    pub fn variant(self) -> (r: Result<(Field, VariantS<'a>), ErrS>)
        ensures r is Ok ==> r->Ok_0.0 == self.field@ && (*r->Ok_0.1.log)@ == (*old(self.log))@.push(Op::Variant) && *final(self.log) == *final(r->Ok_0.1.log),
            r is Err ==> *final(self.log) == *old(self.log),
    { unimplemented!() }
}
impl<'a> VariantS<'a> {
    #[verifier::external_body]
    pub fn newtype_variant<T: Payload>(self) -> (r: Result<T, ErrS>)
        ensures (*final(self.log))@ == (*old(self.log))@.push(Op::Newtype(T::kind())),
    { unimplemented!() }
    #[verifier::external_body]
    pub fn unit_variant(self) -> (r: Result<(), ErrS>)
        ensures (*final(self.log))@ == (*old(self.log))@.push(Op::Unit),
    { unimplemented!() }
}
pub struct Visitor {}
impl Visitor {
//@@ fn file=fe2o3-amqp-types/src/messaging/delivery_state/outcome_impl.rs impl=`impl<'de> de::Visitor<'de> for Visitor` name=visit_enum id=outcome::visit_enum
//@@ qmark
//@@ generics <'a>
//@@ nowhere
//@@ param data : EnumAccS<'a>
//@@ ret Result<Outcome, ErrS>
//@@ spec
    ensures
        r is Ok ==> (match data.field@ {
            Field::Accepted => r->Ok_0 is Accepted && (*final(data.log))@ == (*old(data.log))@.push(Op::Variant).push(Op::Newtype(0)),
            Field::Rejected => r->Ok_0 is Rejected && (*final(data.log))@ == (*old(data.log))@.push(Op::Variant).push(Op::Newtype(1)),
            Field::Released => r->Ok_0 is Released && (*final(data.log))@ == (*old(data.log))@.push(Op::Variant).push(Op::Newtype(2)),
            Field::Modified => r->Ok_0 is Modified && (*final(data.log))@ == (*old(data.log))@.push(Op::Variant).push(Op::Newtype(3)),
            Field::Declared => r->Ok_0 is Declared && (*final(data.log))@ == (*old(data.log))@.push(Op::Variant).push(Op::Newtype(4)),
        }),       // [C03.enum.variant-content-consumed-once] [C05.enum.variant-content-consumed-once] [C20.enum.variant-content-consumed-once] the variant the descriptor names becomes the same-named variant of the result, and its content is decoded -- its octets consumed -- exactly once, as the type of THAT variant: what follows the value on the wire (a transfer's payload behind its state, the next field of a disposition) starts where the value ends
//@@ end
}
} // mod

// ================================================================ Performative (fe2o3-amqp-types/src/performatives/mod.rs)
pub mod m_performative {
use super::*;
pub struct Open {}
impl Payload for Open { open spec fn kind() -> int { 0 } }
pub struct Begin {}
impl Payload for Begin { open spec fn kind() -> int { 1 } }
pub struct Attach {}
impl Payload for Attach { open spec fn kind() -> int { 2 } }
pub struct Flow {}
impl Payload for Flow { open spec fn kind() -> int { 3 } }
pub struct Transfer {}
impl Payload for Transfer { open spec fn kind() -> int { 4 } }
pub struct Disposition {}
impl Payload for Disposition { open spec fn kind() -> int { 5 } }
pub struct Detach {}
impl Payload for Detach { open spec fn kind() -> int { 6 } }
pub struct End {}
impl Payload for End { open spec fn kind() -> int { 7 } }
pub struct Close {}
impl Payload for Close { open spec fn kind() -> int { 8 } }
//@@ type file=fe2o3-amqp-types/src/performatives/mod.rs kind=enum name=Field
//@@ end
//@@ type file=fe2o3-amqp-types/src/performatives/mod.rs kind=enum name=Performative
//@@ end
pub struct EnumAccS<'a> { pub log: &'a mut Ghost<Seq<Op>>, pub field: Ghost<Field> }
pub struct VariantS<'a> { pub log: &'a mut Ghost<Seq<Op>> }
impl<'a> EnumAccS<'a> {
    #[verifier::external_body]
    pub fn variant(self) -> (r: Result<(Field, VariantS<'a>), ErrS>)
        ensures r is Ok ==> r->Ok_0.0 == self.field@ && (*r->Ok_0.1.log)@ == (*old(self.log))@.push(Op::Variant) && *final(self.log) == *final(r->Ok_0.1.log),
            r is Err ==> *final(self.log) == *old(self.log),
    { unimplemented!() }
}
impl<'a> VariantS<'a> {
    #[verifier::external_body]
    pub fn newtype_variant<T: Payload>(self) -> (r: Result<T, ErrS>)
        ensures (*final(self.log))@ == (*old(self.log))@.push(Op::Newtype(T::kind())),
    { unimplemented!() }
    #[verifier::external_body]
    pub fn unit_variant(self) -> (r: Result<(), ErrS>)
        ensures (*final(self.log))@ == (*old(self.log))@.push(Op::Unit),
    { unimplemented!() }
}
pub struct Visitor {}
impl Visitor {
//@@ fn file=fe2o3-amqp-types/src/performatives/mod.rs impl=`impl<'de> de::Visitor<'de> for Visitor` name=visit_enum id=performative::visit_enum
//@@ qmark
//@@ generics <'a>
//@@ nowhere
//@@ param data : EnumAccS<'a>
//@@ ret Result<Performative, ErrS>
//@@ spec
    ensures
        r is Ok ==> (match data.field@ {
            Field::Open => r->Ok_0 is Open && (*final(data.log))@ == (*old(data.log))@.push(Op::Variant).push(Op::Newtype(0)),
            Field::Begin => r->Ok_0 is Begin && (*final(data.log))@ == (*old(data.log))@.push(Op::Variant).push(Op::Newtype(1)),
            Field::Attach => r->Ok_0 is Attach && (*final(data.log))@ == (*old(data.log))@.push(Op::Variant).push(Op::Newtype(2)),
            Field::Flow => r->Ok_0 is Flow && (*final(data.log))@ == (*old(data.log))@.push(Op::Variant).push(Op::Newtype(3)),
            Field::Transfer => r->Ok_0 is Transfer && (*final(data.log))@ == (*old(data.log))@.push(Op::Variant).push(Op::Newtype(4)),
            Field::Disposition => r->Ok_0 is Disposition && (*final(data.log))@ == (*old(data.log))@.push(Op::Variant).push(Op::Newtype(5)),
            Field::Detach => r->Ok_0 is Detach && (*final(data.log))@ == (*old(data.log))@.push(Op::Variant).push(Op::Newtype(6)),
            Field::End => r->Ok_0 is End && (*final(data.log))@ == (*old(data.log))@.push(Op::Variant).push(Op::Newtype(7)),
            Field::Close => r->Ok_0 is Close && (*final(data.log))@ == (*old(data.log))@.push(Op::Variant).push(Op::Newtype(8)),
        }),       // [C03.enum.variant-content-consumed-once] [C05.enum.variant-content-consumed-once] [C20.enum.variant-content-consumed-once] [C06.enum.variant-content-consumed-once] the variant the descriptor names becomes the same-named variant of the result, and its content is decoded -- its octets consumed -- exactly once, as the type of THAT variant: what follows the value on the wire (a transfer's payload behind its state, the next field of a disposition) starts where the value ends
//@@ end
}
} // mod

// ================================================================ Frame (fe2o3-amqp/src/frames/sasl.rs)
pub mod m_sasl_frame {
use super::*;
pub struct SaslMechanisms {}
impl Payload for SaslMechanisms { open spec fn kind() -> int { 0 } }
pub struct SaslInit {}
impl Payload for SaslInit { open spec fn kind() -> int { 1 } }
pub struct SaslChallenge {}
impl Payload for SaslChallenge { open spec fn kind() -> int { 2 } }
pub struct SaslResponse {}
impl Payload for SaslResponse { open spec fn kind() -> int { 3 } }
pub struct SaslOutcome {}
impl Payload for SaslOutcome { open spec fn kind() -> int { 4 } }
//@@ type file=fe2o3-amqp/src/frames/sasl.rs kind=enum name=Field
//@@ end
//@@ type file=fe2o3-amqp/src/frames/sasl.rs kind=enum name=Frame
//@@ end
pub struct EnumAccS<'a> { pub log: &'a mut Ghost<Seq<Op>>, pub field: Ghost<Field> }
pub struct VariantS<'a> { pub log: &'a mut Ghost<Seq<Op>> }
impl<'a> EnumAccS<'a> {
    #[verifier::external_body]
    pub fn variant(self) -> (r: Result<(Field, VariantS<'a>), ErrS>)
        ensures r is Ok ==> r->Ok_0.0 == self.field@ && (*r->Ok_0.1.log)@ == (*old(self.log))@.push(Op::Variant) && *final(self.log) == *final(r->Ok_0.1.log),
            r is Err ==> *final(self.log) == *old(self.log),
    { unimplemented!() }
}
impl<'a> VariantS<'a> {
    #[verifier::external_body]
    pub fn newtype_variant<T: Payload>(self) -> (r: Result<T, ErrS>)
        ensures (*final(self.log))@ == (*old(self.log))@.push(Op::Newtype(T::kind())),
    { unimplemented!() }
    #[verifier::external_body]
    pub fn unit_variant(self) -> (r: Result<(), ErrS>)
        ensures (*final(self.log))@ == (*old(self.log))@.push(Op::Unit),
    { unimplemented!() }
}
pub struct Visitor {}
impl Visitor {
//@@ fn file=fe2o3-amqp/src/frames/sasl.rs impl=`impl<'de> de::Visitor<'de> for Visitor` name=visit_enum id=sasl_frame::visit_enum
//@@ qmark
//@@ generics <'a>
//@@ nowhere
//@@ param data : EnumAccS<'a>
//@@ ret Result<Frame, ErrS>
//@@ spec
    ensures
        r is Ok ==> (match data.field@ {
            Field::Mechanisms => r->Ok_0 is Mechanisms && (*final(data.log))@ == (*old(data.log))@.push(Op::Variant).push(Op::Newtype(0)),
            Field::Init => r->Ok_0 is Init && (*final(data.log))@ == (*old(data.log))@.push(Op::Variant).push(Op::Newtype(1)),
            Field::Challenge => r->Ok_0 is Challenge && (*final(data.log))@ == (*old(data.log))@.push(Op::Variant).push(Op::Newtype(2)),
            Field::Response => r->Ok_0 is Response && (*final(data.log))@ == (*old(data.log))@.push(Op::Variant).push(Op::Newtype(3)),
            Field::Outcome => r->Ok_0 is Outcome && (*final(data.log))@ == (*old(data.log))@.push(Op::Variant).push(Op::Newtype(4)),
        }),       // [C03.enum.variant-content-consumed-once] [C05.enum.variant-content-consumed-once] [C19.enum.variant-content-consumed-once] the variant the descriptor names becomes the same-named variant of the result, and its content is decoded -- its octets consumed -- exactly once, as the type of THAT variant: what follows the value on the wire (a transfer's payload behind its state, the next field of a disposition) starts where the value ends
//@@ end
}
} // mod

// ================================================================ TargetArchetype (fe2o3-amqp-types/src/messaging/target.rs)
pub mod m_target_archetype {
use super::*;
pub struct Target {}
impl Payload for Target { open spec fn kind() -> int { 0 } }
pub struct Coordinator {}
impl Payload for Coordinator { open spec fn kind() -> int { 1 } }
//@@ type file=fe2o3-amqp-types/src/messaging/target.rs kind=enum name=Field
//@@ end
//@@ type file=fe2o3-amqp-types/src/messaging/target.rs kind=enum name=TargetArchetype
//@@ end
pub struct EnumAccS<'a> { pub log: &'a mut Ghost<Seq<Op>>, pub field: Ghost<Field> }
pub struct VariantS<'a> { pub log: &'a mut Ghost<Seq<Op>> }
impl<'a> EnumAccS<'a> {
    #[verifier::external_body]
    pub fn variant(self) -> (r: Result<(Field, VariantS<'a>), ErrS>)
        ensures r is Ok ==> r->Ok_0.0 == self.field@ && (*r->Ok_0.1.log)@ == (*old(self.log))@.push(Op::Variant) && *final(self.log) == *final(r->Ok_0.1.log),
            r is Err ==> *final(self.log) == *old(self.log),
    { unimplemented!() }
}
impl<'a> VariantS<'a> {
    #[verifier::external_body]
    pub fn newtype_variant<T: Payload>(self) -> (r: Result<T, ErrS>)
        ensures (*final(self.log))@ == (*old(self.log))@.push(Op::Newtype(T::kind())),
    { unimplemented!() }
    #[verifier::external_body]
    pub fn unit_variant(self) -> (r: Result<(), ErrS>)
        ensures (*final(self.log))@ == (*old(self.log))@.push(Op::Unit),
    { unimplemented!() }
}
pub struct Visitor {}
impl Visitor {
//@@ fn file=fe2o3-amqp-types/src/messaging/target.rs impl=`impl<'de> de::Visitor<'de> for Visitor` name=visit_enum id=target_archetype::visit_enum
//@@ qmark
//@@ generics <'a>
//@@ nowhere
//@@ param data : EnumAccS<'a>
//@@ ret Result<TargetArchetype, ErrS>
//@@ spec
    ensures
        r is Ok ==> (match data.field@ {
            Field::Target => r->Ok_0 is Target && (*final(data.log))@ == (*old(data.log))@.push(Op::Variant).push(Op::Newtype(0)),
            Field::Coordinator => r->Ok_0 is Coordinator && (*final(data.log))@ == (*old(data.log))@.push(Op::Variant).push(Op::Newtype(1)),
        }),       // [C03.enum.variant-content-consumed-once] [C05.enum.variant-content-consumed-once] [C18.enum.variant-content-consumed-once] the variant the descriptor names becomes the same-named variant of the result, and its content is decoded -- its octets consumed -- exactly once, as the type of THAT variant: what follows the value on the wire (a transfer's payload behind its state, the next field of a disposition) starts where the value ends
//@@ end
}
} // mod

// ================================================================ LifetimePolicy (fe2o3-amqp-types/src/messaging/lifetime_policy.rs)
pub mod m_lifetime_policy {
use super::*;
pub struct DeleteOnClose {}
impl Payload for DeleteOnClose { open spec fn kind() -> int { 0 } }
pub struct DeleteOnNoLinks {}
impl Payload for DeleteOnNoLinks { open spec fn kind() -> int { 1 } }
pub struct DeleteOnNoMessages {}
impl Payload for DeleteOnNoMessages { open spec fn kind() -> int { 2 } }
pub struct DeleteOnNoLinksOrMessages {}
impl Payload for DeleteOnNoLinksOrMessages { open spec fn kind() -> int { 3 } }
//@@ type file=fe2o3-amqp-types/src/messaging/lifetime_policy.rs kind=enum name=Field
//@@ end
//@@ type file=fe2o3-amqp-types/src/messaging/lifetime_policy.rs kind=enum name=LifetimePolicy
//@@ end
pub struct EnumAccS<'a> { pub log: &'a mut Ghost<Seq<Op>>, pub field: Ghost<Field> }
pub struct VariantS<'a> { pub log: &'a mut Ghost<Seq<Op>> }
impl<'a> EnumAccS<'a> {
    #[verifier::external_body]
    pub fn variant(self) -> (r: Result<(Field, VariantS<'a>), ErrS>)
        ensures r is Ok ==> r->Ok_0.0 == self.field@ && (*r->Ok_0.1.log)@ == (*old(self.log))@.push(Op::Variant) && *final(self.log) == *final(r->Ok_0.1.log),
            r is Err ==> *final(self.log) == *old(self.log),
    { unimplemented!() }
}
impl<'a> VariantS<'a> {
    #[verifier::external_body]
    pub fn newtype_variant<T: Payload>(self) -> (r: Result<T, ErrS>)
        ensures (*final(self.log))@ == (*old(self.log))@.push(Op::Newtype(T::kind())),
    { unimplemented!() }
    #[verifier::external_body]
    pub fn unit_variant(self) -> (r: Result<(), ErrS>)
        ensures (*final(self.log))@ == (*old(self.log))@.push(Op::Unit),
    { unimplemented!() }
}
pub struct Visitor {}
impl Visitor {
//@@ fn file=fe2o3-amqp-types/src/messaging/lifetime_policy.rs impl=`impl<'de> de::Visitor<'de> for Visitor` name=visit_enum id=lifetime_policy::visit_enum
//@@ qmark
//@@ generics <'a>
//@@ nowhere
//@@ param data : EnumAccS<'a>
//@@ ret Result<LifetimePolicy, ErrS>
//@@ spec
    ensures
        r is Ok ==> (match data.field@ {
            Field::Close => r->Ok_0 is DeleteOnClose && (*final(data.log))@ == (*old(data.log))@.push(Op::Variant).push(Op::Newtype(0)),
            Field::NoLinks => r->Ok_0 is DeleteOnNoLinks && (*final(data.log))@ == (*old(data.log))@.push(Op::Variant).push(Op::Newtype(1)),
            Field::NoMessages => r->Ok_0 is DeleteOnNoMessages && (*final(data.log))@ == (*old(data.log))@.push(Op::Variant).push(Op::Newtype(2)),
            Field::NoLinksOrMessages => r->Ok_0 is DeleteOnNoLinksOrMessages && (*final(data.log))@ == (*old(data.log))@.push(Op::Variant).push(Op::Newtype(3)),
        }),       // [C03.enum.variant-content-consumed-once] [C05.enum.variant-content-consumed-once] the variant the descriptor names becomes the same-named variant of the result, and its content is decoded -- its octets consumed -- exactly once, as the type of THAT variant: what follows the value on the wire (a transfer's payload behind its state, the next field of a disposition) starts where the value ends
//@@ end
}
} // mod

// ================================================================ ControlMessageBody (fe2o3-amqp/src/transaction/control_link_frame.rs)
pub mod m_control_message {
use super::*;
pub struct Declare {}
impl Payload for Declare { open spec fn kind() -> int { 0 } }
pub struct Discharge {}
impl Payload for Discharge { open spec fn kind() -> int { 1 } }
//@@ type file=fe2o3-amqp/src/transaction/control_link_frame.rs kind=enum name=Field
//@@ end
//@@ type file=fe2o3-amqp/src/transaction/control_link_frame.rs kind=enum name=ControlMessageBody
//@@ end
pub struct EnumAccS<'a> { pub log: &'a mut Ghost<Seq<Op>>, pub field: Ghost<Field> }
pub struct VariantS<'a> { pub log: &'a mut Ghost<Seq<Op>> }
impl<'a> EnumAccS<'a> {
    #[verifier::external_body]
    pub fn variant(self) -> (r: Result<(Field, VariantS<'a>), ErrS>)
        ensures r is Ok ==> r->Ok_0.0 == self.field@ && (*r->Ok_0.1.log)@ == (*old(self.log))@.push(Op::Variant) && *final(self.log) == *final(r->Ok_0.1.log),
            r is Err ==> *final(self.log) == *old(self.log),
    { unimplemented!() }
}
impl<'a> VariantS<'a> {
    #[verifier::external_body]
    pub fn newtype_variant<T: Payload>(self) -> (r: Result<T, ErrS>)
        ensures (*final(self.log))@ == (*old(self.log))@.push(Op::Newtype(T::kind())),
    { unimplemented!() }
    #[verifier::external_body]
    pub fn unit_variant(self) -> (r: Result<(), ErrS>)
        ensures (*final(self.log))@ == (*old(self.log))@.push(Op::Unit),
    { unimplemented!() }
}
pub struct Visitor {}
impl Visitor {
//@@ fn file=fe2o3-amqp/src/transaction/control_link_frame.rs impl=`impl<'de> de::Visitor<'de> for Visitor` name=visit_enum id=control_message::visit_enum
//@@ qmark
//@@ generics <'a>
//@@ nowhere
//@@ param data : EnumAccS<'a>
//@@ ret Result<ControlMessageBody, ErrS>
//@@ spec
    ensures
        r is Ok ==> (match data.field@ {
            Field::Declare => r->Ok_0 is Declare && (*final(data.log))@ == (*old(data.log))@.push(Op::Variant).push(Op::Newtype(0)),
            Field::Discharge => r->Ok_0 is Discharge && (*final(data.log))@ == (*old(data.log))@.push(Op::Variant).push(Op::Newtype(1)),
        }),       // [C03.enum.variant-content-consumed-once] [C05.enum.variant-content-consumed-once] [C18.enum.variant-content-consumed-once] the variant the descriptor names becomes the same-named variant of the result, and its content is decoded -- its octets consumed -- exactly once, as the type of THAT variant: what follows the value on the wire (a transfer's payload behind its state, the next field of a disposition) starts where the value ends
//@@ end
}
} // mod

} // verus!
fn main() {}
