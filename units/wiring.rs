//@@ unit WIRING
#![feature(allocator_api)]
#![allow(unused_imports, unused_variables, dead_code, unused_mut, unused_parens)]
use vstd::prelude::*;

verus! {

//@@ trusted sharing is modelled by IDENTITY (R8b): every reference-counted cell and channel end (the flow state, the unsettled map, the stop-reason cell, mpsc senders / receivers, Notify) is a stand-in with a ghost identity; `.clone()` keeps it, `Arc::new(..)` / `mpsc::channel(..)` / `Notify::new()` make a new one (the two ends of ONE channel share one identity). What the cells hold and how they are used is the business of the units named in the clauses
//@@ trusted session::allocate_link (unit HANDLES / SESSION) is a stand-in: on Ok, `registered(handle)` is the relay it was given; exchange_attach / handle_attach_error / set_credit are stand-ins (units LINKATTACH, LINKDETACH, LINKFLOW): set_credit(n) is recorded on the outgoing channel as a grant of n
//@@ trusted leaf stand-ins: names, terminus types, capabilities, properties, settle modes are opaque values with value-equal Clone; PhantomData markers are unit structs

macro_rules! shared {
    ($($n:ident),*) => { verus!{ $(
        #[verifier::external_body]
        pub struct $n { _p: u8 }
        impl $n { pub uninterp spec fn id(&self) -> int; }
        impl Clone for $n { #[verifier::external_body] fn clone(&self) -> (r: Self) ensures r.id() == self.id() { unimplemented!() } }
    )* } }
}
macro_rules! plain {
    ($($n:ident),*) => { verus!{ $(
        #[verifier::external_body]
        pub struct $n { _p: u8 }
        impl Clone for $n { #[verifier::external_body] fn clone(&self) -> (r: Self) ensures r == *self { unimplemented!() } }
    )* } }
}
shared!(LinkTx, SessCtlTx, UnsettledArc, StopArc, ProcessedArc, NotifyArc);
#[verifier::external_body]
pub struct FlowArc { _p: u8 }
impl FlowArc { pub uninterp spec fn id(&self) -> int; pub uninterp spec fn init(&self) -> LinkFlowStateInner; }
impl Clone for FlowArc { #[verifier::external_body] fn clone(&self) -> (r: Self) ensures r.id() == self.id(), r.init() == self.init() { unimplemented!() } }
plain!(Source, TargetT, Caps, Fields, SenderSettleMode, LinkIncomingItem, AttachExchange, IncompleteTransfer, OutputHandle);
pub type SequenceNo = u32;
pub type Ulong = u64;
#[verifier::external_body]
pub struct LinkRx { _p: u8 }
impl LinkRx { pub uninterp spec fn id(&self) -> int; }
/// the link's channel to the session; `granted()`: the credit grants (set_credit) sent through this handle so far
#[verifier::external_body]
pub struct OutTx { _p: u8 }
impl OutTx { pub uninterp spec fn id(&self) -> int; pub uninterp spec fn granted(&self) -> Seq<u32>; }
impl Clone for OutTx { #[verifier::external_body] fn clone(&self) -> (r: Self) ensures r.id() == self.id(), r.granted() == self.granted() { unimplemented!() } }
pub struct PhantomData {}
//@@ type file=fe2o3-amqp-types/src/definitions/rcv_settle_mode.rs kind=enum name=ReceiverSettleMode clone
//@@ attr #[derive(PartialEq, Eq, Structural)]
//@@ end
impl Default for ReceiverSettleMode { fn default() -> (r: Self) ensures r == ReceiverSettleMode::First { ReceiverSettleMode::First } }
//@@ type file=fe2o3-amqp/src/link/receiver.rs kind=enum name=CreditMode clone
//@@ end
//@@ type file=fe2o3-amqp/src/link/state.rs kind=enum name=LinkState
//@@ end
//@@ type file=fe2o3-amqp/src/link/state.rs kind=struct name=LinkFlowStateInner
//@@ end
pub mod mpsc {
    use super::*;
    /// tokio::sync::mpsc::channel: the two ends of one new channel
    #[verifier::external_body]
    pub fn channel<T>(n: usize) -> (r: (LinkTx, LinkRx)) ensures r.0.id() == r.1.id() { unimplemented!() }
}
pub struct Arc {}
pub struct RwLock {}
pub struct RwLockNone {}
impl RwLock { pub fn new(x: Option<u8>) -> (r: RwLockNone) { RwLockNone {} } }
pub struct LinkFlowState {}
pub struct FlowInit { pub inner: LinkFlowStateInner }
impl LinkFlowState {
    pub fn receiver(inner: LinkFlowStateInner) -> (r: FlowInit) ensures r.inner == inner { FlowInit { inner } }
    pub fn sender(inner: LinkFlowStateInner) -> (r: FlowInit) ensures r.inner == inner { FlowInit { inner } }
}
pub trait ArcNew: Sized { type Out; spec fn made(self, r: Self::Out) -> bool; fn arc_new(self) -> (r: Self::Out) ensures self.made(r); }
impl ArcNew for FlowInit { type Out = FlowArc; open spec fn made(self, r: FlowArc) -> bool { r.init() == self.inner } #[verifier::external_body] fn arc_new(self) -> (r: FlowArc) { unimplemented!() } }
impl ArcNew for RwLockNone { type Out = UnsettledArc; open spec fn made(self, r: UnsettledArc) -> bool { true } #[verifier::external_body] fn arc_new(self) -> (r: UnsettledArc) { unimplemented!() } }
pub struct NotifyNew {}
pub struct Notify {}
impl Notify { pub fn new() -> (r: NotifyNew) { NotifyNew {} } }
impl ArcNew for NotifyNew { type Out = NotifyArc; open spec fn made(self, r: NotifyArc) -> bool { true } #[verifier::external_body] fn arc_new(self) -> (r: NotifyArc) { unimplemented!() } }
#[verifier::external_body]
pub fn new_processed_counter() -> (r: ProcessedArc) { unimplemented!() }

/// Producer / Consumer (util): the relay's and the link's view of ONE sender flow state and ONE notifier
pub struct Producer { pub notifier: NotifyArc, pub state: FlowArc }
pub struct Consumer { pub notifier: NotifyArc, pub state: FlowArc }
impl Producer { pub fn new(notifier: NotifyArc, state: FlowArc) -> (r: Self) ensures r.notifier == notifier, r.state == state { Producer { notifier, state } } }
impl Consumer { pub fn new(notifier: NotifyArc, state: FlowArc) -> (r: Self) ensures r.notifier == notifier, r.state == state { Consumer { notifier, state } } }
pub type SenderRelayFlowState = Producer;
pub type SenderFlowState = Consumer;
pub type ReceiverRelayFlowState = FlowArc;
pub type ReceiverFlowState = FlowArc;
pub type ArcSenderUnsettledMap = UnsettledArc;
pub type ArcReceiverUnsettledMap = UnsettledArc;

pub enum LinkRelay {
    Sender { tx: LinkTx, output_handle: (), flow_state: SenderRelayFlowState, unsettled: ArcSenderUnsettledMap, receiver_settle_mode: ReceiverSettleMode },
    Receiver { tx: LinkTx, output_handle: (), flow_state: ReceiverRelayFlowState, unsettled: ArcReceiverUnsettledMap, receiver_settle_mode: ReceiverSettleMode, more: bool },
}
impl LinkRelay {
//@@ fn file=fe2o3-amqp/src/link/mod.rs impl=`impl LinkRelay<()>` name=new_sender
//@@ param tx : LinkTx
//@@ subst `Self::Sender` => `LinkRelay::Sender` rule=R2
//@@ spec
    ensures r is Sender && r->Sender_tx == tx && r->Sender_flow_state == flow_state && r->Sender_unsettled == unsettled,     // [C11.wiring.relay-as-given]
//@@ end
//@@ fn file=fe2o3-amqp/src/link/mod.rs impl=`impl LinkRelay<()>` name=new_receiver
//@@ param tx : LinkTx
//@@ subst `Self::Receiver` => `LinkRelay::Receiver` rule=R2
//@@ spec
    ensures r is Receiver && r->Receiver_tx == tx && r->Receiver_flow_state == flow_state && r->Receiver_unsettled == unsettled
        && r->Receiver_receiver_settle_mode == receiver_settle_mode                    // [C02.wiring.relay-knows-the-links-settle-mode] the relay registers deliveries for the sender's settling disposition exactly when the LINK settles second: it is given the link's own rcv-settle-mode
        && !r->Receiver_more,                                                          // [C10.wiring.relay-starts-between-deliveries]
//@@ end
}

pub enum AllocLinkError { SessionStopped, Other }
pub enum ReceiverAttachError { IllegalState, Alloc(AllocLinkError), Other(u8) }
pub enum SenderAttachError { IllegalState, Alloc(AllocLinkError), Other(u8) }
pub trait ErrInto<T>: Sized { spec fn conv(self) -> T; fn err_into(self) -> (r: T) ensures r == self.conv(); }
impl ErrInto<ReceiverAttachError> for AllocLinkError { open spec fn conv(self) -> ReceiverAttachError { ReceiverAttachError::Alloc(self) } fn err_into(self) -> (r: ReceiverAttachError) { ReceiverAttachError::Alloc(self) } }
impl ErrInto<SenderAttachError> for AllocLinkError { open spec fn conv(self) -> SenderAttachError { SenderAttachError::Alloc(self) } fn err_into(self) -> (r: SenderAttachError) { SenderAttachError::Alloc(self) } }
impl ErrInto<ReceiverAttachError> for ReceiverAttachError { open spec fn conv(self) -> ReceiverAttachError { self } fn err_into(self) -> (r: ReceiverAttachError) { let e = self; assert(e == <ReceiverAttachError as ErrInto<ReceiverAttachError>>::conv(self)); e } }
impl ErrInto<SenderAttachError> for SenderAttachError { open spec fn conv(self) -> SenderAttachError { self } fn err_into(self) -> (r: SenderAttachError) { let e = self; assert(e == <SenderAttachError as ErrInto<SenderAttachError>>::conv(self)); e } }
pub struct IllegalLinkState {}
impl ErrInto<ReceiverAttachError> for IllegalLinkState { open spec fn conv(self) -> ReceiverAttachError { ReceiverAttachError::IllegalState } fn err_into(self) -> (r: ReceiverAttachError) { ReceiverAttachError::IllegalState } }

pub struct SessionHandle { pub control: SessCtlTx, pub outgoing: OutTx, pub stop: StopArc }
impl SessionHandle { pub fn session_stop_reason(&self) -> (r: &StopArc) ensures *r == self.stop { &self.stop } }
/// the relay the session engine registered under a handle
pub uninterp spec fn registered(h: OutputHandle) -> LinkRelay;
pub mod session {
    use super::*;
    #[verifier::external_body]
    pub fn allocate_link(control: &SessCtlTx, link_name: String, link_relay: LinkRelay, stop: &StopArc) -> (r: Result<OutputHandle, AllocLinkError>)
        ensures r is Ok ==> registered(r->Ok_0) == link_relay,
    { unimplemented!() }
}

// Link<Role, T, C, M>: the fields create_link fills (all of them), C = the link's flow-state handle
pub struct LinkR {
    pub role: PhantomData, pub local_state: LinkState, pub name: String, pub output_handle: Option<OutputHandle>, pub input_handle: Option<u32>,
    pub snd_settle_mode: SenderSettleMode, pub rcv_settle_mode: ReceiverSettleMode, pub source: Option<Source>, pub target: Option<TargetT>, pub max_message_size: u64,
    pub offered_capabilities: Option<Caps>, pub desired_capabilities: Option<Caps>, pub flow_state: FlowArc, pub unsettled: UnsettledArc, pub session_stop_reason: StopArc,
    pub verify_incoming_source: bool, pub verify_incoming_target: bool,
}
pub struct LinkS {
    pub role: PhantomData, pub local_state: LinkState, pub name: String, pub output_handle: Option<OutputHandle>, pub input_handle: Option<u32>,
    pub snd_settle_mode: SenderSettleMode, pub rcv_settle_mode: ReceiverSettleMode, pub source: Option<Source>, pub target: Option<TargetT>, pub max_message_size: u64,
    pub offered_capabilities: Option<Caps>, pub desired_capabilities: Option<Caps>, pub flow_state: Consumer, pub unsettled: UnsettledArc, pub session_stop_reason: StopArc,
    pub verify_incoming_source: bool, pub verify_incoming_target: bool,
}
pub struct Exchange { pub complete: bool }
impl Exchange {
    pub fn complete_or<E>(self, e: E) -> (r: Result<(), E>) ensures self.complete ==> r is Ok, !self.complete ==> r == Err::<(), E>(e) { if self.complete { Ok(()) } else { Err(e) } }
}
impl LinkR {
    #[verifier::external_body]
    pub fn exchange_attach(&mut self, writer: &OutTx, reader: &mut LinkRx, session: &SessCtlTx, is_reattaching: bool) -> (r: Result<Exchange, ReceiverAttachError>)
        ensures final(self).flow_state == old(self).flow_state, final(self).unsettled == old(self).unsettled, final(self).session_stop_reason == old(self).session_stop_reason,
            final(self).rcv_settle_mode == old(self).rcv_settle_mode, final(self).output_handle == old(self).output_handle, final(reader).id() == old(reader).id(),
    { unimplemented!() }
    #[verifier::external_body]
    pub fn handle_attach_error(&mut self, e: ReceiverAttachError, writer: &OutTx, reader: &mut LinkRx, session: &SessCtlTx) -> (r: ReceiverAttachError) { unimplemented!() }
}
impl LinkS {
    #[verifier::external_body]
    pub fn exchange_attach(&mut self, writer: &OutTx, reader: &mut LinkRx, session: &SessCtlTx, is_reattaching: bool) -> (r: Result<Exchange, SenderAttachError>)
        ensures final(self).flow_state == old(self).flow_state, final(self).unsettled == old(self).unsettled, final(self).session_stop_reason == old(self).session_stop_reason,
            final(self).output_handle == old(self).output_handle, final(reader).id() == old(reader).id(),
    { unimplemented!() }
    #[verifier::external_body]
    pub fn handle_attach_error(&mut self, e: SenderAttachError, writer: &OutTx, reader: &mut LinkRx, session: &SessCtlTx) -> (r: SenderAttachError) { unimplemented!() }
}
pub struct ReceiverInner {
    pub link: LinkR, pub buffer_size: usize, pub credit_mode: CreditMode, pub processed: ProcessedArc, pub auto_accept: bool,
    pub session: SessCtlTx, pub outgoing: OutTx, pub incoming: LinkRx, pub incomplete_transfer: Option<IncompleteTransfer>,
}
impl ReceiverInner {
    /// ReceiverInner::set_credit (unit LINKFLOW: one flow granting exactly `credit`)
    #[verifier::external_body]
    pub fn set_credit(&mut self, credit: u32) -> (r: Result<(), IllegalLinkState>)
        ensures r is Ok ==> final(self).outgoing.granted() == old(self).outgoing.granted().push(credit), final(self).outgoing.id() == old(self).outgoing.id(),
            final(self).link == old(self).link, final(self).credit_mode == old(self).credit_mode, final(self).processed == old(self).processed, final(self).auto_accept == old(self).auto_accept,
            final(self).session == old(self).session, final(self).incoming.id() == old(self).incoming.id(), final(self).incomplete_transfer == old(self).incomplete_transfer, final(self).buffer_size == old(self).buffer_size,
    { unimplemented!() }
}
pub struct SenderInner { pub link: LinkS, pub buffer_size: usize, pub session: SessCtlTx, pub outgoing: OutTx, pub incoming: LinkRx }

// Builder<Role, T, NameState, SS, TS>: every field (R11: the type-state markers are unit structs)
pub struct BuilderR {
    pub name: String, pub snd_settle_mode: SenderSettleMode, pub rcv_settle_mode: ReceiverSettleMode, pub source: Option<Source>, pub target: Option<TargetT>,
    pub initial_delivery_count: SequenceNo, pub max_message_size: Option<Ulong>, pub offered_capabilities: Option<Caps>, pub desired_capabilities: Option<Caps>,
    pub properties: Option<Fields>, pub buffer_size: usize, pub credit_mode: CreditMode, pub auto_accept: bool, pub verify_incoming_source: bool, pub verify_incoming_target: bool,
}
impl BuilderR {
//@@ fn file=fe2o3-amqp/src/link/builder.rs impl=`impl<Role, T, NameState, SS, TS> Builder<Role, T, NameState, SS, TS>` name=create_link as=create_link_r
//@@ generics
//@@ param unsettled : UnsettledArc
//@@ param flow_state_consumer : FlowArc
//@@ param session_stop_reason : StopArc
//@@ ret LinkR
//@@ subst `Link::<Role, T, C, M> {` => `LinkR {` rule=R7
//@@ subst `role: PhantomData,` => `role: PhantomData {},` rule=R11
//@@ spec
    ensures
        r.output_handle == Some(output_handle), r.flow_state == flow_state_consumer, r.unsettled == unsettled, r.session_stop_reason == session_stop_reason,   // [C11.wiring.link-as-given] the link is built around the handle, flow state, unsettled map and stop-reason cell it is handed
        r.rcv_settle_mode == self.rcv_settle_mode, r.snd_settle_mode == self.snd_settle_mode, r.local_state is Unattached, r.input_handle is None,
        r.max_message_size == (if self.max_message_size is Some { self.max_message_size->Some_0 } else { 0 }),
//@@ end

//@@ fn file=fe2o3-amqp/src/link/builder.rs impl=`~impl<T>Builder<role::ReceiverMarker,T,WithName,WithSource,WithTarget>where` name=create_flow_state_containers as=create_flow_state_containers_r
//@@ subst `Arc::new(` => `ArcNew::arc_new(` rule=R8b
//@@ spec
    ensures
        r.0.id() == r.1.id(),                                                                                      // [C09.wiring.relay-and-link-share-the-flow-state]
        r.0.init().delivery_count == old(self).initial_delivery_count && r.0.init().link_credit == 0 && !r.0.init().drain && r.0.init().available == 0,   // [C09.wiring.initial-flow-state] a new receiving link starts with zero credit issued, not draining
        final(self).rcv_settle_mode == old(self).rcv_settle_mode, final(self).credit_mode == old(self).credit_mode, final(self).auto_accept == old(self).auto_accept,
        final(self).buffer_size == old(self).buffer_size, final(self).name == old(self).name, final(self).snd_settle_mode == old(self).snd_settle_mode, final(self).max_message_size == old(self).max_message_size,
//@@ end

//@@ fn file=fe2o3-amqp/src/link/builder.rs impl=`~impl<T>Builder<role::ReceiverMarker,T,WithName,WithSource,WithTarget>where` name=attach_inner as=attach_inner_r
//@@ qmark
//@@ generics
//@@ param session : &mut SessionHandle
//@@ ret Result<ReceiverInner, ReceiverAttachError>
//@@ subst `(mut self,` => `(mut this: BuilderR,` rule=R2
//@@ subst `self.create_flow_state_containers()` => `this.create_flow_state_containers_r()` rule=R2
//@@ subst `self.create_link(` => `this.create_link_r(` rule=R2
//@@ subst `self.` => `this.` rule=R2
//@@ subst `std::sync::Arc::new(std::sync::atomic::AtomicU32::new(0))` => `new_processed_counter()` rule=R8b
//@@ subst `Arc::new(` => `ArcNew::arc_new(` rule=R8b
//@@ spec
    ensures
        final(session).control.id() == old(session).control.id() && final(session).outgoing.id() == old(session).outgoing.id() && final(session).stop.id() == old(session).stop.id(),
        r is Ok ==> r->Ok_0.link.output_handle is Some && registered(r->Ok_0.link.output_handle->Some_0) is Receiver,
        r is Ok ==> registered(r->Ok_0.link.output_handle->Some_0)->Receiver_tx.id() == r->Ok_0.incoming.id(),                       // [C11.wiring.relay-feeds-this-links-queue] [C01.wiring.relay-feeds-this-links-queue] the relay registered under the link's handle forwards the peer's frames into THIS endpoint's queue
        r is Ok ==> registered(r->Ok_0.link.output_handle->Some_0)->Receiver_unsettled.id() == r->Ok_0.link.unsettled.id(),          // [C02.wiring.relay-and-link-share-the-unsettled-map] the sender's settling disposition (applied by the relay, in the session task) settles in the map the link and its disposers read
        r is Ok ==> registered(r->Ok_0.link.output_handle->Some_0)->Receiver_flow_state.id() == r->Ok_0.link.flow_state.id(),        // [C09.wiring.relay-and-link-share-the-flow-state] the sender's flow frames (applied by the relay) reach the delivery-count the link reports and enforces
        r is Ok ==> registered(r->Ok_0.link.output_handle->Some_0)->Receiver_receiver_settle_mode == this.rcv_settle_mode && r->Ok_0.link.rcv_settle_mode == this.rcv_settle_mode,   // [C02.wiring.relay-knows-the-links-settle-mode]
        r is Ok ==> r->Ok_0.link.session_stop_reason.id() == old(session).stop.id(),                                                 // [C14.wiring.link-reads-the-sessions-stop-reason] the cell the link reads when its channel closes is the cell the session engine publishes into
        r is Ok ==> r->Ok_0.outgoing.id() == old(session).outgoing.id() && r->Ok_0.session.id() == old(session).control.id(),       // [C13.wiring.link-writes-to-its-session]
        r is Ok ==> r->Ok_0.credit_mode == this.credit_mode && r->Ok_0.auto_accept == this.auto_accept && r->Ok_0.incomplete_transfer is None,
        r is Ok && this.credit_mode is Auto ==> r->Ok_0.outgoing.granted() == old(session).outgoing.granted().push(this.credit_mode->Auto_0),   // [C09.attach.auto-mode-issues-its-credit] in automatic credit mode the link grants its credit as soon as it is attached: without this first grant a sender that respects credit never sends anything
        r is Ok && this.credit_mode is Manual ==> r->Ok_0.outgoing.granted() == old(session).outgoing.granted(),
//@@ end
}

pub struct BuilderS {
    pub name: String, pub snd_settle_mode: SenderSettleMode, pub rcv_settle_mode: ReceiverSettleMode, pub source: Option<Source>, pub target: Option<TargetT>,
    pub initial_delivery_count: SequenceNo, pub max_message_size: Option<Ulong>, pub offered_capabilities: Option<Caps>, pub desired_capabilities: Option<Caps>,
    pub properties: Option<Fields>, pub buffer_size: usize, pub credit_mode: CreditMode, pub auto_accept: bool, pub verify_incoming_source: bool, pub verify_incoming_target: bool,
}
impl BuilderS {
//@@ fn file=fe2o3-amqp/src/link/builder.rs impl=`impl<Role, T, NameState, SS, TS> Builder<Role, T, NameState, SS, TS>` name=create_link as=create_link_s
//@@ generics
//@@ param unsettled : UnsettledArc
//@@ param flow_state_consumer : Consumer
//@@ param session_stop_reason : StopArc
//@@ ret LinkS
//@@ subst `Link::<Role, T, C, M> {` => `LinkS {` rule=R7
//@@ subst `role: PhantomData,` => `role: PhantomData {},` rule=R11
//@@ spec
    ensures
        r.output_handle == Some(output_handle), r.flow_state == flow_state_consumer, r.unsettled == unsettled, r.session_stop_reason == session_stop_reason,   // [C11.wiring.link-as-given]
        r.rcv_settle_mode == self.rcv_settle_mode, r.snd_settle_mode == self.snd_settle_mode, r.local_state is Unattached, r.input_handle is None,
//@@ end

//@@ fn file=fe2o3-amqp/src/link/builder.rs impl=`~impl<T>Builder<role::SenderMarker,T,WithName,WithSource,WithTarget>where` name=create_flow_state_containers as=create_flow_state_containers_s
//@@ subst `Arc::new(` => `ArcNew::arc_new(` rule=R8b
//@@ spec
    ensures
        r.0.state.id() == r.1.state.id() && r.0.notifier.id() == r.1.notifier.id(),                                 // [C08.wiring.relay-and-link-share-the-flow-state] [C08.wiring.grant-wakes-this-links-waiter]
        r.0.state.init().delivery_count == old(self).initial_delivery_count && r.0.state.init().initial_delivery_count == old(self).initial_delivery_count
            && r.0.state.init().link_credit == 0 && !r.0.state.init().drain,                                       // [C08.wiring.initial-flow-state] a new sending link has NO credit until the receiver grants some; its delivery-count starts at the initial-delivery-count it announces in its attach
        final(self).rcv_settle_mode == old(self).rcv_settle_mode, final(self).buffer_size == old(self).buffer_size, final(self).name == old(self).name,
        final(self).snd_settle_mode == old(self).snd_settle_mode, final(self).max_message_size == old(self).max_message_size,
//@@ end

//@@ fn file=fe2o3-amqp/src/link/builder.rs impl=`~impl<T>Builder<role::SenderMarker,T,WithName,WithSource,WithTarget>where` name=attach_inner as=attach_inner_s
//@@ qmark
//@@ generics
//@@ param session : &mut SessionHandle
//@@ ret Result<SenderInner, SenderAttachError>
//@@ subst `(mut self,` => `(mut this: BuilderS,` rule=R2
//@@ subst `self.create_flow_state_containers()` => `this.create_flow_state_containers_s()` rule=R2
//@@ subst `self.create_link(` => `this.create_link_s(` rule=R2
//@@ subst `self.` => `this.` rule=R2
//@@ subst `Arc::new(` => `ArcNew::arc_new(` rule=R8b
//@@ spec
    ensures
        r is Ok ==> r->Ok_0.link.output_handle is Some && registered(r->Ok_0.link.output_handle->Some_0) is Sender,
        r is Ok ==> registered(r->Ok_0.link.output_handle->Some_0)->Sender_tx.id() == r->Ok_0.incoming.id(),                          // [C11.wiring.relay-feeds-this-links-queue] [C01.wiring.relay-feeds-this-links-queue]
        r is Ok ==> registered(r->Ok_0.link.output_handle->Some_0)->Sender_unsettled.id() == r->Ok_0.link.unsettled.id(),             // [C02.wiring.relay-and-link-share-the-unsettled-map] the disposition the relay receives resolves the send registered in the map the link fills
        r is Ok ==> registered(r->Ok_0.link.output_handle->Some_0)->Sender_flow_state.state.id() == r->Ok_0.link.flow_state.state.id(),      // [C08.wiring.relay-and-link-share-the-flow-state] the credit the receiver grants (applied by the relay) is the credit the link consumes
        r is Ok ==> registered(r->Ok_0.link.output_handle->Some_0)->Sender_flow_state.notifier.id() == r->Ok_0.link.flow_state.notifier.id(),   // [C08.wiring.grant-wakes-this-links-waiter] ... and the notifier the relay wakes is the one a blocked send waits on
        r is Ok ==> r->Ok_0.link.session_stop_reason.id() == old(session).stop.id(),                                                  // [C14.wiring.link-reads-the-sessions-stop-reason]
        r is Ok ==> r->Ok_0.outgoing.id() == old(session).outgoing.id() && r->Ok_0.session.id() == old(session).control.id(),        // [C13.wiring.link-writes-to-its-session]
//@@ end
}

} // verus!
fn main() {}
