//@@ unit WIRING
#![feature(allocator_api)]
#![allow(unused_imports, unused_variables, dead_code, unused_mut, unused_parens)]
use vstd::prelude::*;

verus! {

//@@ include wiringpre.rs
impl LinkRelay<()> {
//@@ fn file=fe2o3-amqp/src/link/mod.rs impl=`impl LinkRelay<()>` name=new_sender
//@@ param tx : LinkTx
//@@ subst `Self::Sender` => `LinkRelay::Sender` rule=R2
//@@ spec
    ensures r is Sender && r->Sender_tx == tx && r->Sender_flow_state == flow_state && r->Sender_unsettled == unsettled,     // [C11.wiring.relay-as-given]
//@@ end
//@@ fn file=fe2o3-amqp/src/link/mod.rs impl=`impl LinkRelay<()>` name=new_receiver
//@@ param tx : LinkTx
//@@ subst `Self::Receiver` => `LinkRelay::Receiver` rule=R2
//@@ spec
    ensures r is Receiver && r->Receiver_tx == tx && r->Receiver_flow_state == flow_state && r->Receiver_unsettled == unsettled
        && r->Receiver_receiver_settle_mode == receiver_settle_mode                    // [C02.wiring.relay-knows-the-links-settle-mode] the relay registers deliveries for the sender's settling disposition exactly when the LINK settles second: it is given the link's own rcv-settle-mode
        && !r->Receiver_more,                                                          // [C10.wiring.relay-starts-between-deliveries]
//@@ end

//@@ fn file=fe2o3-amqp/src/link/mod.rs impl=`impl LinkRelay<()>` name=with_output_handle
//@@ spec
    ensures
        self is Sender ==> r is Sender && r->Sender_tx == self->Sender_tx && r->Sender_flow_state == self->Sender_flow_state && r->Sender_unsettled == self->Sender_unsettled
            && r->Sender_output_handle == output_handle
            && r->Sender_receiver_settle_mode == self->Sender_receiver_settle_mode,          // [C02.wiring.relay-keeps-its-settle-mode-when-registered] registering a relay under its handle changes the handle only: a sending link's relay keeps the receiver's settle mode it was built with -- on the listener side nothing sets it afterwards, and a relay that has lost it never sends the settling echo a settle-second receiver waits for
        self is Receiver ==> r is Receiver && r->Receiver_tx == self->Receiver_tx && r->Receiver_flow_state == self->Receiver_flow_state && r->Receiver_unsettled == self->Receiver_unsettled
            && r->Receiver_output_handle == output_handle && r->Receiver_receiver_settle_mode == self->Receiver_receiver_settle_mode && r->Receiver_more == self->Receiver_more,   // [C11.wiring.relay-registered-as-built]
//@@ end
}

// Builder<Role, T, NameState, SS, TS>: every field (R11: the type-state markers are unit structs)
pub struct BuilderR {
    pub name: String, pub snd_settle_mode: SenderSettleMode, pub rcv_settle_mode: ReceiverSettleMode, pub source: Option<Source>, pub target: Option<TargetT>,
    pub initial_delivery_count: SequenceNo, pub max_message_size: Option<Ulong>, pub offered_capabilities: Option<Caps>, pub desired_capabilities: Option<Caps>,
    pub properties: Option<Fields>, pub buffer_size: usize, pub credit_mode: CreditMode, pub auto_accept: bool, pub verify_incoming_source: bool, pub verify_incoming_target: bool,
}
impl BuilderR {
//@@ fn file=fe2o3-amqp/src/link/builder.rs impl=`impl<Role, T, NameState, SS, TS> Builder<Role, T, NameState, SS, TS>` name=create_link as=create_link_r
//@@ generics
//@@ param unsettled : UnsettledArc
//@@ param flow_state_consumer : FlowArc
//@@ param session_stop_reason : StopArc
//@@ ret LinkR
//@@ subst `Link::<Role, T, C, M> {` => `LinkR {` rule=R7
//@@ subst `role: PhantomData,` => `role: PhantomData {},` rule=R11
//@@ spec
    ensures
        r.output_handle == Some(output_handle), r.flow_state == flow_state_consumer, r.unsettled == unsettled, r.session_stop_reason == session_stop_reason,   // [C11.wiring.link-as-given] the link is built around the handle, flow state, unsettled map and stop-reason cell it is handed
        r.rcv_settle_mode == self.rcv_settle_mode, r.snd_settle_mode == self.snd_settle_mode, r.local_state is Unattached, r.input_handle is None,
        r.max_message_size == (if self.max_message_size is Some { self.max_message_size->Some_0 } else { 0 }),
//@@ end

//@@ fn file=fe2o3-amqp/src/link/builder.rs impl=`~impl<T>Builder<role::ReceiverMarker,T,WithName,WithSource,WithTarget>where` name=create_flow_state_containers as=create_flow_state_containers_r
//@@ subst `Arc::new(` => `ArcNew::arc_new(` rule=R8b
//@@ spec
    ensures
        r.0.id() == r.1.id(),                                                                                      // [C09.wiring.relay-and-link-share-the-flow-state]
        r.0.init().delivery_count == old(self).initial_delivery_count && r.0.init().link_credit == 0 && !r.0.init().drain && r.0.init().available == 0,   // [C09.wiring.initial-flow-state] a new receiving link starts with zero credit issued, not draining
        final(self).rcv_settle_mode == old(self).rcv_settle_mode, final(self).credit_mode == old(self).credit_mode, final(self).auto_accept == old(self).auto_accept,
        final(self).buffer_size == old(self).buffer_size, final(self).name == old(self).name, final(self).snd_settle_mode == old(self).snd_settle_mode, final(self).max_message_size == old(self).max_message_size,
//@@ end

//@@ fn file=fe2o3-amqp/src/link/builder.rs impl=`~impl<T>Builder<role::ReceiverMarker,T,WithName,WithSource,WithTarget>where` name=attach_inner as=attach_inner_r
//@@ qmark
//@@ generics
//@@ param session : &mut SessionHandle
//@@ ret Result<ReceiverInner, ReceiverAttachError>
//@@ subst `(mut self,` => `(mut this: BuilderR,` rule=R2
//@@ subst `self.create_flow_state_containers()` => `this.create_flow_state_containers_r()` rule=R2
//@@ subst `self.create_link(` => `this.create_link_r(` rule=R2
//@@ subst `self.` => `this.` rule=R2
//@@ subst `std::sync::Arc::new(std::sync::atomic::AtomicU32::new(0))` => `new_processed_counter()` rule=R8b
//@@ subst `Arc::new(` => `ArcNew::arc_new(` rule=R8b
//@@ spec
    ensures
        final(session).control.id() == old(session).control.id() && final(session).outgoing.id() == old(session).outgoing.id() && final(session).stop.id() == old(session).stop.id(),
        r is Ok ==> r->Ok_0.link.output_handle is Some && registered(r->Ok_0.link.output_handle->Some_0) is Receiver,
        r is Ok ==> registered(r->Ok_0.link.output_handle->Some_0)->Receiver_tx.id() == r->Ok_0.incoming.id(),                       // [C11.wiring.relay-feeds-this-links-queue] [C01.wiring.relay-feeds-this-links-queue] the relay registered under the link's handle forwards the peer's frames into THIS endpoint's queue
        r is Ok ==> registered(r->Ok_0.link.output_handle->Some_0)->Receiver_unsettled.id() == r->Ok_0.link.unsettled.id(),          // [C02.wiring.relay-and-link-share-the-unsettled-map] the sender's settling disposition (applied by the relay, in the session task) settles in the map the link and its disposers read
        r is Ok ==> registered(r->Ok_0.link.output_handle->Some_0)->Receiver_flow_state.id() == r->Ok_0.link.flow_state.id(),        // [C09.wiring.relay-and-link-share-the-flow-state] the sender's flow frames (applied by the relay) reach the delivery-count the link reports and enforces
        r is Ok ==> registered(r->Ok_0.link.output_handle->Some_0)->Receiver_receiver_settle_mode == this.rcv_settle_mode && r->Ok_0.link.rcv_settle_mode == this.rcv_settle_mode,   // [C02.wiring.relay-knows-the-links-settle-mode]
        r is Ok ==> r->Ok_0.link.session_stop_reason.id() == old(session).stop.id(),                                                 // [C14.wiring.link-reads-the-sessions-stop-reason] the cell the link reads when its channel closes is the cell the session engine publishes into
        r is Ok ==> r->Ok_0.outgoing.id() == old(session).outgoing.id() && r->Ok_0.session.id() == old(session).control.id(),       // [C13.wiring.link-writes-to-its-session]
        r is Ok ==> r->Ok_0.credit_mode == this.credit_mode && r->Ok_0.auto_accept == this.auto_accept && r->Ok_0.incomplete_transfer is None,
        r is Ok && this.credit_mode is Auto ==> r->Ok_0.outgoing.granted() == old(session).outgoing.granted().push(this.credit_mode->Auto_0),   // [C09.attach.auto-mode-issues-its-credit] in automatic credit mode the link grants its credit as soon as it is attached: without this first grant a sender that respects credit never sends anything
        r is Ok && this.credit_mode is Manual ==> r->Ok_0.outgoing.granted() == old(session).outgoing.granted(),
//@@ end
}

pub struct BuilderS {
    pub name: String, pub snd_settle_mode: SenderSettleMode, pub rcv_settle_mode: ReceiverSettleMode, pub source: Option<Source>, pub target: Option<TargetT>,
    pub initial_delivery_count: SequenceNo, pub max_message_size: Option<Ulong>, pub offered_capabilities: Option<Caps>, pub desired_capabilities: Option<Caps>,
    pub properties: Option<Fields>, pub buffer_size: usize, pub credit_mode: CreditMode, pub auto_accept: bool, pub verify_incoming_source: bool, pub verify_incoming_target: bool,
}
impl BuilderS {
//@@ fn file=fe2o3-amqp/src/link/builder.rs impl=`impl<Role, T, NameState, SS, TS> Builder<Role, T, NameState, SS, TS>` name=create_link as=create_link_s
//@@ generics
//@@ param unsettled : UnsettledArc
//@@ param flow_state_consumer : Consumer
//@@ param session_stop_reason : StopArc
//@@ ret LinkS
//@@ subst `Link::<Role, T, C, M> {` => `LinkS {` rule=R7
//@@ subst `role: PhantomData,` => `role: PhantomData {},` rule=R11
//@@ spec
    ensures
        r.output_handle == Some(output_handle), r.flow_state == flow_state_consumer, r.unsettled == unsettled, r.session_stop_reason == session_stop_reason,   // [C11.wiring.link-as-given]
        r.rcv_settle_mode == self.rcv_settle_mode, r.snd_settle_mode == self.snd_settle_mode, r.local_state is Unattached, r.input_handle is None,
//@@ end

//@@ fn file=fe2o3-amqp/src/link/builder.rs impl=`~impl<T>Builder<role::SenderMarker,T,WithName,WithSource,WithTarget>where` name=create_flow_state_containers as=create_flow_state_containers_s
//@@ subst `Arc::new(` => `ArcNew::arc_new(` rule=R8b
//@@ spec
    ensures
        r.0.state.id() == r.1.state.id() && r.0.notifier.id() == r.1.notifier.id(),                                 // [C08.wiring.relay-and-link-share-the-flow-state] [C08.wiring.grant-wakes-this-links-waiter]
        r.0.state.init().delivery_count == old(self).initial_delivery_count && r.0.state.init().initial_delivery_count == old(self).initial_delivery_count
            && r.0.state.init().link_credit == 0 && !r.0.state.init().drain,                                       // [C08.wiring.initial-flow-state] a new sending link has NO credit until the receiver grants some; its delivery-count starts at the initial-delivery-count it announces in its attach
        final(self).rcv_settle_mode == old(self).rcv_settle_mode, final(self).buffer_size == old(self).buffer_size, final(self).name == old(self).name,
        final(self).snd_settle_mode == old(self).snd_settle_mode, final(self).max_message_size == old(self).max_message_size,
//@@ end

//@@ fn file=fe2o3-amqp/src/link/builder.rs impl=`~impl<T>Builder<role::SenderMarker,T,WithName,WithSource,WithTarget>where` name=attach_inner as=attach_inner_s
//@@ qmark
//@@ generics
//@@ param session : &mut SessionHandle
//@@ ret Result<SenderInner, SenderAttachError>
//@@ subst `(mut self,` => `(mut this: BuilderS,` rule=R2
//@@ subst `self.create_flow_state_containers()` => `this.create_flow_state_containers_s()` rule=R2
//@@ subst `self.create_link(` => `this.create_link_s(` rule=R2
//@@ subst `self.` => `this.` rule=R2
//@@ subst `Arc::new(` => `ArcNew::arc_new(` rule=R8b
//@@ spec
    ensures
        r is Ok ==> r->Ok_0.link.output_handle is Some && registered(r->Ok_0.link.output_handle->Some_0) is Sender,
        r is Ok ==> registered(r->Ok_0.link.output_handle->Some_0)->Sender_tx.id() == r->Ok_0.incoming.id(),                          // [C11.wiring.relay-feeds-this-links-queue] [C01.wiring.relay-feeds-this-links-queue]
        r is Ok ==> registered(r->Ok_0.link.output_handle->Some_0)->Sender_unsettled.id() == r->Ok_0.link.unsettled.id(),             // [C02.wiring.relay-and-link-share-the-unsettled-map] the disposition the relay receives resolves the send registered in the map the link fills
        r is Ok ==> registered(r->Ok_0.link.output_handle->Some_0)->Sender_flow_state.state.id() == r->Ok_0.link.flow_state.state.id(),      // [C08.wiring.relay-and-link-share-the-flow-state] the credit the receiver grants (applied by the relay) is the credit the link consumes
        r is Ok ==> registered(r->Ok_0.link.output_handle->Some_0)->Sender_flow_state.notifier.id() == r->Ok_0.link.flow_state.notifier.id(),   // [C08.wiring.grant-wakes-this-links-waiter] ... and the notifier the relay wakes is the one a blocked send waits on
        r is Ok ==> r->Ok_0.link.session_stop_reason.id() == old(session).stop.id(),                                                  // [C14.wiring.link-reads-the-sessions-stop-reason]
        r is Ok ==> r->Ok_0.outgoing.id() == old(session).outgoing.id() && r->Ok_0.session.id() == old(session).control.id(),        // [C13.wiring.link-writes-to-its-session]
//@@ end
}

// util/producer.rs, util/consumer.rs: the constructors the stand-ins of the prelude restate, checked on the real bodies
impl Producer {
//@@ fn file=fe2o3-amqp/src/util/producer.rs impl=`impl<State> Producer<State>` name=new as=producer_new_real
//@@ generics
//@@ param notifier : NotifyArc
//@@ param state : FlowArc
//@@ spec
    ensures r.notifier == notifier, r.state == state,          // [C08.wiring.producer-as-given]
//@@ end
}
impl Consumer {
//@@ fn file=fe2o3-amqp/src/util/consumer.rs impl=`impl<State> Consumer<State>` name=new as=consumer_new_real
//@@ generics
//@@ param notifier : NotifyArc
//@@ param state : FlowArc
//@@ spec
    ensures r.notifier == notifier, r.state == state,          // [C08.wiring.consumer-as-given]
//@@ end
//@@ fn file=fe2o3-amqp/src/util/consumer.rs impl=`impl<State: Clone> Consumer<State>` name=producer as=producer_real
//@@ generics
//@@ ret Producer
//@@ spec
    ensures r.state.id() == self.state.id(), r.notifier.id() == self.notifier.id(),       // [C08.wiring.grant-wakes-this-links-waiter] the producer made from a link's consumer (re-attach) applies flows to the same state and wakes the same notifier
//@@ end
}
// ---------------------------------------------------------------------------------------------------------------
// re-attach (link/sender.rs, link/receiver.rs, link/shared_inner.rs): the relay built for a link that attaches again
impl Consumer { pub fn producer(&self) -> (r: Producer) ensures r.state.id() == self.state.id(), r.notifier.id() == self.notifier.id() { Producer { notifier: self.notifier.clone(), state: self.state.clone() } } }
impl LinkS {
    pub fn flow_state(&self) -> (r: &Consumer) ensures *r == self.flow_state { &self.flow_state }
    pub fn unsettled(&self) -> (r: &UnsettledArc) ensures *r == self.unsettled { &self.unsettled }
    pub fn rcv_settle_mode(&self) -> (r: &ReceiverSettleMode) ensures *r == self.rcv_settle_mode { &self.rcv_settle_mode }
}
impl LinkR {
    pub fn flow_state(&self) -> (r: &FlowArc) ensures *r == self.flow_state { &self.flow_state }
    pub fn unsettled(&self) -> (r: &UnsettledArc) ensures *r == self.unsettled { &self.unsettled }
    pub fn rcv_settle_mode(&self) -> (r: &ReceiverSettleMode) ensures *r == self.rcv_settle_mode { &self.rcv_settle_mode }
}
impl SenderInner {
//@@ fn file=fe2o3-amqp/src/link/sender.rs impl=`~impl<L>LinkEndpointInnerforSenderInner<L>where` name=as_new_link_relay as=sender_as_new_link_relay
//@@ param tx : LinkTx
//@@ spec
    ensures r is Sender && r->Sender_tx == tx
        && r->Sender_flow_state.state.id() == self.link.flow_state.state.id() && r->Sender_flow_state.notifier.id() == self.link.flow_state.notifier.id()   // [C08.wiring.relay-and-link-share-the-flow-state] (re-attach)
        && r->Sender_unsettled.id() == self.link.unsettled.id()                          // [C02.wiring.relay-and-link-share-the-unsettled-map] (re-attach) the deliveries still unsettled when the link re-attaches are settled in the same map
        && r->Sender_receiver_settle_mode == self.link.rcv_settle_mode,                  // [C02.wiring.sender-relay-keeps-the-settle-mode] (re-attach)
//@@ end
}
impl ReceiverInner {
//@@ fn file=fe2o3-amqp/src/link/receiver.rs impl=`~impl<L>LinkEndpointInnerforReceiverInner<L>where` name=as_new_link_relay as=receiver_as_new_link_relay
//@@ param tx : LinkTx
//@@ spec
    ensures r is Receiver && r->Receiver_tx == tx
        && r->Receiver_flow_state.id() == self.link.flow_state.id()                      // [C09.wiring.relay-and-link-share-the-flow-state] (re-attach)
        && r->Receiver_unsettled.id() == self.link.unsettled.id()                        // [C02.wiring.relay-and-link-share-the-unsettled-map] (re-attach)
        && r->Receiver_receiver_settle_mode == self.link.rcv_settle_mode && !r->Receiver_more,    // [C02.wiring.relay-knows-the-links-settle-mode] (re-attach)
//@@ end
}

// link/shared_inner.rs LinkEndpointInner::reallocate_output_handle (a trait default method, checked once per implementor) and the accessors it goes through
impl LinkS {
    /// `self.link().name().to_string()`
    #[verifier::external_body]
    pub fn name_string(&self) -> (r: String) ensures r == self.name { unimplemented!() }
    /// Link::output_handle_mut (link/sender_link.rs, link/receiver_link.rs: `&mut self.output_handle`)
    #[verifier::external_body]
    pub fn output_handle_mut(&mut self) -> (r: &mut Option<OutputHandle>)
        ensures *r == old(self).output_handle, *final(self) == (LinkS { output_handle: *final(r), ..*old(self) }),
    { unimplemented!() }
    pub fn session_stop_reason(&self) -> (r: &StopArc) ensures *r == self.session_stop_reason { &self.session_stop_reason }
}
impl LinkR {
    #[verifier::external_body]
    pub fn name_string(&self) -> (r: String) ensures r == self.name { unimplemented!() }
    #[verifier::external_body]
    pub fn output_handle_mut(&mut self) -> (r: &mut Option<OutputHandle>)
        ensures *r == old(self).output_handle, *final(self) == (LinkR { output_handle: *final(r), ..*old(self) }),
    { unimplemented!() }
    pub fn session_stop_reason(&self) -> (r: &StopArc) ensures *r == self.session_stop_reason { &self.session_stop_reason }
}
impl SenderInner {
//@@ fn file=fe2o3-amqp/src/link/sender.rs impl=`~impl<L>LinkEndpointInnerforSenderInner<L>where` name=link as=s_link
//@@ ret &LinkS
//@@ spec
    ensures *r == self.link,
//@@ end
//@@ fn file=fe2o3-amqp/src/link/sender.rs impl=`~impl<L>LinkEndpointInnerforSenderInner<L>where` name=link_mut as=s_link_mut
//@@ ret &mut LinkS
//@@ spec
    ensures *r == old(self).link, *final(self) == (SenderInner { link: *final(r), ..*old(self) }),
//@@ end
//@@ fn file=fe2o3-amqp/src/link/sender.rs impl=`~impl<L>LinkEndpointInnerforSenderInner<L>where` name=reader_mut as=s_reader_mut
//@@ ret &mut LinkRx
//@@ spec
    ensures *r == old(self).incoming, *final(self) == (SenderInner { incoming: *final(r), ..*old(self) }),
//@@ end
//@@ fn file=fe2o3-amqp/src/link/sender.rs impl=`~impl<L>LinkEndpointInnerforSenderInner<L>where` name=buffer_size as=s_buffer_size
//@@ spec
    ensures r == self.buffer_size,
//@@ end
//@@ fn file=fe2o3-amqp/src/link/sender.rs impl=`~impl<L>LinkEndpointInnerforSenderInner<L>where` name=session_control as=s_session_control
//@@ ret &SessCtlTx
//@@ spec
    ensures *r == self.session,
//@@ end
//@@ fn file=fe2o3-amqp/src/link/sender.rs impl=`~impl<L>LinkEndpointInnerforSenderInner<L>where` name=session_stop_reason as=s_session_stop_reason
//@@ ret &StopArc
//@@ subst `self.link()` => `self.s_link()` rule=R2
//@@ spec
    ensures *r == self.link.session_stop_reason,
//@@ end

//@@ fn file=fe2o3-amqp/src/link/shared_inner.rs name=reallocate_output_handle as=reallocate_output_handle_s
//@@ qmark
//@@ ret Result<(), SenderAttachError>
//@@ subst `mpsc::channel(` => `mpsc::channel::<LinkIncomingItem>(` rule=R9
//@@ subst `self.buffer_size()` => `self.s_buffer_size()` rule=optional-R2
//@@ subst `self.as_new_link_relay(` => `self.sender_as_new_link_relay(` rule=optional-R2
//@@ subst `self.reader_mut()` => `self.s_reader_mut()` rule=optional-R2
//@@ subst `.name().to_string()` => `.name_string()` rule=optional-R12
//@@ subst `self.link()` => `self.s_link()` rule=optional-R2
//@@ subst `self.session_control()` => `self.s_session_control()` rule=optional-R2
//@@ subst `self.session_stop_reason()` => `self.s_session_stop_reason()` rule=optional-R2
//@@ subst `self.link_mut()` => `self.s_link_mut()` rule=optional-R2
//@@ spec
    ensures
        r is Ok ==> final(self).link.output_handle is Some && registered(final(self).link.output_handle->Some_0) is Sender,
        r is Ok ==> registered(final(self).link.output_handle->Some_0)->Sender_tx.id() == final(self).incoming.id(),                               // [C11.wiring.relay-feeds-this-links-queue] [C01.wiring.relay-feeds-this-links-queue] (re-attach) the relay registered under the link's NEW handle feeds the queue the endpoint now reads -- both ends of the same new channel
        r is Ok ==> registered(final(self).link.output_handle->Some_0)->Sender_unsettled.id() == old(self).link.unsettled.id(),                     // [C02.wiring.relay-and-link-share-the-unsettled-map] (re-attach)
        r is Ok ==> registered(final(self).link.output_handle->Some_0)->Sender_flow_state.state.id() == old(self).link.flow_state.state.id()
            && registered(final(self).link.output_handle->Some_0)->Sender_flow_state.notifier.id() == old(self).link.flow_state.notifier.id(),      // [C08.wiring.relay-and-link-share-the-flow-state] [C08.wiring.grant-wakes-this-links-waiter] (re-attach)
        final(self).link.unsettled == old(self).link.unsettled && final(self).link.flow_state == old(self).link.flow_state
            && final(self).link.session_stop_reason == old(self).link.session_stop_reason && final(self).link.local_state == old(self).link.local_state,
        final(self).session == old(self).session && final(self).outgoing == old(self).outgoing && final(self).buffer_size == old(self).buffer_size,   // [C13.wiring.link-writes-to-its-session] (re-attach) the link stays on its session
//@@ end
}
impl ReceiverInner {
//@@ fn file=fe2o3-amqp/src/link/receiver.rs impl=`~impl<L>LinkEndpointInnerforReceiverInner<L>where` name=link as=r_link
//@@ ret &LinkR
//@@ spec
    ensures *r == self.link,
//@@ end
//@@ fn file=fe2o3-amqp/src/link/receiver.rs impl=`~impl<L>LinkEndpointInnerforReceiverInner<L>where` name=link_mut as=r_link_mut
//@@ ret &mut LinkR
//@@ spec
    ensures *r == old(self).link, *final(self) == (ReceiverInner { link: *final(r), ..*old(self) }),
//@@ end
//@@ fn file=fe2o3-amqp/src/link/receiver.rs impl=`~impl<L>LinkEndpointInnerforReceiverInner<L>where` name=reader_mut as=r_reader_mut
//@@ ret &mut LinkRx
//@@ spec
    ensures *r == old(self).incoming, *final(self) == (ReceiverInner { incoming: *final(r), ..*old(self) }),
//@@ end
//@@ fn file=fe2o3-amqp/src/link/receiver.rs impl=`~impl<L>LinkEndpointInnerforReceiverInner<L>where` name=buffer_size as=r_buffer_size
//@@ spec
    ensures r == self.buffer_size,
//@@ end
//@@ fn file=fe2o3-amqp/src/link/receiver.rs impl=`~impl<L>LinkEndpointInnerforReceiverInner<L>where` name=session_control as=r_session_control
//@@ ret &SessCtlTx
//@@ spec
    ensures *r == self.session,
//@@ end
//@@ fn file=fe2o3-amqp/src/link/receiver.rs impl=`~impl<L>LinkEndpointInnerforReceiverInner<L>where` name=session_stop_reason as=r_session_stop_reason
//@@ ret &StopArc
//@@ subst `self.link()` => `self.r_link()` rule=R2
//@@ spec
    ensures *r == self.link.session_stop_reason,
//@@ end

//@@ fn file=fe2o3-amqp/src/link/shared_inner.rs name=reallocate_output_handle as=reallocate_output_handle_r
//@@ qmark
//@@ ret Result<(), ReceiverAttachError>
//@@ subst `mpsc::channel(` => `mpsc::channel::<LinkIncomingItem>(` rule=R9
//@@ subst `self.buffer_size()` => `self.r_buffer_size()` rule=optional-R2
//@@ subst `self.as_new_link_relay(` => `self.receiver_as_new_link_relay(` rule=optional-R2
//@@ subst `self.reader_mut()` => `self.r_reader_mut()` rule=optional-R2
//@@ subst `.name().to_string()` => `.name_string()` rule=optional-R12
//@@ subst `self.link()` => `self.r_link()` rule=optional-R2
//@@ subst `self.session_control()` => `self.r_session_control()` rule=optional-R2
//@@ subst `self.session_stop_reason()` => `self.r_session_stop_reason()` rule=optional-R2
//@@ subst `self.link_mut()` => `self.r_link_mut()` rule=optional-R2
//@@ spec
    ensures
        r is Ok ==> final(self).link.output_handle is Some && registered(final(self).link.output_handle->Some_0) is Receiver,
        r is Ok ==> registered(final(self).link.output_handle->Some_0)->Receiver_tx.id() == final(self).incoming.id(),                             // [C11.wiring.relay-feeds-this-links-queue] [C01.wiring.relay-feeds-this-links-queue] (re-attach)
        r is Ok ==> registered(final(self).link.output_handle->Some_0)->Receiver_unsettled.id() == old(self).link.unsettled.id(),                   // [C02.wiring.relay-and-link-share-the-unsettled-map] (re-attach)
        r is Ok ==> registered(final(self).link.output_handle->Some_0)->Receiver_flow_state.id() == old(self).link.flow_state.id(),                 // [C09.wiring.relay-and-link-share-the-flow-state] (re-attach)
        r is Ok ==> registered(final(self).link.output_handle->Some_0)->Receiver_receiver_settle_mode == old(self).link.rcv_settle_mode,            // [C02.wiring.relay-knows-the-links-settle-mode] (re-attach)
        final(self).link.unsettled == old(self).link.unsettled && final(self).link.flow_state == old(self).link.flow_state
            && final(self).link.session_stop_reason == old(self).link.session_stop_reason && final(self).link.local_state == old(self).link.local_state,
        final(self).session == old(self).session && final(self).outgoing == old(self).outgoing && final(self).buffer_size == old(self).buffer_size
            && final(self).credit_mode == old(self).credit_mode && final(self).processed == old(self).processed,                                     // [C13.wiring.link-writes-to-its-session] (re-attach)
//@@ end
}

} // verus!
fn main() {}
