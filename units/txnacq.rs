//@@ unit TXNACQ
#![feature(allocator_api)]
#![allow(unused_imports, unused_variables, dead_code, unused_mut, unused_parens)]
use vstd::prelude::*;

verus! {

//@@ trusted transaction/acquisition.rs: `TxnAcquisition` wraps a transaction and a receiver; the transaction (Txn: TransactionDischarge + TransactionRetirement: unit TXNCTRL) and the receiver's link are stand-ins that RECORD the calls they receive in ONE log, so that the order "the link leaves the transaction (txn-id property removed, flow sent) BEFORE the discharge" is decidable; results are uninterpreted
//@@ trusted `writer.properties.as_mut().map(|map| map.swap_remove(TXN_ID_KEY))` under the flow-state lock is one recorded step (R4, R15)

macro_rules! opaque {
    ($($n:ident),*) => { verus!{ $(
        #[verifier::external_body]
        pub struct $n { _p: u8 }
    )* } }
}
opaque!(FlowError, TxnError, RetireError, DeliveryS, AmqpErrorS, Modified, OutTx, RecvErrorS);
pub trait ErrInto<T>: Sized { spec fn conv(self) -> T; fn err_into(self) -> (r: T) ensures r == self.conv(); }
impl ErrInto<TxnError> for TxnError { open spec fn conv(self) -> TxnError { self } fn err_into(self) -> (r: TxnError) { let e = self; assert(e == <TxnError as ErrInto<TxnError>>::conv(self)); e } }
impl ErrInto<FlowError> for FlowError { open spec fn conv(self) -> FlowError { self } fn err_into(self) -> (r: FlowError) { let e = self; assert(e == <FlowError as ErrInto<FlowError>>::conv(self)); e } }
pub uninterp spec fn flow_to_txn(e: FlowError) -> TxnError;
/// `<Txn as TransactionDischarge>::Error: From<FlowError>`
impl ErrInto<TxnError> for FlowError { open spec fn conv(self) -> TxnError { flow_to_txn(self) } #[verifier::external_body] fn err_into(self) -> (r: TxnError) { unimplemented!() } }
pub trait AwaitS: Sized { type Out; spec fn resolved(self) -> Self::Out; fn await_s(self) -> (r: Self::Out) ensures r == self.resolved(); }
impl<T, E> AwaitS for Result<T, E> { type Out = Result<T, E>; open spec fn resolved(self) -> Result<T, E> { self } fn await_s(self) -> (r: Result<T, E>) { self } }

pub type SequenceNo = u32;
pub enum Ev {
    TxnIdRemoved,
    Flow { credit: Option<u32>, drain: Option<bool>, echo: bool, blocking: bool },
    Discharge { fail: bool },
    Accept(DeliveryS), Reject(DeliveryS, Option<AmqpErrorS>), Release(DeliveryS), Modify(DeliveryS, Modified),
    Recv, SetCredit(u32),
}
/// the one log both stand-ins write to (behind the `&mut` the acquisition holds)
pub struct Log { pub evs: Ghost<Seq<Ev>> }
pub struct TxnS { pub discharged: bool, pub g: Ghost<int> }
impl TxnS {
    pub fn is_discharged(&self) -> (r: bool) ensures r == self.discharged { self.discharged }
    #[verifier::external_body]
    pub fn discharge(&mut self, log: &mut Log, fail: bool) -> (r: Result<(), TxnError>)
        ensures final(log).evs@ == old(log).evs@.push(Ev::Discharge { fail }),
    { unimplemented!() }
    #[verifier::external_body]
    pub fn accept(&self, recver: &mut Receiver, delivery: &DeliveryS) -> (r: Result<(), RetireError>)
        ensures final(recver).log.evs@ == old(recver).log.evs@.push(Ev::Accept(*delivery)),
    { unimplemented!() }
    #[verifier::external_body]
    pub fn reject(&self, recver: &mut Receiver, delivery: &DeliveryS, error: Option<AmqpErrorS>) -> (r: Result<(), RetireError>)
        ensures final(recver).log.evs@ == old(recver).log.evs@.push(Ev::Reject(*delivery, error)),
    { unimplemented!() }
    #[verifier::external_body]
    pub fn release(&self, recver: &mut Receiver, delivery: &DeliveryS) -> (r: Result<(), RetireError>)
        ensures final(recver).log.evs@ == old(recver).log.evs@.push(Ev::Release(*delivery)),
    { unimplemented!() }
    #[verifier::external_body]
    pub fn modify(&self, recver: &mut Receiver, delivery: &DeliveryS, modified: Modified) -> (r: Result<(), RetireError>)
        ensures final(recver).log.evs@ == old(recver).log.evs@.push(Ev::Modify(*delivery, modified)),
    { unimplemented!() }
}
pub struct Receiver { pub log: Log, pub outgoing: OutTx }
impl Receiver {
    /// `{ let mut writer = ..flow_state.lock.write(); writer.properties.as_mut().map(|m| m.swap_remove(TXN_ID_KEY)); }`
    #[verifier::external_body]
    pub fn remove_txn_id_property(&mut self)
        ensures final(self).log.evs@ == old(self).log.evs@.push(Ev::TxnIdRemoved),
    { unimplemented!() }
    #[verifier::external_body]
    pub fn link_send_flow(&mut self, credit: Option<u32>, drain: Option<bool>, echo: bool, _x: bool) -> (r: Result<(), FlowError>)
        ensures final(self).log.evs@ == old(self).log.evs@.push(Ev::Flow { credit, drain, echo, blocking: false }),
    { unimplemented!() }
    #[verifier::external_body]
    pub fn link_blocking_send_flow(&mut self, credit: Option<u32>, drain: Option<bool>, echo: bool, _x: bool) -> (r: Result<(), FlowError>)
        ensures final(self).log.evs@ == old(self).log.evs@.push(Ev::Flow { credit, drain, echo, blocking: true }),
    { unimplemented!() }
    #[verifier::external_body]
    pub fn set_credit(&mut self, credit: u32) -> (r: Result<(), FlowError>)
        ensures final(self).log.evs@ == old(self).log.evs@.push(Ev::SetCredit(credit)),
    { unimplemented!() }
}
pub struct TxnAcquisition<'r> { pub txn: TxnS, pub recver: &'r mut Receiver }
/// the link has left the transaction: the txn-id property is gone from what its flows carry, THEN a flow (no credit, drain, echo asked) tells the sender so
pub open spec fn left_txn(l0: Seq<Ev>, l1: Seq<Ev>, blocking: bool) -> bool {
    l1.len() >= l0.len() + 2 && (forall|i: int| 0 <= i < l0.len() ==> #[trigger] l1[i] == l0[i]) && l1[l0.len() as int] == Ev::TxnIdRemoved
        && l1[l0.len() as int + 1] == (Ev::Flow { credit: Some(0u32), drain: Some(true), echo: true, blocking })
}

impl<'r> TxnAcquisition<'r> {
//@@ fn file=fe2o3-amqp/src/transaction/acquisition.rs impl=`~impl<'r,Txn>TxnAcquisition<'r,Txn>where` name=cleanup id=TxnAcquisition::cleanup
//@@ awaitcall
//@@ qmark
//@@ ret Result<(), FlowError>
//@@ subst `{ let mut writer = self.recver.inner.link.flow_state.lock.write(); writer.properties.as_mut().map(|map| map.swap_remove(TXN_ID_KEY)); }` => `self.recver.remove_txn_id_property();` rule=R4,R15
//@@ subst `self.recver .inner .link .send_flow(&self.recver.inner.outgoing, ` => `self.recver.link_send_flow(` rule=R9
//@@ spec
    ensures
        final(self).recver.log.evs@ == old(self).recver.log.evs@.push(Ev::TxnIdRemoved).push(Ev::Flow { credit: Some(0u32), drain: Some(true), echo: true, blocking: false }),       // [C18.acquisition.link-leaves-the-transaction] [C09.acquisition.link-leaves-the-transaction] ending a transactional acquisition first takes the txn-id out of the link's flow properties and THEN sends the flow that stops the acquisition (credit 0, drain): that flow -- and every later one -- no longer names the transaction
        final(self).txn == old(self).txn,
//@@ end

//@@ fn file=fe2o3-amqp/src/transaction/acquisition.rs impl=`~impl<'r,Txn>TxnAcquisition<'r,Txn>where` name=commit id=TxnAcquisition::commit
//@@ awaitcall
//@@ qmark
//@@ ret Result<(), TxnError>
//@@ subst `(mut self)` => `(&mut self)` rule=R32
//@@ subst `self.txn.discharge(` => `self.txn.discharge(&mut self.recver.log, ` rule=R9
//@@ spec
    ensures
        left_txn(old(self).recver.log.evs@, final(self).recver.log.evs@, false),
        r is Ok ==> final(self).recver.log.evs@ == old(self).recver.log.evs@.push(Ev::TxnIdRemoved).push(Ev::Flow { credit: Some(0u32), drain: Some(true), echo: true, blocking: false }).push(Ev::Discharge { fail: false }),       // [C18.acquisition.commit-is-cleanup-then-discharge-without-fail] committing through an acquisition: the link leaves the transaction, then the transaction is discharged with fail = false -- once, and not before
//@@ end

//@@ fn file=fe2o3-amqp/src/transaction/acquisition.rs impl=`~impl<'r,Txn>TxnAcquisition<'r,Txn>where` name=rollback id=TxnAcquisition::rollback
//@@ awaitcall
//@@ qmark
//@@ ret Result<(), TxnError>
//@@ subst `(mut self)` => `(&mut self)` rule=R32
//@@ subst `self.txn.discharge(` => `self.txn.discharge(&mut self.recver.log, ` rule=R9
//@@ spec
    ensures
        left_txn(old(self).recver.log.evs@, final(self).recver.log.evs@, false),
        r is Ok ==> final(self).recver.log.evs@ == old(self).recver.log.evs@.push(Ev::TxnIdRemoved).push(Ev::Flow { credit: Some(0u32), drain: Some(true), echo: true, blocking: false }).push(Ev::Discharge { fail: true }),       // [C18.acquisition.rollback-is-cleanup-then-discharge-with-fail]
//@@ end

//@@ fn file=fe2o3-amqp/src/transaction/acquisition.rs impl=`~impl<'r,Txn>TxnAcquisition<'r,Txn>where` name=set_credit id=TxnAcquisition::set_credit
//@@ awaitcall
//@@ ret Result<(), FlowError>
//@@ spec
    ensures final(self).recver.log.evs@ == old(self).recver.log.evs@.push(Ev::SetCredit(credit)), final(self).txn == old(self).txn,       // [C09.acquisition.credit-is-the-receivers] credit asked for through an acquisition is issued by the receiver it wraps, as given
//@@ end

//@@ fn file=fe2o3-amqp/src/transaction/acquisition.rs impl=`~impl<'r,Txn>TxnAcquisition<'r,Txn>where` name=accept id=TxnAcquisition::accept
//@@ awaitcall
//@@ generics
//@@ nowhere
//@@ param delivery : &DeliveryS
//@@ ret Result<(), RetireError>
//@@ spec
    ensures final(self).recver.log.evs@ == old(self).recver.log.evs@.push(Ev::Accept(*delivery)), final(self).txn == old(self).txn,       // [C18.acquisition.retirement-under-the-acquisitions-transaction] a delivery retired through an acquisition is retired by ITS transaction on ITS receiver, with the outcome chosen (unit TXNCTRL: under that transaction's id)
//@@ end

//@@ fn file=fe2o3-amqp/src/transaction/acquisition.rs impl=`~impl<'r,Txn>TxnAcquisition<'r,Txn>where` name=reject id=TxnAcquisition::reject
//@@ awaitcall
//@@ generics
//@@ nowhere
//@@ param delivery : &DeliveryS
//@@ param error : Option<AmqpErrorS>
//@@ ret Result<(), RetireError>
//@@ subst `error.into()` => `error` rule=R16
//@@ spec
    ensures final(self).recver.log.evs@ == old(self).recver.log.evs@.push(Ev::Reject(*delivery, error)), final(self).txn == old(self).txn,       // [C18.acquisition.retirement-under-the-acquisitions-transaction]
//@@ end

//@@ fn file=fe2o3-amqp/src/transaction/acquisition.rs impl=`~impl<'r,Txn>TxnAcquisition<'r,Txn>where` name=release id=TxnAcquisition::release
//@@ awaitcall
//@@ generics
//@@ nowhere
//@@ param delivery : &DeliveryS
//@@ ret Result<(), RetireError>
//@@ spec
    ensures final(self).recver.log.evs@ == old(self).recver.log.evs@.push(Ev::Release(*delivery)), final(self).txn == old(self).txn,       // [C18.acquisition.retirement-under-the-acquisitions-transaction]
//@@ end

//@@ fn file=fe2o3-amqp/src/transaction/acquisition.rs impl=`~impl<'r,Txn>TxnAcquisition<'r,Txn>where` name=modify id=TxnAcquisition::modify
//@@ awaitcall
//@@ generics
//@@ nowhere
//@@ param delivery : &DeliveryS
//@@ ret Result<(), RetireError>
//@@ spec
    ensures final(self).recver.log.evs@ == old(self).recver.log.evs@.push(Ev::Modify(*delivery, modified)), final(self).txn == old(self).txn,       // [C18.acquisition.retirement-under-the-acquisitions-transaction]
//@@ end

//@@ fn file=fe2o3-amqp/src/transaction/acquisition.rs impl=`~impl<'r,T>DropforTxnAcquisition<'r,T>where` name=drop id=TxnAcquisition::drop
//@@ subst `{ let mut writer = self.recver.inner.link.flow_state.lock.write(); writer .properties .as_mut() .map(|fields| fields.swap_remove(TXN_ID_KEY)); }` => `self.recver.remove_txn_id_property();` rule=R4,R15
//@@ subst `self.recver.inner.link.blocking_send_flow( &self.recver.inner.outgoing, ` => `self.recver.link_blocking_send_flow(` rule=R9
//@@ spec
    ensures
        old(self).txn.discharged ==> final(self).recver.log.evs@ == old(self).recver.log.evs@,       // [C18.acquisition.discharged-acquisition-drops-silently]
        !old(self).txn.discharged ==> left_txn(old(self).recver.log.evs@, final(self).recver.log.evs@, true) && final(self).recver.log.evs@.len() == old(self).recver.log.evs@.len() + 2,       // [C18.acquisition.abandoned-acquisition-leaves-the-transaction] an acquisition dropped with its transaction still open takes the link out of the transaction (property removed, then the stopping flow): later credit is not issued under a transaction nobody will discharge through this acquisition
//@@ end
}

// ---------------------------------------------------------------- TransactionAcquisition::acquire (transaction/mod.rs)
opaque!(TransactionId, ValueS, Symbol);
pub uninterp spec fn binary_of(id: TransactionId) -> ValueS;
pub struct Value {}
impl Value { #[verifier::external_body] pub fn Binary(id: TransactionId) -> (r: ValueS) ensures r == binary_of(id) { unimplemented!() } }
impl Clone for TransactionId { #[verifier::external_body] fn clone(&self) -> (r: Self) ensures r == *self { unimplemented!() } }
pub struct TxnKey {}
pub const TXN_ID_KEY: TxnKey = TxnKey {};
impl Symbol { #[verifier::external_body] pub fn from(k: TxnKey) -> (r: Symbol) { unimplemented!() } }
/// the link's flow properties (`Fields`): only whether they hold a txn-id, and which
pub struct Fields { pub txn: Ghost<Option<ValueS>> }
impl Fields {
    pub fn new() -> (r: Fields) ensures r.txn@ is None { Fields { txn: Ghost(None) } }
    #[verifier::external_body]
    pub fn contains_key(&self, k: TxnKey) -> (r: bool) ensures r == self.txn@ is Some { unimplemented!() }
    #[verifier::external_body]
    pub fn insert(&mut self, k: Symbol, v: ValueS) -> (r: Option<ValueS>) ensures final(self).txn@ == Some(v) { unimplemented!() }
    #[verifier::external_body]
    pub fn swap_remove(&mut self, k: TxnKey) -> (r: Option<ValueS>) ensures final(self).txn@ is None { unimplemented!() }
}
pub struct FlowStateA { pub properties: Option<Fields> }
pub struct AcqReceiver { pub flow: FlowStateA, pub flows: Ghost<Seq<(Option<u32>, Option<bool>, bool, Option<ValueS>)>> }
pub uninterp spec fn acq_flow_res(r: AcqReceiver, credit: u32) -> Result<(), FlowError>;
/// the txn-id a flow sent now would carry
pub open spec fn txn_of(f: FlowStateA) -> Option<ValueS> { match f.properties { Some(p) => p.txn@, None => None } }
impl AcqReceiver {
    /// `recver.inner.link.send_flow(&recver.inner.outgoing, credit, drain, echo, ..)`: the flow carries the link's properties as they are at that moment
    #[verifier::external_body]
    pub fn link_send_flow(&mut self, credit: Option<u32>, drain: Option<bool>, echo: bool, _x: bool) -> (r: Result<(), FlowError>)
        ensures final(self).flows@ == old(self).flows@.push((credit, drain, echo, txn_of(old(self).flow))), final(self).flow == old(self).flow,
    { unimplemented!() }
}
pub struct AcqTxn { pub id: TransactionId }
impl AcqTxn { pub fn txn_id(&self) -> (r: &TransactionId) ensures *r == self.id { &self.id } }
pub struct TxnAcquisitionA<'r> { pub txn: AcqTxn, pub recver: &'r mut AcqReceiver }
pub enum FlowErrorA { IllegalState, Other(FlowError) }
impl AcqTxn {
//@@ fn file=fe2o3-amqp/src/transaction/mod.rs impl=`~TransactionAcquisition:Sized` name=acquire implfuture id=TransactionAcquisition::acquire
//@@ generics <'r>
//@@ nowhere
//@@ param recver : &'r mut AcqReceiver
//@@ param credit : u32
//@@ ret Result<TxnAcquisitionA<'r>, FlowErrorA>
//@@ subst `let mut writer = recver.inner.link.flow_state.lock.write();` => `let mut writer = &mut recver.flow;` rule=R4
//@@ subst `recver .inner .link .send_flow(&recver.inner.outgoing, ` => `recver.link_send_flow(` rule=R9
//@@ subst `FlowError::IllegalState` => `FlowErrorA::IllegalState` rule=R11
//@@ subst `Err(error) => { __E1 Err(error) }` => `Err(error) => { __E1 Err(FlowErrorA::Other(error)) }` rule=R11
//@@ subst `TxnAcquisition { txn: self, recver }` => `TxnAcquisitionA { txn: self, recver }` rule=R7
//@@ spec
    ensures
        txn_of(old(recver).flow) is Some ==> r is Err && final(recver).flows@ == old(recver).flows@ && final(recver).flow == old(recver).flow,       // [C18.acquisition.one-transaction-per-link] a link that already acquires under a transaction is not taken into a second one: refused, nothing sent, nothing changed
        txn_of(old(recver).flow) is None ==> ({
            let fl = match r { Ok(a) => a.recver.flows@, Err(_) => final(recver).flows@ };
            fl.len() == old(recver).flows@.len() + 1 && fl.last().0 == Some(credit) && fl.last().1 == None::<bool> && fl.last().2 == false
        }),       // [C09.acquisition.credit-flow-as-asked] starting an acquisition issues exactly the credit asked for, in ONE flow, without drain
        r is Ok ==> r->Ok_0.txn == self,       // [C18.acquisition.retirement-under-the-acquisitions-transaction] the acquisition holds THIS transaction
        r is Err ==> txn_of(final(recver).flow) == txn_of(old(recver).flow),       // [C18.acquisition.failed-acquire-leaves-no-trace] when the flow cannot be sent the txn-id is taken out of the link's properties again
//@@ end
}

} // verus!
fn main() {}
