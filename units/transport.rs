//@@ unit TRANSPORT
#![feature(allocator_api)]
#![allow(unused_imports, unused_variables, dead_code, unused_mut, unused_parens)]
use vstd::prelude::*;

verus! {

global size_of usize == 8;

//@@ include common.rs
//@@ trusted Pin<&mut Self> / Pin::new(&mut x) erased to &mut (pin projection has no effect on the sequential state; R3-like)
//@@ trusted tokio_util FramedWrite<_, LengthDelimitedCodec> stand-in: start_send(item) REQUIRES |item| <= max_frame_length (the codec refuses longer items) and appends one length-prefixed item to the ghost wire trace, or fails
//@@ trusted amqp::FrameEncoder::encode stand-in: appends wire(item), an uninterpreted byte string per frame (for transfers its structure is proved in unit FRAMEENC), or fails
//@@ trusted bytes::BytesMut / Bytes stand-ins (byte sequences)
//@@ trusted usize is 64 bits

#[verifier::external_body]
pub struct BytesMut { v: Vec<u8> }
impl View for BytesMut { type V = Seq<u8>; uninterp spec fn view(&self) -> Seq<u8>; }
#[verifier::external_body]
pub struct Bytes { v: Vec<u8> }
impl View for Bytes { type V = Seq<u8>; uninterp spec fn view(&self) -> Seq<u8>; }
impl BytesMut {
    #[verifier::external_body]
    pub fn new() -> (r: Self) ensures r@ == Seq::<u8>::empty() { unimplemented!() }
    #[verifier::external_body]
    pub fn len(&self) -> (r: usize) ensures r == self@.len() { unimplemented!() }
    #[verifier::external_body]
    pub fn split_to(&mut self, n: usize) -> (r: BytesMut)
        requires n <= old(self)@.len(),     // bytes::BytesMut::split_to panics otherwise
        ensures r@ == old(self)@.take(n as int), final(self)@ == old(self)@.skip(n as int),
    { unimplemented!() }
    #[verifier::external_body]
    pub fn freeze(self) -> (r: Bytes) ensures r@ == self@ { unimplemented!() }
}
#[verifier::external_body]
pub struct Frame { _p: u8 }
pub uninterp spec fn wire(f: Frame) -> Seq<u8>;
pub uninterp spec fn is_transfer(f: Frame) -> bool;
/// `matches!(item.body, amqp::FrameBody::Transfer { .. })`
#[verifier::external_body]
pub fn frame_is_transfer(f: &Frame) -> (r: bool) ensures r == is_transfer(*f) { unimplemented!() }
#[verifier::external_body]
pub struct FrameError { _p: u8 }
#[verifier::external_body]
pub struct IoError { _p: u8 }
pub enum Error { Io(IoError), Frame(FrameError), FramingError, IdleTimeoutElapsed, Other }
impl From<FrameError> for Error { #[verifier::external_body] fn from(e: FrameError) -> Self { Error::Frame(e) } }
/// `?` on the frame encoder's error in start_send: `impl From<frames::Error> for transport::Error` maps it to Io / DecodeError / NotImplemented (here: Frame), never to FramingError (R16)
pub trait ErrInto<T>: Sized { spec fn conv(self) -> T; fn err_into(self) -> (r: T) ensures r == self.conv(); }
impl ErrInto<Error> for FrameError { open spec fn conv(self) -> Error { Error::Frame(self) } fn err_into(self) -> (r: Error) { Error::Frame(self) } }
impl ErrInto<Error> for IoError { open spec fn conv(self) -> Error { Error::Io(self) } fn err_into(self) -> (r: Error) { Error::Io(self) } }
impl ErrInto<Error> for Error { open spec fn conv(self) -> Error { self } fn err_into(self) -> (r: Error) { let e = self; assert(e == <Error as ErrInto<Error>>::conv(self)); e } }
impl From<IoError> for Error { #[verifier::external_body] fn from(e: IoError) -> Self { Error::Io(e) } }
pub struct FrameEncoder { pub max_frame_body_size: usize }
impl FrameEncoder {
    pub fn new(max_frame_size: usize) -> (r: Self)
        requires max_frame_size >= 4,     // [C06.encoder.new-pre] of unit FRAMEENC
        ensures r.max_frame_body_size == max_frame_size - 4,
    { FrameEncoder { max_frame_body_size: max_frame_size - 4 } }
    #[verifier::external_body]
    pub fn encode(&mut self, item: Frame, dst: &mut BytesMut) -> (r: Result<(), FrameError>)
        ensures r is Ok ==> final(dst)@ == old(dst)@ + wire(item) && wire(item).len() >= 4,
    { unimplemented!() }
}
pub struct LengthDelimitedCodec { pub max: usize }
pub type LenCodec = LengthDelimitedCodec;
impl LengthDelimitedCodec {
    pub fn max_frame_length(&self) -> (r: usize) ensures r == self.max { self.max }
    pub fn set_max_frame_length(&mut self, val: usize) ensures final(self).max == val { self.max = val; }
}
/// tokio_util::codec::length_delimited::Builder as configured here: big-endian 4-octet length field, length_adjustment -4 (the AMQP size field counts itself).
/// Encoding refuses an item longer than max_frame_length and writes item.len() + 4 in the length field; decoding refuses a length FIELD above max_frame_length.
pub struct LenCodecBuilder { pub big: bool, pub field_len: usize, pub max: usize, pub adj: isize }
impl LengthDelimitedCodec { pub fn builder() -> (r: LenCodecBuilder) ensures r == (LenCodecBuilder { big: true, field_len: 4, max: 8388608usize, adj: 0 }) { LenCodecBuilder { big: true, field_len: 4, max: 8388608usize, adj: 0 } } }
impl LenCodecBuilder {
    pub fn big_endian(self) -> (r: Self) ensures r == (LenCodecBuilder { big: true, ..self }) { LenCodecBuilder { big: true, ..self } }
    pub fn length_field_length(self, n: usize) -> (r: Self) ensures r == (LenCodecBuilder { field_len: n, ..self }) { LenCodecBuilder { field_len: n, ..self } }
    pub fn max_frame_length(self, n: usize) -> (r: Self) ensures r == (LenCodecBuilder { max: n, ..self }) { LenCodecBuilder { max: n, ..self } }
    pub fn length_adjustment(self, n: isize) -> (r: Self) ensures r == (LenCodecBuilder { adj: n, ..self }) { LenCodecBuilder { adj: n, ..self } }
    pub fn new_codec(self) -> (r: LenCodec)
        requires self.big, self.field_len == 4, self.adj == -4,            // [C06.codec.amqp-size-field] the frame size field is 4 octets, big-endian, and counts itself
        ensures r.max == self.max,
    { LengthDelimitedCodec { max: self.max } }
}
//@@ type file=fe2o3-amqp-types/src/definitions/constant_def.rs kind=const name=MIN_MAX_FRAME_SIZE
//@@ end
proof fn spec_min_max_frame_size() ensures MIN_MAX_FRAME_SIZE == 512 {}      // [C06.constants.min-max-frame-size] [C17.constants.min-max-frame-size]
pub fn usize_max(a: usize, b: usize) -> (r: usize) ensures r == (if a >= b { a } else { b }) { if a >= b { a } else { b } }
pub struct FramedWriteS { pub codec: LenCodec, pub items: Ghost<Seq<Seq<u8>>> }
impl FramedWriteS {
    pub fn encoder(&self) -> (r: &LenCodec) ensures *r == self.codec { &self.codec }
    #[verifier::external_body]
    pub fn encoder_mut(&mut self) -> (r: &mut LenCodec) ensures *r == old(self).codec, final(self).codec == *final(r), final(self).items == old(self).items { unimplemented!() }
    #[verifier::external_body]
    pub fn start_send(&mut self, item: Bytes) -> (r: Result<(), IoError>)
        requires item@.len() <= old(self).codec.max,     // [C06.transport.item-within-limit] LengthDelimitedCodec refuses an item longer than max_frame_length: every item handed to it must fit
        ensures
            final(self).codec == old(self).codec,
            r is Ok ==> final(self).items@ == old(self).items@.push(item@),
            r is Err ==> final(self).items@ == old(self).items@,
    { unimplemented!() }
    /// FramedWrite::poll_ready / poll_flush / poll_close: they move what has been handed over towards the socket; no item is added or changed
    #[verifier::external_body]
    pub fn poll_ready(&mut self, cx: &mut Context) -> (r: Poll<Result<(), IoError>>) ensures *final(self) == *old(self) { unimplemented!() }
    #[verifier::external_body]
    pub fn poll_flush(&mut self, cx: &mut Context) -> (r: Poll<Result<(), IoError>>) ensures *final(self) == *old(self) { unimplemented!() }
    #[verifier::external_body]
    pub fn poll_close(&mut self, cx: &mut Context) -> (r: Poll<Result<(), IoError>>) ensures *final(self) == *old(self) { unimplemented!() }
}
/// the local idle time-out timer (transport::IdleTimeout): how often it has been restarted, and whether polling it now reports that it ran out
pub struct IdleTimeoutS { pub resets: Ghost<nat>, pub elapsed: Ghost<bool> }
pub struct Elapsed {}
/// std::time::Duration, reduced to whether it is zero
pub struct Duration { pub zero: bool }
impl Duration { pub fn is_zero(&self) -> (r: bool) ensures r == self.zero { self.zero } }
pub type IdleTimeout = IdleTimeoutS;
impl IdleTimeoutS {
    /// IdleTimeout::new(duration): armed from now with that duration (unit TIMERS)
    #[verifier::external_body]
    pub fn new(duration: Duration) -> (r: IdleTimeoutS)
        requires !duration.zero,      // [C17.idle-time-out.zero-does-not-arm-the-timer] an idle time-out of 0 means "none" (AMQP 1.0 part 2, 2.7.1 idle-time-out; the builder's default): it must never arm the timer -- a timer armed with a zero duration reports the peer as silent at the first poll that finds no frame ready
        ensures r.resets@ == 0,
    { unimplemented!() }
    #[verifier::external_body]
    pub fn reset(&mut self) ensures final(self).resets@ == old(self).resets@ + 1, final(self).elapsed@ == false { unimplemented!() }
    #[verifier::external_body]
    pub fn poll(&mut self, cx: &mut Context) -> (r: Poll<Elapsed>)
        ensures final(self).resets == old(self).resets, final(self).elapsed == old(self).elapsed, (r is Ready) == old(self).elapsed@,
    { unimplemented!() }
}
pub struct Context { pub g: Ghost<int> }
pub enum Poll<T> { Ready(T), Pending }
/// `Poll<Result<T, io::Error>>::map_err(Into::into)` (std: the error of a ready result converted, everything else kept)
impl Poll<Result<(), IoError>> {
    pub fn map_err_io(self) -> (r: Poll<Result<(), Error>>)
        ensures (match self { Poll::Ready(Ok(v)) => r == Poll::Ready(Ok::<(), Error>(v)), Poll::Ready(Err(e)) => r == Poll::Ready(Err::<(), Error>(Error::Io(e))), Poll::Pending => r is Pending }),
    { match self { Poll::Ready(Ok(v)) => Poll::Ready(Ok(v)), Poll::Ready(Err(e)) => Poll::Ready(Err(Error::Io(e))), Poll::Pending => Poll::Pending } }
}
/// FramedRead<_, LengthDelimitedCodec>: yields the next length-delimited item, an error, end of stream, or nothing yet
pub struct FramedReadS { pub got: Ghost<nat>, pub codec: LenCodec }
impl FramedReadS {
    #[verifier::external_body]
    pub fn decoder_mut(&mut self) -> (r: &mut LenCodec) ensures *r == old(self).codec, final(self).codec == *final(r), final(self).got == old(self).got { unimplemented!() }
    #[verifier::external_body]
    pub fn poll_next(&mut self, cx: &mut Context) -> (r: Poll<Option<Result<BytesMut, IoError>>>)
        ensures (r is Ready) ==> final(self).got@ == old(self).got@ + 1, (r is Pending) ==> final(self).got@ == old(self).got@, final(self).codec == old(self).codec,
    { unimplemented!() }
}
pub struct FrameDecoder {}
impl FrameDecoder {
    /// frames::amqp::FrameDecoder::decode (unit FRAMEDEC)
    #[verifier::external_body]
    pub fn decode(&mut self, src: &mut BytesMut) -> (r: Result<Option<Frame>, FrameError>) { unimplemented!() }
}
pub fn res_transpose(r: Result<Option<Frame>, Error>) -> (o: Option<Result<Frame, Error>>)
    ensures o == (match r { Ok(Some(x)) => Some(Ok::<Frame, Error>(x)), Ok(None) => None, Err(e) => Some(Err::<Frame, Error>(e)) }),
{ match r { Ok(Some(x)) => Some(Ok(x)), Ok(None) => None, Err(e) => Some(Err(e)) } }
pub struct Transport { pub framed_write: FramedWriteS, pub framed_read: FramedReadS, pub idle_timeout: Option<IdleTimeoutS> }

pub open spec fn flat(items: Seq<Seq<u8>>) -> Seq<u8>
    decreases items.len()
{
    if items.len() == 0 { Seq::empty() } else { flat(items.drop_last()) + items.last() }
}
pub proof fn lemma_flat_push(items: Seq<Seq<u8>>, x: Seq<u8>)
    ensures flat(items.push(x)) =~= flat(items) + x,
{
    assert(items.push(x).drop_last() =~= items);
}

/// the items this call handed to the length-delimited writer
pub open spec fn added_items(o: Transport, f: Transport) -> Seq<Seq<u8>> { f.framed_write.items@.skip(o.framed_write.items@.len() as int) }

impl Transport {
//@@ fn file=fe2o3-amqp/src/transport/mod.rs impl=`impl<Io> Sink<amqp::Frame> for Transport<Io, amqp::Frame> where Io: AsyncWrite + Unpin,` name=start_send
//@@ attr #[verifier::loop_isolation(false)]
//@@ shape loops=while;stmt-2=let writer
//@@ qmark
//@@ subst `mut self: std::pin::Pin<&mut Self>` => `&mut self` rule=R3
//@@ subst `item: amqp::Frame` => `item: Frame` rule=R11
//@@ subst `use std::pin::Pin;` => `` rule=R6
//@@ subst `Pin::new(&mut self.framed_write)` => `&mut self.framed_write` rule=R3
//@@ subst `amqp::FrameEncoder::new(` => `FrameEncoder::new(` rule=R11
//@@ subst `.map_err(Into::into)` => `.map_err(|e: IoError| -> (o: Error) ensures o == Error::Io(e) { Error::Io(e) })` rule=R17 unless `\.map_err\(`
//@@ subst `matches!(item.body, amqp::FrameBody::Transfer { .. })` => `frame_is_transfer(&item)` rule=optional-R11
//@@ spec
    requires
        old(self).framed_write.codec.max >= 4,       // established by length_delimited_encoder / set_encoder_max_frame_size: max(MIN_MAX_FRAME_SIZE, n) - 4 >= 508
    ensures
        final(self).framed_write.codec == old(self).framed_write.codec,
        final(self).idle_timeout == old(self).idle_timeout && final(self).framed_read == old(self).framed_read,     // [C17.idle.sending-does-not-restart] only what the PEER sends counts against the local idle time-out: writing frames leaves the timer alone (otherwise a silent peer is never detected while the local side keeps sending, e.g. its own heartbeats)
        r is Ok ==> final(self).framed_write.items@.len() >= old(self).framed_write.items@.len()
            && final(self).framed_write.items@.take(old(self).framed_write.items@.len() as int) =~= old(self).framed_write.items@,
        r is Ok ==> flat(added_items(*old(self), *final(self))) =~= wire(item),                                              // [C01.transport.no-loss] [C06.transport.no-loss] the length-delimited items written concatenate to exactly the encoded frame(s): nothing lost, duplicated or reordered
        r is Ok ==> (forall|i: int| 0 <= i < added_items(*old(self), *final(self)).len() ==> 0 < (#[trigger] added_items(*old(self), *final(self))[i]).len() <= old(self).framed_write.codec.max),   // [C01.transport.no-empty-item] [C06.transport.max-frame] (no item is empty: an empty length-delimited item is a 4-octet pseudo-frame the peer's decoder refuses, taking the connection and every later message down) every item (4-byte length prefix added by the codec) stays within the peer's max-frame-size, and no empty item (a bogus 4-byte frame) is ever written
        r is Err && r->Err_0 is FramingError ==> !is_transfer(item) && wire(item).len() > old(self).framed_write.codec.max,   // [C06.transport.refused-only-if-too-large] a frame is refused as unsendable only when it is not a transfer and its encoding really exceeds the peer's max-frame-size: a performative that fits exactly is sent
        r is Ok && !is_transfer(item) ==> added_items(*old(self), *final(self)).len() == 1,                                  // [C06.transport.non-transfer-whole] only a transfer may continue in further frames: any other performative is written as ONE frame, or (when its encoding exceeds the peer's max-frame-size) not at all
        r is Ok ==> (forall|i: int| 0 <= i < added_items(*old(self), *final(self)).len() - 1 ==> (#[trigger] added_items(*old(self), *final(self))[i]).len() == old(self).framed_write.codec.max),   // [C06.transport.cut-points] all but the last item are exactly max long: with unit FRAMEENC's lemma_cut_points the cuts coincide with the frame boundaries of a split transfer
//@@ entry
        let ghost items0 = self.framed_write.items@;
//@@ loop 0
        invariant
            max_frame_size == self.framed_write.codec.max, max_frame_size >= 4,
            self.framed_write.codec == old(self).framed_write.codec,
            self.idle_timeout == old(self).idle_timeout, self.framed_read == old(self).framed_read,
            self.framed_write.items@.len() >= items0.len(),
            self.framed_write.items@.take(items0.len() as int) =~= items0,
            bytesmut@.len() > 0,
            flat(self.framed_write.items@.skip(items0.len() as int)) + bytesmut@ =~= wire(item),
            forall|i: int| 0 <= i < self.framed_write.items@.skip(items0.len() as int).len() ==> (#[trigger] self.framed_write.items@.skip(items0.len() as int)[i]).len() == max_frame_size,
        decreases bytesmut@.len(),
//@@ loopstart 0
            let ghost it0 = self.framed_write.items@;
            let ghost b0 = bytesmut@;
//@@ loopend 0
            proof {
                let k = items0.len() as int;
                assert(self.framed_write.items@.skip(k) =~= it0.skip(k).push(b0.take(max_frame_size as int)));
                lemma_flat_push(it0.skip(k), b0.take(max_frame_size as int));
                assert(b0.take(max_frame_size as int) + b0.skip(max_frame_size as int) =~= b0);
            }
//@@ stmt -2
        let ghost it1 = self.framed_write.items@;
        let ghost b1 = bytesmut@;
        proof {
            let k = items0.len() as int;
            lemma_flat_push(it1.skip(k), b1);
            assert(it1.push(b1).skip(k) =~= it1.skip(k).push(b1));
            assert(it1.push(b1).take(k) =~= items0);
        }
//@@ end

//@@ fn file=fe2o3-amqp/src/transport/mod.rs impl=`impl<Io> Sink<amqp::Frame> for Transport<Io, amqp::Frame> where Io: AsyncWrite + Unpin,` name=poll_ready id=Transport::poll_ready
//@@ subst `self: std::pin::Pin<&mut Self>` => `&mut self` rule=R3
//@@ subst `cx: &mut std::task::Context<'_>` => `cx: &mut Context` rule=R11
//@@ ret Poll<Result<(), Error>>
//@@ subst `let this = self.project();` => `` rule=R3
//@@ subst `this.` => `self.` rule=R3
//@@ subst `.map_err(Into::into)` => `.map_err_io()` rule=R17
//@@ spec
    ensures *final(self) == *old(self),       // [C17.idle.sending-does-not-restart] [C06.transport.no-loss] driving the writer (ready / flush / close) adds nothing to and takes nothing from what was handed over, and leaves the local idle timer alone: only what the PEER sends restarts it
//@@ end

//@@ fn file=fe2o3-amqp/src/transport/mod.rs impl=`impl<Io> Sink<amqp::Frame> for Transport<Io, amqp::Frame> where Io: AsyncWrite + Unpin,` name=poll_flush id=Transport::poll_flush
//@@ subst `self: std::pin::Pin<&mut Self>` => `&mut self` rule=R3
//@@ subst `cx: &mut std::task::Context<'_>` => `cx: &mut Context` rule=R11
//@@ ret Poll<Result<(), Error>>
//@@ subst `let this = self.project();` => `` rule=R3
//@@ subst `this.` => `self.` rule=R3
//@@ subst `.map_err(Into::into)` => `.map_err_io()` rule=R17
//@@ spec
    ensures *final(self) == *old(self),       // [C17.idle.sending-does-not-restart] [C06.transport.no-loss] driving the writer (ready / flush / close) adds nothing to and takes nothing from what was handed over, and leaves the local idle timer alone: only what the PEER sends restarts it
//@@ end

//@@ fn file=fe2o3-amqp/src/transport/mod.rs impl=`impl<Io> Sink<amqp::Frame> for Transport<Io, amqp::Frame> where Io: AsyncWrite + Unpin,` name=poll_close id=Transport::poll_close
//@@ subst `self: std::pin::Pin<&mut Self>` => `&mut self` rule=R3
//@@ subst `cx: &mut std::task::Context<'_>` => `cx: &mut Context` rule=R11
//@@ ret Poll<Result<(), Error>>
//@@ subst `let this = self.project();` => `` rule=R3
//@@ subst `this.` => `self.` rule=R3
//@@ subst `.map_err(Into::into)` => `.map_err_io()` rule=R17
//@@ spec
    ensures *final(self) == *old(self),       // [C17.idle.sending-does-not-restart] [C06.transport.no-loss] driving the writer (ready / flush / close) adds nothing to and takes nothing from what was handed over, and leaves the local idle timer alone: only what the PEER sends restarts it
//@@ end

//@@ fn file=fe2o3-amqp/src/transport/mod.rs impl=`impl<Io> Stream for Transport<Io, amqp::Frame> where Io: AsyncRead + Unpin,` name=poll_next
//@@ subst `self: std::pin::Pin<&mut Self>` => `&mut self` rule=R3
//@@ subst `cx: &mut std::task::Context<'_>` => `cx: &mut Context` rule=R11
//@@ ret Poll<Option<Result<Frame, Error>>>
//@@ subst `let this = self.project();` => `` rule=R3
//@@ subst `this.` => `self.` rule=R3
//@@ subst `.as_pin_mut()` => `.as_mut()` rule=R3
//@@ subst `err.into()` => `Error::Io(err)` rule=R16
//@@ subst `amqp::FrameDecoder {}` => `FrameDecoder {}` rule=R11
//@@ subst `decoder.decode(&mut src).map_err(Into::into).transpose()` => `res_transpose(decoder.decode(&mut src).map_err(|e: FrameError| -> (o: Error) { Error::Frame(e) }))` rule=R17,R19
//@@ spec
    ensures
        final(self).framed_write == old(self).framed_write,
        // something arrived from the peer (a frame, an empty frame, an error, end of stream): the idle timer starts over
        final(self).framed_read.got@ == old(self).framed_read.got@ + 1 ==> (match old(self).idle_timeout {
            Some(t) => final(self).idle_timeout is Some && final(self).idle_timeout->Some_0.resets@ == t.resets@ + 1,          // [C17.idle.restarted-by-incoming] every frame from the peer (heartbeats included) restarts the local idle time-out
            None => final(self).idle_timeout is None }),
        // nothing arrived: the timer is not touched, and once it has run out the time-out is reported
        final(self).framed_read.got@ == old(self).framed_read.got@ ==> (match old(self).idle_timeout {
            Some(t) => final(self).idle_timeout == Some(t)
                && (t.elapsed@ ==> r == Poll::Ready(Some(Err::<Frame, Error>(Error::IdleTimeoutElapsed))))                     // [C17.idle.elapsed-reported] peer silent for the whole local idle time-out => IdleTimeoutElapsed, not an endless wait
                && (!t.elapsed@ ==> r is Pending),
            None => final(self).idle_timeout is None && r is Pending }),
//@@ end

//@@ fn file=fe2o3-amqp/src/transport/mod.rs impl=`~impl<Io>Transport<Io,amqp::Frame>whereIo:AsyncRead+AsyncWrite+Unpin` name=set_encoder_max_frame_size
//@@ ret ()
//@@ subst `std::cmp::max(MIN_MAX_FRAME_SIZE, max_frame_size)` => `usize_max(MIN_MAX_FRAME_SIZE, max_frame_size)` rule=R16 unless `cmp::max|\.max\(`
//@@ subst `; self }` => `; }` rule=R7
//@@ spec
    ensures
        final(self).framed_write.codec.max == (if max_frame_size >= 512 { max_frame_size } else { 512 }) - 4,          // [C06.transport.encoder-limit] an item handed to the length-delimited writer may be at most (peer's max-frame-size, but at least 512) minus the 4 octets of the size field: the frame on the wire never exceeds the peer's max-frame-size
        final(self).framed_write.codec.max >= 508,       // [C15.transport.peer-max-frame-size-clamped] whatever max-frame-size the peer announces (0, 3, 7: below the protocol's minimum) the encoder limit stays sane: no underflow here or in the frame encoder
        final(self).framed_write.items == old(self).framed_write.items, final(self).framed_read == old(self).framed_read, final(self).idle_timeout == old(self).idle_timeout,
//@@ end

//@@ fn file=fe2o3-amqp/src/transport/mod.rs impl=`~impl<Io>Transport<Io,amqp::Frame>whereIo:AsyncRead+AsyncWrite+Unpin` name=set_decoder_max_frame_size
//@@ ret ()
//@@ subst `std::cmp::max(MIN_MAX_FRAME_SIZE, max_frame_size)` => `usize_max(MIN_MAX_FRAME_SIZE, max_frame_size)` rule=R16 unless `cmp::max|\.max\(`
//@@ subst `; self }` => `; }` rule=R7
//@@ spec
    ensures
        final(self).framed_read.codec.max == (if max_frame_size >= 512 { max_frame_size } else { 512 }),                // [C15.transport.decoder-limit] an incoming frame whose size field exceeds our own max-frame-size (at least 512) is refused by the length-delimited reader before it is buffered
        final(self).framed_write == old(self).framed_write, final(self).idle_timeout == old(self).idle_timeout,
//@@ end

//@@ fn file=fe2o3-amqp/src/transport/mod.rs impl=`~impl<Io>Transport<Io,amqp::Frame>whereIo:AsyncRead+AsyncWrite+Unpin` name=encoder_max_frame_size
//@@ spec
    ensures r == self.framed_write.codec.max,
//@@ end
}

//@@ fn file=fe2o3-amqp/src/transport/mod.rs name=length_delimited_encoder
//@@ spec
    requires max_frame_size >= 4,
    ensures r.max == max_frame_size - 4,                               // [C06.transport.encoder-limit]
//@@ end

//@@ fn file=fe2o3-amqp/src/transport/mod.rs name=length_delimited_decoder
//@@ spec
    ensures r.max == max_frame_size,                                   // [C15.transport.decoder-limit]
//@@ end


impl Transport {
//@@ fn file=fe2o3-amqp/src/transport/mod.rs impl=`~impl<Io,Ftype>Transport<Io,Ftype>whereIo:AsyncRead+AsyncWrite+Unpin` name=bind_to_framed_codec
//@@ blockarms
//@@ param framed_write : FramedWriteS
//@@ param framed_read : FramedReadS
//@@ ret Transport
//@@ subst `ftype: PhantomData,` => `` rule=R7
//@@ spec
    ensures r.framed_write == framed_write, r.framed_read == framed_read,
        (r.idle_timeout is Some) == (idle_timeout is Some && !idle_timeout->Some_0.zero),       // [C17.idle-time-out.armed-iff-configured] the local idle timer exists exactly when a non-zero idle time-out was configured
//@@ end

//@@ fn file=fe2o3-amqp/src/transport/mod.rs impl=`~impl<Io>Transport<Io,amqp::Frame>whereIo:AsyncRead+AsyncWrite+Unpin` name=set_idle_timeout
//@@ blockarms
//@@ ret ()
//@@ subst `; self }` => `; }` rule=R7
//@@ spec
    ensures final(self).framed_write == old(self).framed_write, final(self).framed_read == old(self).framed_read,
        (final(self).idle_timeout is Some) == !duration.zero,       // [C17.idle-time-out.armed-iff-configured]
//@@ end
}
} // verus!
fn main() {}
