// ---- shared specification vocabulary of units SERFIX and READERS: AMQP 1.0 fixed-width encodings, written from the specification (part 1, 1.6) ----
pub open spec fn be16(x: u16) -> Seq<u8> { seq![(x >> 8) as u8, (x & 0xff) as u8] }
pub open spec fn be64(x: u64) -> Seq<u8> {
    seq![(x >> 56) as u8, ((x >> 48) & 0xff) as u8, ((x >> 40) & 0xff) as u8, ((x >> 32) & 0xff) as u8, ((x >> 24) & 0xff) as u8, ((x >> 16) & 0xff) as u8, ((x >> 8) & 0xff) as u8, (x & 0xff) as u8]
}
/// AMQP 1.0 part 1, 1.6: a fixed-width value is its constructor followed by its data octets; inside an array the constructor is written once, with the first element
pub open spec fn fixed(code: u8, data: Seq<u8>, e: IsArrayElement) -> Seq<u8> { if e is OtherElement { data } else { seq![code] + data } }

pub open spec fn enc_i8(v: i8, e: IsArrayElement) -> Seq<u8> { fixed(0x51u8, seq![v as u8], e) }
pub open spec fn enc_i16(v: i16, e: IsArrayElement) -> Seq<u8> { fixed(0x61u8, be16(v as u16), e) }
pub open spec fn enc_i32(v: i32, e: IsArrayElement) -> Seq<u8> { if e is False && -128 <= v <= 127 { seq![0x54u8, v as u8] } else { fixed(0x71u8, be32(v as u32), e) } }
pub open spec fn enc_u8(v: u8, e: IsArrayElement) -> Seq<u8> { fixed(0x50u8, seq![v], e) }
pub open spec fn enc_u16(v: u16, e: IsArrayElement) -> Seq<u8> { fixed(0x60u8, be16(v), e) }
pub open spec fn enc_u32(v: u32, e: IsArrayElement) -> Seq<u8> { if e is False && v == 0 { seq![0x43u8] } else if e is False && v <= 255 { seq![0x52u8, v as u8] } else { fixed(0x70u8, be32(v), e) } }
pub open spec fn enc_u64(v: u64, e: IsArrayElement) -> Seq<u8> { if e is False && v == 0 { seq![0x44u8] } else if e is False && v <= 255 { seq![0x53u8, v as u8] } else { fixed(0x80u8, be64(v), e) } }
pub open spec fn enc_char(v: char, e: IsArrayElement) -> Seq<u8> { fixed(0x73u8, be32(v as u32), e) }

