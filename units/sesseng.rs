//@@ unit SESSENG
//@@ gsubst `definitions::Error` => `AmqpError` rule=R11
#![feature(allocator_api)]
#![allow(unused_imports, unused_variables, dead_code, unused_mut, unused_parens)]
use vstd::prelude::*;

verus! {

//@@ include common.rs
//@@ trusted the session endpoint S (endpoint::SessionEndpoint) is a stand-in whose method contracts are those proved in unit SESSION for the real Session (state transitions of on_incoming_end / send_end, frames returned by on_outgoing_*); everything else it does is unconstrained
//@@ trusted mpsc::Sender<SessionFrame> = ghost trace of frames put on the connection (R9); mpsc::Receiver<LinkFrame> = ghost queue: close() then recv() yields the queued frames in order and None exactly when the queue is empty
//@@ trusted leaf stand-ins: performatives, Payload, ConnectionControl, SessionControl receivers, AmqpError opaque

macro_rules! opaque {
    ($($n:ident),*) => { verus!{ $(
        #[verifier::external_body]
        pub struct $n { _p: u8 }
        impl Clone for $n { #[verifier::external_body] fn clone(&self) -> (r: Self) ensures r == *self { unimplemented!() } }
    )* } }
}
opaque!(Attach, Flow, Transfer, Disposition, Detach, Begin, Payload, AmqpError, SessCtlRx, LinkFlow, TransactionId, InputHandle, ChanSendError, LinkRelayS, OutputHandle, AllocLinkError, ConnectionError, AllocTxnIdError, Accepted, TransactionError);
// bytes::Bytes as far as these functions may look at it: its length (R11)
impl Payload {
    pub uninterp spec fn spec_len(&self) -> nat;
    #[verifier::external_body]
    pub fn len(&self) -> (r: usize) ensures r == self.spec_len() { unimplemented!() }
    #[verifier::external_body]
    pub fn is_empty(&self) -> (r: bool) ensures r == (self.spec_len() == 0) { unimplemented!() }
}
/// oneshot::Sender<T>: the answer either reaches the asker or comes back (the asker is gone)
pub struct OneshotTx<T> { pub g: Ghost<Option<T>> }
impl<T> OneshotTx<T> {
    #[verifier::external_body]
    pub fn send(self, v: T) -> (r: Result<(), T>) { unimplemented!() }
}
pub enum ConnectionControl { Close(Option<AmqpError>), GetMaxFrameSize(OneshotTx<usize>), Other }
/// mpsc::Sender<ConnectionControl> towards the connection engine
pub struct ConnCtlTx { pub sent: Ghost<Seq<ConnectionControl>> }
impl ConnCtlTx {
    #[verifier::external_body]
    pub fn send(&mut self, c: ConnectionControl) -> (r: Result<(), ChanSendError>)
        ensures r is Ok ==> final(self).sent@ == old(self).sent@.push(c), r is Err ==> final(self).sent@ == old(self).sent@,
    { unimplemented!() }
}
#[verifier::external_body]
pub fn amqp_error_new(condition: ConnectionError, description: Option<String>) -> (r: AmqpError) { unimplemented!() }
#[verifier::external_body]
pub fn alloc_err_into(e: Result<OutputHandle, AllocLinkError>) -> (r: Result<OutputHandle, AllocLinkError>) ensures r == e { unimplemented!() }
//@@ type file=fe2o3-amqp/src/control.rs kind=enum name=SessionControl
//@@ subst `Option<definitions::Error>` => `Option<AmqpError>` rule=R11
//@@ subst `LinkRelay<()>` => `LinkRelayS` rule=R11
//@@ subst `oneshot::Sender<` => `OneshotTx<` rule=R9
//@@ end
/// mpsc::Receiver<SessionIncomingItem>: what the connection engine still forwards to this session, in order; None = the connection engine is gone
pub struct SessInRx { pub pending: Ghost<Seq<SessionFrame>>, pub taken: Ghost<Seq<SessionFrame>> }
impl SessInRx {
    #[verifier::external_body]
    pub fn recv(&mut self) -> (r: Option<SessionFrame>)
        ensures (match r {
            Some(f) => old(self).pending@.len() > 0 && f == old(self).pending@[0] && final(self).pending@ == old(self).pending@.skip(1) && final(self).taken@ == old(self).taken@.push(f),
            None => final(self).pending@ == old(self).pending@ && final(self).taken@ == old(self).taken@,
        }),
    { unimplemented!() }
}
#[derive(Clone, Copy, PartialEq, Eq)]
pub struct IncomingChannel(pub u16);
pub struct OutgoingChannel(pub u16);

//@@ type file=fe2o3-amqp-types/src/states.rs kind=enum name=SessionState clone
//@@ end
//@@ type file=fe2o3-amqp-types/src/performatives/end.rs kind=struct name=End
//@@ subst `Option<Error>` => `Option<AmqpError>` rule=optional
//@@ end
//@@ type file=fe2o3-amqp/src/session/frame.rs kind=struct name=SessionFrame
//@@ end
//@@ type file=fe2o3-amqp/src/session/frame.rs kind=enum name=SessionFrameBody
//@@ end
//@@ type file=fe2o3-amqp/src/session/frame.rs kind=enum name=SessionOutgoingItem
//@@ end
//@@ type file=fe2o3-amqp/src/link/frame.rs kind=enum name=LinkFrame
//@@ end
//@@ type file=fe2o3-amqp/src/link/error.rs kind=enum name=SessionStopReason clone
//@@ end
//@@ type file=fe2o3-amqp/src/session/error.rs kind=enum name=SessionInnerError
//@@ end
//@@ type file=fe2o3-amqp/src/session/error.rs kind=enum name=SessionStateError
//@@ end
//@@ type file=fe2o3-amqp/src/util/mod.rs kind=enum name=Running
//@@ end
pub type SessionIncomingItem = SessionFrame;
#[verifier::external_body]
pub struct ConnectionStopReason { _p: u8 }
impl Clone for ConnectionStopReason { #[verifier::external_body] fn clone(&self) -> (r: Self) ensures r == *self { unimplemented!() } }

impl From<SessionStateError> for SessionInnerError {
    #[verifier::external_body]
    fn from(e: SessionStateError) -> Self { unimplemented!() }
}
/// `impl From<SessionStateError> for SessionInnerError` (session/error.rs) maps variant-wise; the two that matter here:
pub uninterp spec fn state_err_to_inner(e: SessionStateError) -> SessionInnerError;
pub trait ErrInto<T>: Sized { spec fn conv(self) -> T; fn err_into(self) -> (r: T) ensures r == self.conv(); }
impl ErrInto<SessionInnerError> for SessionInnerError { open spec fn conv(self) -> SessionInnerError { self } fn err_into(self) -> (r: SessionInnerError) { let e = self; assert(e == <SessionInnerError as ErrInto<SessionInnerError>>::conv(self)); e } }
impl ErrInto<SessionInnerError> for SessionStateError { open spec fn conv(self) -> SessionInnerError { state_err_to_inner(self) } fn err_into(self) -> (r: SessionInnerError) { state_err_into(self) } }
#[verifier::external_body]
pub fn state_err_into(e: SessionStateError) -> (r: SessionInnerError) ensures r == state_err_to_inner(e) { unimplemented!() }

#[verifier::external_body]
#[verifier::reject_recursive_types(T)]
pub struct OnceCell<T> { c: Option<T> }
impl<T> OnceCell<T> {
    pub uninterp spec fn val(&self) -> Option<T>;
    #[verifier::external_body]
    pub fn get(&self) -> (r: Option<&T>)
        ensures match r { Some(v) => self.val() == Some(*v), None => self.val() is None },
    { unimplemented!() }
}
#[verifier::external_body]
pub fn amqp_error(which: u8) -> (r: AmqpError) { unimplemented!() }
#[verifier::external_body]
pub fn connection_stop_reason_or_closed(cell: &OnceCell<ConnectionStopReason>) -> (r: ConnectionStopReason) { unimplemented!() }
#[verifier::external_body]
pub fn stop_reason_from_conn(r: ConnectionStopReason) -> (o: SessionStopReason) ensures o == spec_stop_reason_from_conn(r) { unimplemented!() }

pub struct ChanSender<T> { pub sent: Ghost<Seq<T>>, pub failures: Ghost<nat> }
impl<T> ChanSender<T> {
    #[verifier::external_body]
    pub fn send(&mut self, v: T) -> (r: Result<(), ChanSendError>)
        ensures
            r is Ok ==> final(self).sent@ == old(self).sent@.push(v) && final(self).failures@ == old(self).failures@,
            r is Err ==> final(self).sent@ == old(self).sent@ && final(self).failures@ == old(self).failures@ + 1,
    { unimplemented!() }
}
pub struct ChanReceiver<T> { pub queue: Ghost<Seq<T>>, pub closed: Ghost<bool> }
impl<T> ChanReceiver<T> {
    #[verifier::external_body]
    pub fn close(&mut self, Ghost(reason_recorded): Ghost<bool>)
        requires reason_recorded,        // [C13.session.stop-reason-before-links-closed] [C14.stop-reason.published-before-channels-close] the links learn of the session's end through the closure of this channel: the reason they will report (the peer's error in particular) is recorded BEFORE the channel is closed, never after
        ensures final(self).queue@ == old(self).queue@, final(self).closed@,
    { unimplemented!() }
    #[verifier::external_body]
    pub fn recv(&mut self) -> (r: Option<T>)
        requires old(self).closed@,
        ensures
            final(self).closed@,
            match r {
                Some(x) => old(self).queue@.len() > 0 && x == old(self).queue@[0] && final(self).queue@ == old(self).queue@.skip(1),
                None => old(self).queue@.len() == 0 && final(self).queue@ == old(self).queue@,
            },
    { unimplemented!() }
}

/// the session endpoint as the engine sees it
/// `waiters_released` (ghost): the completion channels of the deliveries the session's sending links still wait on have been closed (Session::abandon_pending_deliveries, unit SESSION)
pub struct SessS { pub st: SessionState, pub stop: Option<SessionStopReason>, pub conn_stop: OnceCell<ConnectionStopReason>, pub ch: u16, pub opaque_state: Ghost<int>, pub waiters_released: Ghost<bool>, pub begun_with: Ghost<Option<(IncomingChannel, Begin)>> }
pub open spec fn end_frame(ch: u16, error: Option<AmqpError>) -> SessionFrame {
    SessionFrame { channel: ch, body: SessionFrameBody::End(End { error }) }
}
impl SessS {
    #[verifier::external_body]
    pub fn allocate_link(&mut self, link_name: String, link_relay: Option<LinkRelayS>) -> (r: Result<OutputHandle, AllocLinkError>)
        ensures final(self).st == old(self).st, final(self).ch == old(self).ch,
    { unimplemented!() }
    #[verifier::external_body]
    pub fn allocate_incoming_link(&mut self, link_name: String, link_relay: LinkRelayS, input_handle: InputHandle) -> (r: Result<OutputHandle, AllocLinkError>)
        ensures final(self).st == old(self).st, final(self).ch == old(self).ch,
    { unimplemented!() }
    #[verifier::external_body]
    pub fn deallocate_link(&mut self, output_handle: OutputHandle)
        ensures final(self).st == old(self).st, final(self).ch == old(self).ch,
    { unimplemented!() }
    #[verifier::external_body]
    pub fn allocate_transaction_id(&mut self) -> (r: Result<TransactionId, AllocTxnIdError>)
        ensures final(self).st == old(self).st, final(self).ch == old(self).ch,
    { unimplemented!() }
    #[verifier::external_body]
    pub fn commit_transaction(&mut self, txn_id: TransactionId) -> (r: Result<Result<Accepted, TransactionError>, SessionInnerError>)
        ensures final(self).st == old(self).st, final(self).ch == old(self).ch,
    { unimplemented!() }
    #[verifier::external_body]
    pub fn rollback_transaction(&mut self, txn_id: TransactionId) -> (r: Result<Result<Accepted, TransactionError>, SessionInnerError>)
        ensures final(self).st == old(self).st, final(self).ch == old(self).ch,
    { unimplemented!() }
    pub fn local_state(&self) -> (r: &SessionState) ensures *r == self.st { &self.st }
    /// Session::outgoing_channel: the channel number this session writes on
    pub fn outgoing_channel(&self) -> (r: OutgoingChannel) ensures r.0 == self.ch { OutgoingChannel(self.ch) }
    pub fn connection_stop_reason(&self) -> (r: &OnceCell<ConnectionStopReason>) ensures *r == self.conn_stop { &self.conn_stop }
    #[verifier::external_body]
    pub fn set_session_stop_reason(&mut self, reason: SessionStopReason)
        ensures final(self).st == old(self).st, final(self).ch == old(self).ch, final(self).conn_stop == old(self).conn_stop,
            final(self).stop == (if old(self).stop is None { Some(reason) } else { old(self).stop }),
    { unimplemented!() }
    /// Session::send_begin (unit SESSION [C13.session.begin-sent]): one Begin frame on the session's own channel, UNMAPPED -> BEGIN-SENT (or BEGIN-RCVD -> MAPPED)
    #[verifier::external_body]
    pub fn send_begin(&mut self, writer: &mut ChanSender<SessionFrame>) -> (r: Result<(), SessionStateError>)
        ensures final(self).ch == old(self).ch, final(self).stop == old(self).stop, final(self).conn_stop == old(self).conn_stop,
            r is Ok ==> final(writer).sent@.len() == old(writer).sent@.len() + 1 && final(writer).sent@.drop_last() == old(writer).sent@
                && final(writer).sent@.last().channel == old(self).ch && final(writer).sent@.last().body is Begin,
            r is Err ==> final(writer).sent@ == old(writer).sent@ && final(self).st == old(self).st && (r->Err_0 is IllegalState || r->Err_0 is ConnectionStopped),   // unit SESSION [C14.session.begin-failure-is-local]
            final(writer).failures@ == old(writer).failures@ || r is Err,
    { unimplemented!() }
    /// Session::abandon_pending_deliveries (unit SESSION [C14.session-stop.every-sending-relay-reached], unit LINK [C14.session-stop.every-waiter-released])
    #[verifier::external_body]
    pub fn abandon_pending_deliveries(&mut self)
        requires old(self).stop is Some,      // [C14.session-stop.reason-recorded-before-waiters-released] a released waiter reads the stop-reason cell at once: the reason must be in it
        ensures final(self).waiters_released@, final(self).st == old(self).st, final(self).ch == old(self).ch, final(self).conn_stop == old(self).conn_stop, final(self).stop == old(self).stop,
    { unimplemented!() }
    #[verifier::external_body]
    pub fn on_incoming_begin(&mut self, channel: IncomingChannel, begin: Begin) -> (r: Result<(), SessionStateError>)
        ensures final(self).ch == old(self).ch, final(self).begun_with@ == Some((channel, begin)), r is Err ==> r->Err_0 is IllegalState,     // unit SESSION [C14.session.begin-refusal-is-local]
            // contract [C13.session.begin-received] of unit SESSION: a Begin is accepted in UNMAPPED / BEGIN-SENT only
            !(old(self).st is Unmapped || old(self).st is BeginSent) ==> r is Err && final(self).st == old(self).st,
    { unimplemented!() }
    #[verifier::external_body]
    pub fn on_incoming_attach(&mut self, attach: Attach) -> (r: Result<(), SessionInnerError>)
        ensures final(self).st == old(self).st, final(self).ch == old(self).ch,
    { unimplemented!() }
    #[verifier::external_body]
    pub fn on_incoming_flow(&mut self, flow: Flow) -> (r: Result<Option<SessionOutgoingItem>, SessionInnerError>)
        ensures final(self).st == old(self).st, final(self).ch == old(self).ch,
    { unimplemented!() }
    #[verifier::external_body]
    pub fn on_incoming_transfer(&mut self, transfer: Transfer, payload: Payload) -> (r: Result<Option<Disposition>, SessionInnerError>)
        ensures final(self).st == old(self).st, final(self).ch == old(self).ch,
    { unimplemented!() }
    #[verifier::external_body]
    pub fn on_incoming_disposition(&mut self, d: Disposition) -> (r: Result<Option<Vec<Disposition>>, SessionInnerError>)
        ensures final(self).st == old(self).st, final(self).ch == old(self).ch,
    { unimplemented!() }
    #[verifier::external_body]
    pub fn on_incoming_detach(&mut self, d: Detach) -> (r: Result<(), SessionInnerError>)
        ensures final(self).st == old(self).st, final(self).ch == old(self).ch,
    { unimplemented!() }
    /// contract [C13.session.incoming-end] of unit SESSION
    #[verifier::external_body]
    pub fn on_incoming_end(&mut self, channel: IncomingChannel, end: End) -> (r: Result<(), SessionStateError>)
        ensures
            final(self).ch == old(self).ch, final(self).stop == old(self).stop, final(self).conn_stop == old(self).conn_stop,
            match old(self).st {
                SessionState::BeginSent | SessionState::BeginReceived | SessionState::Mapped =>
                    final(self).st == SessionState::EndReceived
                    && (match end.error { Some(e) => r == Err::<(), SessionStateError>(SessionStateError::RemoteEndedWithError(e)), None => r == Err::<(), SessionStateError>(SessionStateError::RemoteEnded) }),
                SessionState::EndSent | SessionState::Discarding =>
                    final(self).st == SessionState::Unmapped
                    && (match end.error { Some(e) => r == Err::<(), SessionStateError>(SessionStateError::RemoteEndedWithError(e)), None => r is Ok }),
                _ => r == Err::<(), SessionStateError>(SessionStateError::IllegalState) && final(self).st == old(self).st,
            },
    { unimplemented!() }
    /// contracts [C13.session.one-end] / [C13.session.end-frame] of unit SESSION
    #[verifier::external_body]
    pub fn send_end(&mut self, writer: &mut ChanSender<SessionFrame>, error: Option<AmqpError>) -> (r: Result<(), SessionStateError>)
        ensures
            final(self).ch == old(self).ch, final(self).stop == old(self).stop,
            match old(self).st {
                SessionState::Mapped => final(self).st == (if error is Some { SessionState::Discarding } else { SessionState::EndSent }),
                SessionState::EndReceived => final(self).st == SessionState::Unmapped,
                _ => r is Err && final(self).st == old(self).st && final(writer).sent@ == old(writer).sent@,
            },
            r is Ok ==> final(writer).sent@ == old(writer).sent@.push(end_frame(old(self).ch, error)) && final(writer).failures@ == old(writer).failures@,
            r is Ok ==> final(writer).sent@.drop_last() =~= old(writer).sent@ && final(writer).sent@.last() == end_frame(old(self).ch, error) && final(writer).sent@.len() == old(writer).sent@.len() + 1,
            r is Err ==> final(writer).sent@ == old(writer).sent@,
            (old(self).st is Mapped || old(self).st is EndReceived) && r is Err ==> final(writer).failures@ > old(writer).failures@,
            final(writer).failures@ >= old(writer).failures@,
    { unimplemented!() }
    #[verifier::external_body]
    pub fn on_outgoing_attach(&mut self, a: Attach) -> (r: Result<SessionFrame, SessionInnerError>)
        ensures final(self).st == old(self).st, final(self).ch == old(self).ch, final(self).stop == old(self).stop, r is Ok, !(r->Ok_0.body is End),   // r is Ok: proved for the real Session in unit SESSION
    { unimplemented!() }
    #[verifier::external_body]
    pub fn on_outgoing_flow(&mut self, f: LinkFlow) -> (r: Result<SessionFrame, SessionInnerError>)
        ensures final(self).st == old(self).st, final(self).ch == old(self).ch, final(self).stop == old(self).stop, r is Ok, !(r->Ok_0.body is End),   // r is Ok: proved for the real Session in unit SESSION
    { unimplemented!() }
    #[verifier::external_body]
    pub fn on_outgoing_transfer(&mut self, h: InputHandle, t: Transfer, p: Payload) -> (r: Result<Option<SessionOutgoingItem>, SessionInnerError>)
        ensures final(self).st == old(self).st, final(self).ch == old(self).ch, final(self).stop == old(self).stop, r is Ok, no_end_in_item(r->Ok_0),   // [C07.send.total] of unit SESSION
    { unimplemented!() }
    #[verifier::external_body]
    pub fn on_outgoing_disposition(&mut self, d: Disposition) -> (r: Result<SessionFrame, SessionInnerError>)
        ensures final(self).st == old(self).st, final(self).ch == old(self).ch, final(self).stop == old(self).stop, r is Ok, !(r->Ok_0.body is End),   // r is Ok: proved for the real Session in unit SESSION
    { unimplemented!() }
    #[verifier::external_body]
    pub fn on_outgoing_detach(&mut self, d: Detach) -> (r: SessionFrame)
        ensures final(self).st == old(self).st, final(self).ch == old(self).ch, final(self).stop == old(self).stop, !(r.body is End),
    { unimplemented!() }
    #[verifier::external_body]
    pub fn maybe_outgoing_session_flow(&mut self) -> (r: Option<SessionOutgoingItem>)
        ensures final(self).st == old(self).st, final(self).ch == old(self).ch, final(self).stop == old(self).stop, no_end_in_item(r),
    { unimplemented!() }
}

pub open spec fn item_frames(o: Option<SessionOutgoingItem>) -> Seq<SessionFrame> {
    match o {
        None => Seq::empty(),
        Some(SessionOutgoingItem::SingleFrame(f)) => seq![f],
        Some(SessionOutgoingItem::MultipleFrames(v)) => v@,
    }
}
pub open spec fn no_end(s: Seq<SessionFrame>) -> bool { forall|i: int| 0 <= i < s.len() ==> !((#[trigger] s[i]).body is End) }
pub open spec fn no_end_in_item(o: Option<SessionOutgoingItem>) -> bool { no_end(item_frames(o)) }
/// s1 extends s0 by frames none of which is an End
pub open spec fn extended_without_end(s0: Seq<SessionFrame>, s1: Seq<SessionFrame>) -> bool {
    s1.len() >= s0.len() && s1.take(s0.len() as int) =~= s0 && no_end(s1.skip(s0.len() as int))
}

pub proof fn lemma_ext_trans(a: Seq<SessionFrame>, b: Seq<SessionFrame>, c: Seq<SessionFrame>)
    requires extended_without_end(a, b), extended_without_end(b, c),
    ensures extended_without_end(a, c),
{
    assert(c.take(a.len() as int) =~= a) by {
        assert(forall|i: int| 0 <= i < a.len() ==> c[i] == c.take(b.len() as int)[i]);
    }
    assert forall|i: int| 0 <= i < c.skip(a.len() as int).len() implies !((#[trigger] c.skip(a.len() as int)[i]).body is End) by {
        let k = i + a.len();
        if k < b.len() {
            assert(c[k] == c.take(b.len() as int)[k]);
            assert(b.skip(a.len() as int)[i] == b[k]);
        } else {
            assert(c.skip(b.len() as int)[k - b.len()] == c[k]);
        }
    }
}

//@@ fn file=fe2o3-amqp/src/session/engine.rs name=send_outgoing_item
//@@ attr #[verifier::loop_isolation(false)]
//@@ shape loops=for
//@@ param outgoing : &mut ChanSender<SessionFrame>
//@@ param conn_stop : &OnceCell<ConnectionStopReason>
//@@ subst `|_v0|` => `|_v0: ChanSendError|` rule=optional-R5
//@@ subst `|_v1|` => `|_v1: ChanSendError|` rule=optional-R5
//@@ spec
    ensures
        r is Ok ==> final(outgoing).sent@ =~= old(outgoing).sent@ + item_frames(Some(outgoing_item)),   // [C01.engine.forward-in-order] every frame of the item is put on the connection, in order, none dropped or duplicated [C07.engine.forward-in-order]
        final(outgoing).sent@.len() >= old(outgoing).sent@.len() && final(outgoing).sent@.take(old(outgoing).sent@.len() as int) =~= old(outgoing).sent@,
        no_end_in_item(Some(outgoing_item)) ==> extended_without_end(old(outgoing).sent@, final(outgoing).sent@),
        final(outgoing).failures@ >= old(outgoing).failures@,
        r is Err ==> final(outgoing).failures@ > old(outgoing).failures@,
//@@ attr #[verifier::loop_isolation(false)]
//@@ loop 0
        invariant
            __it0.seq() == frames@,
            outgoing.sent@ =~= old(outgoing).sent@ + frames@.take(__it0.index@),
            outgoing.failures@ == old(outgoing).failures@,
//@@ end

//@@ type file=fe2o3-amqp/src/session/engine.rs kind=struct name=SessionEngine
//@@ subst `SessionEngine<S: Session>` => `SessionEngine` rule=R7
//@@ subst `session: S` => `session: SessS` rule=R7
//@@ subst `mpsc::Sender<ConnectionControl>` => `ConnCtlTx` rule=R9
//@@ subst `mpsc::Receiver<SessionControl>` => `SessCtlRx` rule=R9
//@@ subst `mpsc::Receiver<SessionIncomingItem>` => `SessInRx` rule=R9
//@@ subst `mpsc::Sender<SessionFrame>` => `ChanSender<SessionFrame>` rule=R9
//@@ subst `mpsc::Receiver<LinkFrame>` => `ChanReceiver<LinkFrame>` rule=R9
//@@ end

impl SessionEngine {
//@@ fn file=fe2o3-amqp/src/session/engine.rs impl=`~impl<S>SessionEngine<S>whereS:endpoint::SessionEndpoint<State=SessionState>+SendBound+Sync+'static,` name=on_outgoing_link_frames
//@@ subst `.map(SessionOutgoingItem::SingleFrame)` => `.map(|v0: SessionFrame| -> (o: SessionOutgoingItem) ensures o == SessionOutgoingItem::SingleFrame(v0) { SessionOutgoingItem::SingleFrame(v0) })` rule=R18 unless `\.map\(`
//@@ subst `.map(Some)` => `.map(|v0: SessionOutgoingItem| -> (o: Option<SessionOutgoingItem>) ensures o == Some(v0) { Some(v0) })` rule=R18 unless `\.map\(`
//@@ subst `&self.outgoing` => `&mut self.outgoing` rule=R9
//@@ subst `self.outgoing_link_frames.close()` => `self.outgoing_link_frames.close(Ghost(self.session.stop is Some))` rule=optional-R9
//@@ subst `unreachable!("LinkFrame::Acquisition should not appear in outgoing link frames")` => `{ assume(false); None }` rule=optional-R12
//@@ spec
    requires
        !(frame is Acquisition),    // ASSUMED: links never queue the (unimplemented) transactional acquisition marker; the arm is `unreachable!`
    ensures
        r is Ok ==> (r->Ok_0 is Stop <==> final(self).session.st is Unmapped),       // [C13.engine.stops-exactly-when-unmapped] the session's engine task goes on while the session is in any state but Unmapped and ends when it is: it neither ends under a session that still owes its End, nor keeps serving a channel that has been given back
        final(self).incoming == old(self).incoming, final(self).session.stop == old(self).session.stop,
        !(old(self).session.st is Mapped || old(self).session.st is EndReceived) ==> r is Err && final(self).outgoing.sent@ == old(self).outgoing.sent@,   // [C13.session.no-link-frame-unless-mapped] once an End has been sent (EndSent / Discarding / Unmapped) or before the session is mapped, no link frame is put on the channel
        final(self).session.st == old(self).session.st && final(self).session.ch == old(self).session.ch && final(self).session.stop == old(self).session.stop,
        final(self).outgoing_link_frames == old(self).outgoing_link_frames,
        extended_without_end(old(self).outgoing.sent@, final(self).outgoing.sent@),                              // [C13.session.link-frames-are-not-end] forwarding link frames never emits an End
        final(self).outgoing.failures@ >= old(self).outgoing.failures@,
        (old(self).session.st is Mapped || old(self).session.st is EndReceived) && r is Err ==> final(self).outgoing.failures@ > old(self).outgoing.failures@,   // [C13.session.flush-cannot-fail-by-state] a queued link frame is refused only when the connection is gone
//@@ end

//@@ fn file=fe2o3-amqp/src/session/engine.rs impl=`~impl<S>SessionEngine<S>whereS:endpoint::SessionEndpoint<State=SessionState>+SendBound+Sync+'static,` name=on_incoming
//@@ shape loops=for,whilelet
//@@ attr #[verifier::loop_isolation(false)]
//@@ subst `result?;` => `match result { Ok(v) => v, Err(e) => return Err(state_err_into(e)) };` rule=optional-R24
//@@ subst `&self.outgoing` => `&mut self.outgoing` rule=R9
//@@ subst `self.outgoing_link_frames.close()` => `self.outgoing_link_frames.close(Ghost(self.session.stop is Some))` rule=optional-R9
//@@ subst `SessionStopReason::from(reason.clone())` => `stop_reason_from_conn(reason.clone())` rule=R16
//@@ subst `|_v0|` => `|_v0: ChanSendError|` rule=optional-R5
//@@ subst `|_v1|` => `|_v1: ChanSendError|` rule=optional-R5
//@@ spec
    requires
        forall|i: int| 0 <= i < old(self).outgoing_link_frames.queue@.len() ==> !((#[trigger] old(self).outgoing_link_frames.queue@[i]) is Acquisition),
    ensures
        r is Ok ==> (r->Ok_0 is Stop <==> final(self).session.st is Unmapped),       // [C13.engine.stops-exactly-when-unmapped] the session's engine task goes on while the session is in any state but Unmapped and ends when it is: it neither ends under a session that still owes its End, nor keeps serving a channel that has been given back
        // peer-initiated end, connection still there
        incoming.body is End && (old(self).session.st is Mapped || old(self).session.st is BeginSent || old(self).session.st is BeginReceived)
            && final(self).outgoing.failures@ == old(self).outgoing.failures@ ==> ({
            let s0 = old(self).outgoing.sent@;
            let s1 = final(self).outgoing.sent@;
            &&& final(self).session.st is Unmapped
            &&& s1.len() > s0.len() && s1.last() == end_frame(old(self).session.ch, None)                           // [C13.session.peer-end-answered] a peer's end is always answered with an end (carrying no error of our own) ...
            &&& extended_without_end(s0, s1.drop_last())                                                            // [C13.session.flush-before-end] ... after everything already queued by the links has been flushed; exactly one End, and it is the last frame
            &&& final(self).outgoing_link_frames.queue@.len() == 0
            &&& r == Err::<Running, SessionInnerError>(state_err_to_inner(match incoming.body->End_0.error { Some(e) => SessionStateError::RemoteEndedWithError(e), None => SessionStateError::RemoteEnded }))   // [C13.session.peer-end-error] the error carried by the peer's end (or plain RemoteEnded) is what is reported, nothing else
        }),
        final(self).incoming == old(self).incoming,
        !(incoming.body is End) ==> final(self).outgoing_link_frames == old(self).outgoing_link_frames,
        (old(self).session.st is EndSent || old(self).session.st is Discarding) && !(incoming.body is End) ==> final(self).session.st == old(self).session.st,
        (old(self).session.st is EndSent || old(self).session.st is Discarding) ==> final(self).outgoing.sent@ == old(self).outgoing.sent@,   // [C13.session.nothing-after-end] once the local End is out NOTHING follows it on the channel, whatever still arrives from the peer (a Flow that re-opens its window or asks for an echo, transfers that use up the incoming window, dispositions to be echoed)
        incoming.body is End && (old(self).session.st is Mapped || old(self).session.st is BeginSent || old(self).session.st is BeginReceived) && old(self).session.stop is None
            && incoming.body->End_0.error is Some ==> final(self).session.stop == Some(SessionStopReason::RemoteEndedWithError(incoming.body->End_0.error->Some_0)),   // [C13.session.peer-end-error-published] the error carried by the peer's end is what every link operation that fails because of it reports
        incoming.body is End && (old(self).session.st is EndSent || old(self).session.st is Discarding) ==>
            final(self).session.st is Unmapped && final(self).outgoing.sent@ == old(self).outgoing.sent@
            && (incoming.body->End_0.error is None ==> r == Ok::<Running, SessionInnerError>(Running::Stop)),       // [C13.session.end-completed] the peer's answer to our end completes the session: nothing more is sent and the engine stops
//@@ loop 1
        invariant
            self.outgoing_link_frames.closed@, self.incoming == old(self).incoming,
            self.session.st is EndReceived, self.session.ch == old(self).session.ch,
            old(self).session.stop is None && incoming.body->End_0.error is Some ==> self.session.stop == Some(SessionStopReason::RemoteEndedWithError(incoming.body->End_0.error->Some_0)),
            extended_without_end(old(self).outgoing.sent@, self.outgoing.sent@),
            self.outgoing.failures@ >= old(self).outgoing.failures@,
            forall|i: int| 0 <= i < self.outgoing_link_frames.queue@.len() ==> !((#[trigger] self.outgoing_link_frames.queue@[i]) is Acquisition),
        decreases self.outgoing_link_frames.queue@.len(),
//@@ loopstart 1
                        let ghost sl = self.outgoing.sent@;
//@@ loopend 1
                        proof { lemma_ext_trans(old(self).outgoing.sent@, sl, self.outgoing.sent@); }
//@@ end
//@@ fn file=fe2o3-amqp/src/session/engine.rs impl=`~impl<S>SessionEngine<S>whereS:endpoint::SessionEndpoint<State=SessionState>+SendBound+Sync+'static,` name=continue_or_stop_by_state
//@@ orsplit
//@@ spec
    ensures (r is Stop) == (self.session.st is Unmapped || self.session.st is Discarding),
//@@ end

//@@ fn file=fe2o3-amqp/src/session/engine.rs impl=`~impl<S>SessionEngine<S>whereS:endpoint::SessionEndpoint<State=SessionState>+SendBound+Sync+'static,` name=wait_for_remote_end
//@@ attr #[verifier::loop_isolation(false)]
//@@ shape loops=loop
//@@ qmark
//@@ attr #[verifier::exec_allows_no_decreases_clause]
//@@ subst `.ok_or(SessionInnerError::ConnectionStopped( connection_stop_reason_or_closed(self.session.connection_stop_reason()), ))` => `.ok_or(SessionInnerError::ConnectionStopped(connection_stop_reason_or_closed(self.session.connection_stop_reason())))` rule=optional
//@@ spec
    requires
        forall|i: int| 0 <= i < old(self).outgoing_link_frames.queue@.len() ==> !((#[trigger] old(self).outgoing_link_frames.queue@[i]) is Acquisition),
        old(self).session.st is EndSent || old(self).session.st is Discarding,
        old(self).session.stop is Some,     // [C15.engine.error-visible-before-waiting-for-the-peer] this wait is entered only from on_error -> end_session: the engine has found a violation (or a local failure) and has written its End. What it found is published (stop reason set; the link relays dropped) BEFORE it waits for the peer's End: the wait has no bound, and a misbehaving peer that never answers -- while it keeps the connection alive with empty frames -- otherwise leaves recv(), session.on_end() pending for ever with no error (the error exists only on the wire)
    ensures
        final(self).outgoing.sent@ == old(self).outgoing.sent@,                              // [C13.session.nothing-after-end] while waiting for the peer's End nothing is written, whatever arrives
        r is Ok ==> final(self).incoming.taken@.len() > old(self).incoming.taken@.len()
            && final(self).incoming.taken@.last() == (SessionFrame { channel: r->Ok_0.0.0, body: SessionFrameBody::End(r->Ok_0.1) }),   // [C13.session.end-returns-after-peer-answer] the wait ends only with the peer's End (or with the connection gone: Err)
//@@ loop 0
        invariant
            self.session.st is EndSent || self.session.st is Discarding,
            self.outgoing.sent@ == old(self).outgoing.sent@,
            self.incoming.taken@.len() >= old(self).incoming.taken@.len(),
            forall|i: int| 0 <= i < self.outgoing_link_frames.queue@.len() ==> !((#[trigger] self.outgoing_link_frames.queue@[i]) is Acquisition),
//@@ end

//@@ fn file=fe2o3-amqp/src/session/engine.rs impl=`~impl<S>SessionEngine<S>whereS:endpoint::SessionEndpoint<State=SessionState>+SendBound+Sync+'static,` name=end_session
//@@ qmark
//@@ orsplit
//@@ subst `&self.outgoing` => `&mut self.outgoing` rule=R9
//@@ subst `self.outgoing_link_frames.close()` => `self.outgoing_link_frames.close(Ghost(self.session.stop is Some))` rule=optional-R9
//@@ subst `|_v0|` => `|_v0: SessionStateError|` rule=optional-R5
//@@ subst `|_v1|` => `|_v1: SessionStateError|` rule=optional-R5
//@@ spec
    requires
        forall|i: int| 0 <= i < old(self).outgoing_link_frames.queue@.len() ==> !((#[trigger] old(self).outgoing_link_frames.queue@[i]) is Acquisition),
    ensures
        r is Ok ==> r->Ok_0 is Stop,
        // at most one End, and none if one has been written before
        (old(self).session.st is Mapped || old(self).session.st is EndReceived) ==>
            final(self).outgoing.sent@ == old(self).outgoing.sent@.push(end_frame(old(self).session.ch, error))
            || (final(self).outgoing.sent@ == old(self).outgoing.sent@ && r is Err),                                    // [C13.session.one-end] ending after an error writes exactly one End (carrying that error) ...
        !(old(self).session.st is Mapped || old(self).session.st is EndReceived) ==> final(self).outgoing.sent@ == old(self).outgoing.sent@,   // [C13.session.one-end] ... and none at all when the End is already out or the session was never mapped
        // it returns Ok only once the peer's End has been seen
        (old(self).session.st is Mapped || old(self).session.st is EndSent || old(self).session.st is Discarding) && r is Ok ==>
            final(self).incoming.taken@.len() > old(self).incoming.taken@.len() && final(self).incoming.taken@.last().body is End,     // [C13.session.end-returns-after-peer-answer]
        old(self).session.st is Mapped && r is Ok ==> final(self).session.st is Unmapped,
        old(self).session.st is EndSent && r is Ok ==> final(self).session.st is Unmapped
            && final(self).incoming.taken@.last().body->End_0.error is None,                                          // [C13.session.peer-end-error-reported] the End of the peer that completes a local end is taken in (state UNMAPPED) and an error it carries is what is reported -- it is not waited for and then thrown away
//@@ end

//@@ fn file=fe2o3-amqp/src/session/engine.rs impl=`~impl<S>SessionEngine<S>whereS:endpoint::SessionEndpoint<State=SessionState>+SendBound+Sync+'static,` name=on_error
//@@ orsplit
//@@ subst `use definitions::Error;` => `` rule=R6
//@@ subst `use fe2o3_amqp_types::transaction::TransactionError;` => `` rule=R6
//@@ subst `Error::new(SessionError::UnattachedHandle, None, None)` => `amqp_error(1)` rule=R11
//@@ subst `Error::new( AmqpError::InternalError, Some(String::from("Link name is not found")), None, )` => `amqp_error(2)` rule=R11
//@@ subst `Error::new(SessionError::HandleInUse, None, None)` => `amqp_error(3)` rule=R11
//@@ subst `Error::new(AmqpError::IllegalState, None, None)` => `amqp_error(4)` rule=R11
//@@ subst `Error::new( AmqpError::NotAllowed, Some(String::from("Found Transfer frame sent Sender link")), None, )` => `amqp_error(5)` rule=R11
//@@ subst `Error::new(TransactionError::UnknownId, None, None)` => `amqp_error(6)` rule=R11
//@@ spec
    requires
        forall|i: int| 0 <= i < old(self).outgoing_link_frames.queue@.len() ==> !((#[trigger] old(self).outgoing_link_frames.queue@[i]) is Acquisition),
    ensures
        *kind is ConnectionStopped ==> r is Err && final(self).outgoing.sent@ == old(self).outgoing.sent@,              // [C13.session.connection-gone] nothing can be written any more
        // any other failure ends the session: at most one End is written, and only if none was written before
        final(self).outgoing.sent@ == old(self).outgoing.sent@
            || ((old(self).session.st is Mapped || old(self).session.st is EndReceived) && final(self).outgoing.sent@.len() == old(self).outgoing.sent@.len() + 1
                && final(self).outgoing.sent@.drop_last() =~= old(self).outgoing.sent@ && final(self).outgoing.sent@.last().body is End),   // [C13.session.one-end]
        (*kind is RemoteEnded || *kind is RemoteEndedWithError) && final(self).outgoing.sent@.len() > old(self).outgoing.sent@.len()
            ==> final(self).outgoing.sent@.last() == end_frame(old(self).session.ch, None),                            // [C13.session.peer-end-answered] the answer to a peer's End carries no error of our own
        r is Ok ==> r->Ok_0 is Stop,
//@@ end

//@@ fn file=fe2o3-amqp/src/session/engine.rs impl=`~impl<S>SessionEngine<S>whereS:endpoint::SessionEndpoint<State=SessionState>+SendBound+Sync+'static,` name=session_stop_reason_from_connection
//@@ subst `SessionStopReason::from(reason.clone())` => `stop_reason_from_conn(reason.clone())` rule=R16
//@@ spec
    ensures self.session.conn_stop.val() is None ==> r == SessionStopReason::Ended,
//@@ end

//@@ fn file=fe2o3-amqp/src/session/engine.rs impl=`~impl<S>SessionEngine<S>whereS:endpoint::SessionEndpoint<State=SessionState>+SendBound+Sync+'static,` name=on_control
//@@ shape loops=whilelet
//@@ qmark
//@@ attr #[verifier::loop_isolation(false)]
//@@ subst `&self.outgoing` => `&mut self.outgoing` rule=R9
//@@ subst `self.outgoing_link_frames.close()` => `self.outgoing_link_frames.close(Ghost(self.session.stop is Some))` rule=optional-R9
//@@ subst `definitions::Error::new(condition, description, None)` => `amqp_error_new(condition, description)` rule=R11
//@@ subst `result.map_err(Into::into)` => `alloc_err_into(result)` rule=R17 unless `\.map_err\(`
//@@ spec
    requires
        forall|i: int| 0 <= i < old(self).outgoing_link_frames.queue@.len() ==> !((#[trigger] old(self).outgoing_link_frames.queue@[i]) is Acquisition),
    ensures
        r is Ok ==> (r->Ok_0 is Stop <==> final(self).session.st is Unmapped),       // [C13.engine.stops-exactly-when-unmapped] the session's engine task goes on while the session is in any state but Unmapped and ends when it is: it neither ends under a session that still owes its End, nor keeps serving a channel that has been given back
        // the application ends the session
        control is End && old(self).session.st is Mapped && final(self).outgoing.failures@ == old(self).outgoing.failures@ ==> ({
            let s0 = old(self).outgoing.sent@;
            let s1 = final(self).outgoing.sent@;
            &&& s1.len() > s0.len() && s1.last() == end_frame(old(self).session.ch, control->End_0)                    // [C13.session.end-frame] exactly one End, carrying the application's error if any, and it is the last frame ...
            &&& extended_without_end(s0, s1.drop_last())                                                               // [C13.session.flush-before-end] ... after everything the links had already queued
            &&& final(self).outgoing_link_frames.queue@.len() == 0
            &&& final(self).session.st == (if control->End_0 is Some { SessionState::Discarding } else { SessionState::EndSent })
        }),
        control is End && !(old(self).session.st is Mapped || old(self).session.st is EndReceived || old(self).session.st is EndSent || old(self).session.st is Discarding) ==> r is Err && extended_without_end(old(self).outgoing.sent@, final(self).outgoing.sent@),   // [C13.session.one-end] an end request before the session is mapped (or after it is over) writes no End
        control is End && (old(self).session.st is EndSent || old(self).session.st is Discarding) ==> r is Ok && final(self).session == old(self).session,   // [C13.session.repeated-end-request-ignored] a further end request once the local End is out (try_end() polled again, end() after try_end()) is ignored: it writes nothing, changes nothing and is NOT an error that would replace the result of the end handshake (the peer's error, or a clean end) by IllegalState
        (old(self).session.st is EndSent || old(self).session.st is Discarding) ==> final(self).outgoing.sent@ == old(self).outgoing.sent@,   // [C13.session.nothing-after-end] whatever is still asked of the session once its End is out (a disposition queued behind the end request by a transaction commit, a second end request), nothing is written
        // nothing else the application asks for puts an End on the wire
        !(control is End) ==> extended_without_end(old(self).outgoing.sent@, final(self).outgoing.sent@),              // [C13.session.controls-are-not-end]
//@@ loop 0
        invariant
            self.outgoing_link_frames.closed@,
            self.session.st == old(self).session.st, self.session.ch == old(self).session.ch,
            extended_without_end(old(self).outgoing.sent@, self.outgoing.sent@),
            (old(self).session.st is EndSent || old(self).session.st is Discarding) ==> self.outgoing.sent@ == old(self).outgoing.sent@,
            self.outgoing.failures@ >= old(self).outgoing.failures@,
            forall|i: int| 0 <= i < self.outgoing_link_frames.queue@.len() ==> !((#[trigger] self.outgoing_link_frames.queue@[i]) is Acquisition),
        decreases self.outgoing_link_frames.queue@.len(),
//@@ loopstart 0
                    let ghost sl = self.outgoing.sent@;
//@@ loopend 0
                    proof { lemma_ext_trans(old(self).outgoing.sent@, sl, self.outgoing.sent@); }
//@@ end


//@@ fn file=fe2o3-amqp/src/session/engine.rs impl=`~impl<S>SessionEngine<S>whereS:endpoint::SessionEndpoint<State=SessionState>+SendBound+Sync+'static,` name=event_loop as=event_loop_tail
//@@ tailafter `loop {`
//@@ addparam outcome: Result<(), SessionInnerError>
//@@ param tx : SessOutcomeTx
//@@ subst `(mut self,` => `(&mut self,` rule=R32
//@@ subst `SessionStopReason::from(reason.clone())` => `stop_reason_from_conn(reason.clone())` rule=R16
//@@ subst `connection::deallocate_session(__E1)` => `deallocate_session(__E1)` rule=R11
//@@ subst `other.map_err(Into::into)` => `other.map_err(|e: SessionInnerError| -> (o: SessError) ensures o == inner_to_sess_error(e) { inner_into_sess_error(e) })` rule=R17 unless `\.map_err\(`
//@@ spec
    requires
        tx.outcome@ == outcome,
    ensures
        old(self).session.stop is None ==> final(self).session.stop == Some(match outcome {
            Err(SessionInnerError::ConnectionStopped(reason)) => spec_stop_reason_from_conn(reason),
            Err(SessionInnerError::RemoteEndedWithError(error)) => SessionStopReason::RemoteEndedWithError(error),
            Err(SessionInnerError::RemoteEnded) => SessionStopReason::RemoteEnded,
            _ => SessionStopReason::Ended,
        }),                                                                                                       // [C13.session.stop-reason-matches-outcome] [C14.stop-reason.says-who-stopped-and-why] the links of a stopped session are told why: the peer's End (with its error), the connection's stop reason, or a plain end
        final(self).outgoing.sent@ == old(self).outgoing.sent@,                                                    // [C13.session.nothing-after-end] tearing the engine down writes nothing on the session's channel
        final(self).session.waiters_released@,                                                                      // [C14.session-stop.pending-sends-released] when the session engine stops, every send that still waits for its delivery's outcome is released (it then reports the recorded stop reason): the unsettled maps are shared with the links and outlive the session's relays, so without this a pending `send()` -- and the outcome of every earlier batchable send -- waits for ever once the connection or session is gone
//@@ end
}
//@@ type file=fe2o3-amqp/src/session/error.rs kind=enum name=BeginError
//@@ end
impl ErrInto<BeginError> for SessionStateError {
    open spec fn conv(self) -> BeginError {
        match self {
            SessionStateError::IllegalState => BeginError::IllegalState,
            SessionStateError::ConnectionStopped(reason) => BeginError::ConnectionStopped(reason),
            SessionStateError::RemoteEnded => BeginError::RemoteEnded,
            SessionStateError::RemoteEndedWithError(err) => BeginError::RemoteEndedWithError(err),
        }
    }
//@@ fn file=fe2o3-amqp/src/session/error.rs impl=`impl From<SessionStateError> for BeginError` name=from as=err_into
//@@ subst `(error: SessionStateError)` => `(self)` rule=R16
//@@ subst `match error {` => `match self {` rule=R16
//@@ subst `Self::` => `BeginError::` rule=R16
//@@ ret BeginError
//@@ end
}
impl SessionEngine {
//@@ fn file=fe2o3-amqp/src/session/engine.rs impl=`~impl<S>SessionEngine<S>whereS:endpoint::Session,BeginError:From<S::BeginError>,` name=begin_client_session
//@@ qmark
//@@ param conn_control : ConnCtlTx
//@@ param session : SessS
//@@ param control : SessCtlRx
//@@ param incoming : SessInRx
//@@ param outgoing : ChanSender<SessionFrame>
//@@ param outgoing_link_frames : ChanReceiver<LinkFrame>
//@@ subst `&engine.outgoing` => `&mut engine.outgoing` rule=R9
//@@ spec
    ensures
        r is Ok ==> ({
            let e = r->Ok_0;
            &&& e.outgoing.sent@.len() == outgoing.sent@.len() + 1 && e.outgoing.sent@.drop_last() == outgoing.sent@
                && e.outgoing.sent@.last().channel == session.ch && e.outgoing.sent@.last().body is Begin                 // [C13.session.begin-handshake.begin-sent-once] a session comes up only after its own begin has gone out -- exactly one, on its own channel
            &&& incoming.pending@.len() > 0 && incoming.pending@[0].body is Begin
                && e.session.begun_with@ == Some((IncomingChannel(incoming.pending@[0].channel), incoming.pending@[0].body->Begin_0))   // [C13.session.begin-handshake.peers-begin-taken-over] [C11.session.begin-handshake.channel-as-arrived] ... and the peer's answering begin (its windows, its handle-max) has been taken over by the session, with the channel it arrived on
            &&& e.incoming.pending@ == incoming.pending@.skip(1)                                                           // [C01.session.begin-handshake.nothing-else-consumed] nothing behind the begin is consumed: frames the peer pipelines behind its begin stay for the engine
            &&& e.conn_control == conn_control && e.control == control && e.outgoing_link_frames == outgoing_link_frames && e.session.ch == session.ch   // [C13.session-wiring.engine-keeps-its-ends] the engine that comes up reads and writes exactly the channel ends it was given (unit SESSWIRING relies on it)
        }),
        incoming.pending@.len() > 0 && incoming.pending@[0].body is End ==> r is Err,                                          // [C13.session.begin-handshake.no-session-on-an-end] a peer that answers the begin with an end: no session comes up
        r is Err && r->Err_0 is RemoteEndedWithError ==> incoming.pending@.len() > 0 && incoming.pending@[0].body is End
            && incoming.pending@[0].body->End_0.error == Some(r->Err_0->RemoteEndedWithError_0),                               // [C14.session.begin-handshake.peers-end-error-reported] an error reported as the PEER's is the error condition of the peer's end frame, unchanged
        r is Err && r->Err_0 is RemoteEnded ==> incoming.pending@.len() > 0 && incoming.pending@[0].body is End && incoming.pending@[0].body->End_0.error is None,
        incoming.pending@.len() > 0 && !(incoming.pending@[0].body is End) && !(incoming.pending@[0].body is Begin) ==> r is Err,   // [C15.session.begin-handshake.other-frame-refused] any other frame in place of the answering begin is refused (an error, no panic), the session does not come up
//@@ end
}
impl SessionEngine {
//@@ fn file=fe2o3-amqp/src/session/engine.rs impl=`~impl<S>SessionEngine<S>whereS:endpoint::SessionEndpoint<State=SessionState>+SendBound+Sync+'static,` name=event_loop as=event_loop_arm_link_frames
//@@ selectarm `frame = self.outgoing_link_frames.recv()`
//@@ addparam frame: Option<LinkFrame>
//@@ addparam outgoing_link_frames_done: &mut bool
//@@ param tx : SessOutcomeTx
//@@ ret (Result<Running, SessionInnerError>, bool)
//@@ subst `(mut self,` => `(&mut self,` rule=R32
//@@ subst `outgoing_link_frames_done` => `(*outgoing_link_frames_done)` rule=optional-R33
//@@ spec
    requires
        frame is Some ==> !(frame->Some_0 is Acquisition),
    ensures
        frame is None ==> !r.1,      // [C15.engine.closed-channel-not-polled-again] `recv()` on the links' frame channel yields None only when the channel is closed and drained (after session.end() / the handle and all links dropped) -- and from then on it yields None IMMEDIATELY on every poll: the branch of the select loop that polls it is disabled once it has seen None. Otherwise the engine task is runnable all the time while it waits for the peer's End (one core at 100 %, for as long as the peer likes)
//@@ end
}
/// session::Error (session/error.rs) and `impl From<SessionInnerError> for Error` (variant-wise, R11)
pub enum SessError { UnattachedHandle, RemoteAttachingLinkNameNotFound, HandleInUse, IllegalState, ConnectionStopped(ConnectionStopReason), TransferFrameToSender, RemoteEnded, RemoteEndedWithError(AmqpError), UnknownTxnId }
pub open spec fn inner_to_sess_error(e: SessionInnerError) -> SessError {
    match e {
        SessionInnerError::UnattachedHandle => SessError::UnattachedHandle, SessionInnerError::RemoteAttachingLinkNameNotFound => SessError::RemoteAttachingLinkNameNotFound,
        SessionInnerError::HandleInUse => SessError::HandleInUse, SessionInnerError::IllegalState => SessError::IllegalState,
        SessionInnerError::ConnectionStopped(r) => SessError::ConnectionStopped(r), SessionInnerError::TransferFrameToSender => SessError::TransferFrameToSender,
        SessionInnerError::RemoteEnded => SessError::RemoteEnded, SessionInnerError::RemoteEndedWithError(x) => SessError::RemoteEndedWithError(x),
        SessionInnerError::UnknownTxnId => SessError::UnknownTxnId,
    }
}
pub fn inner_into_sess_error(e: SessionInnerError) -> (r: SessError) ensures r == inner_to_sess_error(e) {
    match e {
        SessionInnerError::UnattachedHandle => SessError::UnattachedHandle, SessionInnerError::RemoteAttachingLinkNameNotFound => SessError::RemoteAttachingLinkNameNotFound,
        SessionInnerError::HandleInUse => SessError::HandleInUse, SessionInnerError::IllegalState => SessError::IllegalState,
        SessionInnerError::ConnectionStopped(r) => SessError::ConnectionStopped(r), SessionInnerError::TransferFrameToSender => SessError::TransferFrameToSender,
        SessionInnerError::RemoteEnded => SessError::RemoteEnded, SessionInnerError::RemoteEndedWithError(x) => SessError::RemoteEndedWithError(x),
        SessionInnerError::UnknownTxnId => SessError::UnknownTxnId,
    }
}
/// the oneshot the SessionHandle reads its result from (`end` / `on_end`); `outcome` (ghost): what the event loop ended with
pub struct SessOutcomeTx { pub outcome: Ghost<Result<(), SessionInnerError>> }
impl SessOutcomeTx {
    #[verifier::external_body]
    pub fn send(self, r: Result<(), SessError>) -> (o: Result<(), Result<(), SessError>>)
        requires
            self.outcome@ is Ok ==> r is Ok,                                                                            // [C13.session.result.clean-end-reported-clean]
            self.outcome@ is Err && self.outcome@->Err_0 is RemoteEndedWithError ==> r == Err::<(), SessError>(SessError::RemoteEndedWithError(self.outcome@->Err_0->RemoteEndedWithError_0)),   // [C13.session.result.peer-end-error-reported] [C14.handle.reports-peer-error] an error carried by the peer's End is what end() / on_end() returns
            self.outcome@ is Err && self.outcome@->Err_0 is RemoteEnded ==> r == Err::<(), SessError>(SessError::RemoteEnded),
    { unimplemented!() }
}
/// connection::deallocate_session: asks the connection engine to forget the session's channel
#[verifier::external_body]
pub fn deallocate_session(c: &mut ConnCtlTx, ch: OutgoingChannel) -> (r: Result<(), ChanSendError>) { unimplemented!() }
pub uninterp spec fn spec_stop_reason_from_conn(r: ConnectionStopReason) -> SessionStopReason;

} // verus!
fn main() {}
