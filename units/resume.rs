//@@ unit RESUME
#![feature(allocator_api)]
#![allow(unused_imports, unused_variables, dead_code, unused_mut, unused_parens)]
use vstd::prelude::*;

verus! {

//@@ trusted leaf stand-ins: the bodies of the delivery states (Accepted, Rejected, Released, Modified, Declared, TransactionalState) and Payload are opaque values with a value-equal Clone; the derived `PartialOrd` of Received is the lexicographic order on (section-number, section-offset) (received_le: what `#[derive(PartialOrd)]` generates for a two-field struct)
//@@ trusted the completion channel of a send (tokio oneshot::Sender<Option<DeliveryState>>) is a stand-in value; UnsettledMessage::settle / settle_with_state (under contract in unit LINK: they resolve the message's OWN channel with the recorded state / with the state given) are stand-ins that append (channel, value) to a ghost resolution log handed in as an extra parameter (R9) -- by-value calls leave no other trace
//@@ trusted split_off_at_section_and_offset (iterator adapters: zip / skip / enumerate over the payload octets) is an uninterpreted function of (payload, section, offset)

macro_rules! opaque {
    ($($n:ident),*) => { verus!{ $(
        #[verifier::external_body]
        pub struct $n { _p: u8 }
        impl Clone for $n { #[verifier::external_body] fn clone(&self) -> (r: Self) ensures r == *self { unimplemented!() } }
    )* } }
}
opaque!(Accepted, Rejected, Released, Modified, Declared, TransactionalState, Payload, OneshotSender);
pub type MessageFormat = u32;
pub type Uint = u32;
pub type Ulong = u64;

//@@ type file=fe2o3-amqp-types/src/messaging/delivery_state/mod.rs kind=struct name=Received clone
//@@ end
//@@ type file=fe2o3-amqp-types/src/messaging/delivery_state/mod.rs kind=enum name=DeliveryState clone
//@@ end
//@@ type file=fe2o3-amqp/src/link/resumption.rs kind=enum name=ResumingDelivery
//@@ subst `oneshot::Sender<Option<DeliveryState>>` => `OneshotSender` rule=R9
//@@ end
//@@ type file=fe2o3-amqp/src/link/delivery.rs kind=struct name=UnsettledMessage
//@@ subst `oneshot::Sender<Option<DeliveryState>>` => `OneshotSender` rule=R9
//@@ end

pub type ResolutionLog = Ghost<Seq<(OneshotSender, Option<DeliveryState>)>>;
impl UnsettledMessage {
    /// UnsettledMessage::settle (unit LINK [C02.settle.own-channel]) with the resolution recorded
    #[verifier::external_body]
    pub fn settle_l(self, log: &mut ResolutionLog) -> (r: Result<(), Option<DeliveryState>>)
        ensures final(log)@ == old(log)@.push((self.sender, self.state)),
    { unimplemented!() }
    /// UnsettledMessage::settle_with_state (unit LINK [C02.settle.with-state]) with the resolution recorded
    #[verifier::external_body]
    pub fn settle_with_state_l(self, state: Option<DeliveryState>, log: &mut ResolutionLog) -> (r: Result<(), Option<DeliveryState>>)
        ensures final(log)@ == old(log)@.push((self.sender, state)),
    { unimplemented!() }
}
pub uninterp spec fn split_at(payload: Payload, section: usize, offset: usize) -> Option<Payload>;
#[verifier::external_body]
pub fn split_off_at_section_and_offset(payload: &Payload, section: usize, offset: usize) -> (r: Option<Payload>)
    ensures r == split_at(*payload, section, offset),
{ unimplemented!() }
pub open spec fn spec_received_le(a: Received, b: Received) -> bool {
    a.section_number < b.section_number || (a.section_number == b.section_number && a.section_offset <= b.section_offset)
}
#[verifier::external_body]
pub fn received_le(a: &Received, b: &Received) -> (r: bool)
    ensures r == spec_received_le(*a, *b),
{ unimplemented!() }

pub open spec fn is_outcome(s: DeliveryState) -> bool { s is Accepted || s is Rejected || s is Released || s is Modified }
pub open spec fn is_txn_state(s: Option<DeliveryState>) -> bool { s is Some && (s->Some_0 is Declared || s->Some_0 is TransactionalState) }
pub open spec fn same_outcome_kind(a: DeliveryState, b: DeliveryState) -> bool {
    (a is Accepted && b is Accepted) || (a is Rejected && b is Rejected) || (a is Released && b is Released) || (a is Modified && b is Modified)
}
/// the peer's record of the delivery as the code reads it: no entry = None; an entry without a state counts as received(0, 0)
pub open spec fn remote_view(remote: Option<Option<DeliveryState>>) -> Option<DeliveryState> {
    match remote {
        None => None,
        Some(None) => Some(DeliveryState::Received(Received { section_number: 0, section_offset: 0 })),
        Some(Some(s)) => Some(s),
    }
}
pub open spec fn has_outcome(s: Option<DeliveryState>) -> bool { s is Some && is_outcome(s->Some_0) }
pub open spec fn txn_case(l: Option<DeliveryState>, remote: Option<Option<DeliveryState>>) -> bool { is_txn_state(l) || is_txn_state(remote_view(remote)) }
/// the completion channel a resuming delivery carries on
pub open spec fn carried_sender(r: ResumingDelivery) -> Option<OneshotSender> {
    match r {
        ResumingDelivery::Abort { sender, .. } => sender,
        ResumingDelivery::Resend(m) => Some(m.sender),
        ResumingDelivery::Resume(m) => Some(m.sender),
        ResumingDelivery::RestateOutcome { sender, .. } => Some(sender),
    }
}

//@@ fn file=fe2o3-amqp/src/link/resumption.rs name=resume_delivery
//@@ addparam log: &mut ResolutionLog
//@@ orsplit
//@@ subst `local.settle_with_state(remote_state)` => `local.settle_with_state_l(remote_state, log)` rule=R9
//@@ subst `local.settle()` => `local.settle_l(log)` rule=R9
//@@ subst `local_recved <= remote_recved` => `received_le(local_recved, remote_recved)` rule=R14
//@@ subst `let remote_state = remote.map(|inner| { __E1 });` => `let remote_state = match remote { Some(inner) => Some({ __E1 }), None => None };` rule=R19 unless `\.map\(`
//@@ spec
    ensures
        r is None ==> final(log)@.len() == old(log)@.len() + 1 && final(log)@.drop_last() =~= old(log)@ && final(log)@.last().0 == local.sender,    // [C02.resume.resolved-once-on-its-own-channel] a send that resumption completes is completed exactly once, through ITS OWN completion channel
        r is Some ==> final(log)@ == old(log)@ && carried_sender(r->Some_0) == Some(local.sender),                                                 // [C02.resume.unresolved-send-carried-on] a send that resumption does not complete stays pending: its completion channel travels on with the resuming delivery (nothing is resolved, nothing is dropped)
        !txn_case(local.state, remote) && !has_outcome(local.state) && has_outcome(remote_view(remote))
            ==> r is None && final(log)@.last().1 == remote_view(remote),                                                                           // [C02.resume.remote-outcome-resolves-the-send] the sender has no outcome of its own (nothing, or a non-terminal `received`) and the receiver's unsettled map reports a terminal outcome: the send completes with precisely THAT outcome -- the one the receiving side applied to this delivery -- not with the sender's stale record
        !txn_case(local.state, remote) && has_outcome(local.state) && (remote_view(remote) is None || (has_outcome(remote_view(remote)) && same_outcome_kind(local.state->Some_0, remote_view(remote)->Some_0)))
            ==> r is None && final(log)@.last().1 == local.state,                                                                                   // [C02.resume.agreed-outcome-settles] both sides hold the same terminal outcome (or the receiver has already forgotten the delivery): the send completes with that outcome
        !txn_case(local.state, remote) && has_outcome(local.state) && has_outcome(remote_view(remote)) && !same_outcome_kind(local.state->Some_0, remote_view(remote)->Some_0)
            ==> r is Some && r->Some_0 is RestateOutcome && r->Some_0->RestateOutcome_local_state == local.state->Some_0,                           // [C02.resume.differing-outcomes-restated] differing terminal outcomes: the sender's view is restated to the receiver, the send stays pending until the receiver echoes it
        !txn_case(local.state, remote) && has_outcome(local.state) && remote_view(remote) is Some && remote_view(remote)->Some_0 is Received
            ==> r is Some && r->Some_0 is Abort,                                                                                                    // [C02.resume.spontaneous-outcome-aborts] a terminal outcome the sender reached on its own while the receiver holds a partial delivery: the delivery is aborted, the send stays pending on the abort
        !txn_case(local.state, remote) && !has_outcome(local.state) && remote_view(remote) is None
            ==> r is Some && r->Some_0 is Resend && r->Some_0->Resend_0 == local,                                                                   // [C01.resume.unknown-to-receiver-resent-whole] a delivery the receiver has no record of is sent again, whole and unchanged
        txn_case(local.state, remote) ==> r is Some && r->Some_0 is Abort,
//@@ end

} // verus!
fn main() {}
