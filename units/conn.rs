//@@ unit CONN
//@@ gsubst `definitions::Error` => `AmqpError` rule=R11
//@@ gsubst `transport::Error` => `TransportError` rule=R11
//@@ gsubst `<connection::Connection as endpoint::Connection>::Error` => `ConnectionInnerError` rule=R2
#![feature(allocator_api)]
#![allow(unused_imports, unused_variables, dead_code, unused_mut, unused_parens)]
use vstd::prelude::*;

verus! {

//@@ include common.rs
//@@ trusted SessionRelay (Arc<mpsc::Sender<SessionFrame>>) is an opaque value with value-equal clone; what is sent through it is not traced
//@@ trusted Sink<Frame> writer stand-in (R9/R13): send appends to a ghost trace and returns Ok, or returns Err leaving it unchanged
//@@ trusted leaf stand-ins: Fields, Symbol, IetfLanguageTag, AmqpError, TransportError, ConnectionStopReason, Attach/Flow/Transfer/Disposition/Detach/Payload opaque

pub type Uint = u32;
pub type Ushort = u16;
pub type Milliseconds = u32;
pub type TransferNumber = u32;

macro_rules! opaque {
    ($($n:ident),*) => { verus!{ $(
        #[verifier::external_body]
        pub struct $n { _p: u8 }
        impl Clone for $n { #[verifier::external_body] fn clone(&self) -> (r: Self) ensures r == *self { unimplemented!() } }
    )* } }
}
opaque!(Fields, Symbol, IetfLanguageTag, AmqpError, TransportError, ConnectionStopReason, Attach, Flow, Transfer, Disposition, Detach, Payload, SessionRelay, Handle);

#[derive(Clone, Copy, PartialEq, Eq)]
pub struct OutgoingChannel(pub u16);
#[derive(Clone, Copy, PartialEq, Eq)]
pub struct IncomingChannel(pub u16);
pub struct MaxFrameSize(pub Uint);
impl Clone for MaxFrameSize { fn clone(&self) -> (r: Self) ensures r == *self { MaxFrameSize(self.0) } }
pub struct ChannelMax(pub Ushort);
impl Clone for ChannelMax { fn clone(&self) -> (r: Self) ensures r == *self { ChannelMax(self.0) } }

#[verifier::external_body]
#[verifier::reject_recursive_types(T)]
pub struct OnceCell<T> { c: Option<T> }

#[verifier::external_body]
pub fn connection_stop_reason_or_closed(cell: &OnceCell<ConnectionStopReason>) -> (r: ConnectionStopReason) { unimplemented!() }

pub fn min(a: u16, b: u16) -> (r: u16) ensures r == (if a <= b { a } else { b }) { if a <= b { a } else { b } }

//@@ type file=fe2o3-amqp-types/src/states.rs kind=enum name=ConnectionState clone
//@@ end
//@@ type file=fe2o3-amqp-types/src/performatives/open.rs kind=struct name=Open clone
//@@ subst `Option<Array<IetfLanguageTag>>` => `Option<Vec<IetfLanguageTag>>`
//@@ subst `Option<Array<Symbol>>` => `Option<Vec<Symbol>>`
//@@ end
//@@ type file=fe2o3-amqp-types/src/performatives/begin.rs kind=struct name=Begin
//@@ subst `Option<Array<Symbol>>` => `Option<Vec<Symbol>>`
//@@ end
//@@ type file=fe2o3-amqp-types/src/performatives/end.rs kind=struct name=End
//@@ subst `Option<Error>` => `Option<AmqpError>` rule=optional
//@@ end
//@@ type file=fe2o3-amqp-types/src/performatives/close.rs kind=struct name=Close
//@@ subst `Option<Error>` => `Option<AmqpError>` rule=optional
//@@ end
//@@ type file=fe2o3-amqp/src/frames/amqp.rs kind=struct name=Frame
//@@ end
//@@ type file=fe2o3-amqp/src/frames/amqp.rs kind=enum name=FrameBody
//@@ end
//@@ type file=fe2o3-amqp/src/connection/error.rs kind=enum name=ConnectionStateError
//@@ end
//@@ type file=fe2o3-amqp/src/connection/error.rs kind=enum name=ConnectionInnerError
//@@ end
//@@ type file=fe2o3-amqp/src/connection/error.rs kind=enum name=AllocSessionError
//@@ end
pub type CloseError = ConnectionStateError;

impl From<TransportError> for ConnectionStateError {
    #[verifier::external_body]
    fn from(e: TransportError) -> Self { ConnectionStateError::TransportError(e) }
}

/// `?` on the writer's error in send_open: thiserror's #[from] on ConnectionStateError::TransportError (R16)
pub trait ErrInto<T>: Sized { spec fn conv(self) -> T; fn err_into(self) -> (r: T) ensures r == self.conv(); }
impl ErrInto<ConnectionStateError> for TransportError { open spec fn conv(self) -> ConnectionStateError { ConnectionStateError::TransportError(self) } fn err_into(self) -> (r: ConnectionStateError) { ConnectionStateError::TransportError(self) } }

impl Frame {
//@@ fn file=fe2o3-amqp/src/frames/amqp.rs impl=`impl Frame` name=new
//@@ param channel : u16
//@@ subst `channel.into()` => `channel` rule=R16
//@@ spec
    ensures r.channel == channel, r.body == body,
//@@ end
}

pub struct FrameSink { pub sent: Ghost<Seq<Frame>> }
impl FrameSink {
    #[verifier::external_body]
    pub fn send(&mut self, f: Frame) -> (r: Result<(), TransportError>)
        ensures
            r is Ok ==> final(self).sent@ == old(self).sent@.push(f),
            r is Err ==> final(self).sent@ == old(self).sent@,
    { unimplemented!() }
}

//@@ type file=fe2o3-amqp/src/connection/mod.rs kind=struct name=Connection
//@@ subst `Arc<OnceLock<ConnectionStopReason>>` => `OnceCell<ConnectionStopReason>` rule=R8
//@@ end

impl Connection {
    /// C17 / C11 invariant: every allocated outgoing channel is within the agreed channel-max
    pub open spec fn channels_within_max(&self) -> bool {
        forall|k: usize| #![auto] self.session_by_outgoing_channel@.contains_key(k) ==> k <= self.agreed_channel_max
    }

//@@ fn file=fe2o3-amqp/src/connection/mod.rs impl=`impl endpoint::Connection for Connection` name=allocate_session
//@@ param tx : SessionRelay
//@@ subst `Arc::new(tx)` => `tx` rule=R8
//@@ spec
    ensures
        match r {
            Ok(ch) => {
                &&& (ch.0 as usize) <= old(self).agreed_channel_max                                                  // [C17.channel-max.never-above] a session is never begun on a channel above min(local, remote) channel-max
                &&& !old(self).session_by_outgoing_channel@.contains_key(ch.0 as usize)                               // [C11.channel.fresh] the channel handed out is not held by any live session
                &&& final(self).session_by_outgoing_channel@ == old(self).session_by_outgoing_channel@.insert(ch.0 as usize, tx)
                &&& (old(self).channels_within_max() ==> final(self).channels_within_max())                           // [C17.channel-max.invariant]
            }
            Err(e) => final(self).session_by_outgoing_channel@ == old(self).session_by_outgoing_channel@              // [C17.channel-max.refusal-leaks-nothing] a refusal leaves the channel table untouched
                && (e is ChannelMaxReached ==> old(self).session_by_outgoing_channel.spec_vacant_key() > old(self).agreed_channel_max),
        },
        (old(self).local_state is Start || old(self).local_state is HeaderSent || old(self).local_state is HeaderReceived || old(self).local_state is HeaderExchange)
            ==> r == Err::<OutgoingChannel, AllocSessionError>(AllocSessionError::ConnectionNotOpened),              // [C12.no-session-before-open]
        (old(self).local_state is CloseSent || old(self).local_state is Discarding || old(self).local_state is End) ==> r is Err && r->Err_0 is ConnectionStopped,   // [C12.no-session-after-close]
        !(old(self).local_state is Start || old(self).local_state is HeaderSent || old(self).local_state is HeaderReceived || old(self).local_state is HeaderExchange
          || old(self).local_state is CloseSent || old(self).local_state is Discarding || old(self).local_state is End) ==> (r is Err ==> r->Err_0 is ChannelMaxReached)
            && (old(self).session_by_outgoing_channel.spec_vacant_key() > old(self).agreed_channel_max ==> r is Err),       // [C17.channel-max.refusal-says-so] on an open connection a session is refused exactly when the next free channel lies above the agreed channel-max, and the application is told THAT (not "connection not opened")
        final(self).local_state == old(self).local_state && final(self).agreed_channel_max == old(self).agreed_channel_max
            && final(self).session_by_incoming_channel == old(self).session_by_incoming_channel
            && final(self).local_open == old(self).local_open && final(self).remote_open == old(self).remote_open,
//@@ end

//@@ fn file=fe2o3-amqp/src/connection/mod.rs impl=`impl endpoint::Connection for Connection` name=deallocate_session
//@@ spec
    requires
        old(self).session_by_outgoing_channel@.contains_key(outgoing_channel.0 as usize),   // [C15.dealloc.pre] slab::Slab::remove panics on a vacant key: callers must pass a channel they allocated (ASSUMED of the engine)
    ensures
        final(self).session_by_outgoing_channel@ == old(self).session_by_outgoing_channel@.remove(outgoing_channel.0 as usize),   // [C11.channel.release] the channel becomes reusable exactly when its session is deallocated
        final(self).session_by_incoming_channel == old(self).session_by_incoming_channel,
        final(self).local_state == old(self).local_state && final(self).agreed_channel_max == old(self).agreed_channel_max,
//@@ end

//@@ fn file=fe2o3-amqp/src/connection/mod.rs impl=`impl endpoint::Connection for Connection` name=on_incoming_open
//@@ spec
    ensures
        match old(self).local_state {
            ConnectionState::HeaderExchange => r is Ok && final(self).local_state == ConnectionState::OpenReceived,
            ConnectionState::OpenSent => r is Ok && final(self).local_state == ConnectionState::Opened,
            ConnectionState::ClosePipe => r is Ok && final(self).local_state == ConnectionState::CloseSent,
            _ => r is Err && final(self).local_state == old(self).local_state && final(self).agreed_channel_max == old(self).agreed_channel_max,
        },                                                                                                             // [C12.open-received] the peer's open is accepted only in the states of AMQP 2.4.6 that expect it; otherwise it is an error and nothing changes
        r is Err ==> !(r->Err_0 is RemoteClosed) && !(r->Err_0 is RemoteClosedWithError),                             // [C12.local-failure-is-not-a-remote-close]
        r is Ok ==> final(self).agreed_channel_max == (if old(self).local_open.channel_max.0 <= open.channel_max.0 { old(self).local_open.channel_max.0 } else { open.channel_max.0 }),   // [C17.channel-max.agreed] agreed channel-max == min(local, remote)
        r is Ok ==> final(self).remote_open == Some(open),
        final(self).session_by_outgoing_channel == old(self).session_by_outgoing_channel,
        final(self).session_by_incoming_channel == old(self).session_by_incoming_channel,
        final(self).local_open == old(self).local_open,
//@@ end

//@@ fn file=fe2o3-amqp/src/connection/mod.rs impl=`impl Connection` name=on_incoming_begin_inner
//@@ spec
    ensures
        !(old(self).local_state is Opened) ==> r is Err && final(self).session_by_incoming_channel@ == old(self).session_by_incoming_channel@,   // [C12.begin-only-when-opened] a begin outside Opened is refused, nothing is mapped
        old(self).local_state is Opened && old(self).session_by_incoming_channel@.contains_key(channel) ==> r is Err && final(self).session_by_incoming_channel@ == old(self).session_by_incoming_channel@,   // [C11.route.channel-in-use-refused] a begin on a channel the peer already uses for a session that is still mapped is refused: it must not silently replace the holder (two mapped sessions behind one channel)
        old(self).local_state is Opened && !old(self).session_by_incoming_channel@.contains_key(channel) && begin.remote_channel is Some && !old(self).session_by_outgoing_channel@.contains_key(begin.remote_channel->Some_0 as usize)
            ==> r is Err && r->Err_0 is NotFound && final(self).session_by_incoming_channel@ == old(self).session_by_incoming_channel@,        // [C15.begin.unknown-remote-channel] a begin naming a channel we never allocated is an error (not a panic); nothing is mapped
        old(self).local_state is Opened && !old(self).session_by_incoming_channel@.contains_key(channel) && begin.remote_channel is Some && old(self).session_by_outgoing_channel@.contains_key(begin.remote_channel->Some_0 as usize)
            ==> r is Ok && r->Ok_0 is Some
                && final(self).session_by_incoming_channel@ == old(self).session_by_incoming_channel@.insert(channel, old(self).session_by_outgoing_channel@[begin.remote_channel->Some_0 as usize])   // [C11.route.begin-maps] the channel the begin ARRIVED on now designates exactly the session that was begun on remote-channel
                && *(r->Ok_0->Some_0) == old(self).session_by_outgoing_channel@[begin.remote_channel->Some_0 as usize],
        old(self).local_state is Opened && !old(self).session_by_incoming_channel@.contains_key(channel) && begin.remote_channel is None ==> r is Ok && r->Ok_0 is None && final(self).session_by_incoming_channel@ == old(self).session_by_incoming_channel@,
        final(self).session_by_outgoing_channel == old(self).session_by_outgoing_channel,
        final(self).local_state == old(self).local_state && final(self).agreed_channel_max == old(self).agreed_channel_max,
//@@ end

//@@ fn file=fe2o3-amqp/src/connection/mod.rs impl=`impl endpoint::Connection for Connection` name=on_incoming_close
//@@ spec
    ensures
        match old(self).local_state {
            ConnectionState::Opened | ConnectionState::OpenPipe | ConnectionState::OpenClosePipe | ConnectionState::OpenReceived | ConnectionState::OpenSent =>
                final(self).local_state == ConnectionState::CloseReceived
                && (match close.error { Some(e) => r == Err::<(), CloseError>(ConnectionStateError::RemoteClosedWithError(e)), None => r == Err::<(), CloseError>(ConnectionStateError::RemoteClosed) }),
            ConnectionState::CloseSent | ConnectionState::Discarding =>
                final(self).local_state == ConnectionState::End
                && (match close.error { Some(e) => r == Err::<(), CloseError>(ConnectionStateError::RemoteClosedWithError(e)), None => r is Ok }),
            _ => r == Err::<(), CloseError>(ConnectionStateError::IllegalState) && final(self).local_state == old(self).local_state,
        },                                                                                                             // [C12.close-received] a peer close moves to CloseReceived (to be answered) or completes ours; the peer's error is what is reported [C14.close.peers-answering-close-completes-ours] -- with or without an error in it: otherwise the engine goes on waiting for a close that has already arrived, `close()` / `on_close()` never return and the stop reason is never published
        *final(self) == (Connection { local_state: final(self).local_state, ..*old(self) }),
//@@ end

//@@ fn file=fe2o3-amqp/src/connection/mod.rs impl=`impl endpoint::Connection for Connection` name=send_open
//@@ qmark
//@@ generics
//@@ nowhere
//@@ param writer : &mut FrameSink
//@@ spec
    ensures
        r is Ok ==> final(writer).sent@ == old(writer).sent@.push(Frame { channel: 0, body: FrameBody::Open(old(self).local_open) }),   // [C12.open-frame] the open sent is the configured one, on channel 0
        r is Ok ==> (match old(self).local_state {
            ConnectionState::HeaderExchange => final(self).local_state == ConnectionState::OpenSent,
            ConnectionState::OpenReceived => final(self).local_state == ConnectionState::Opened,
            ConnectionState::HeaderSent => final(self).local_state == ConnectionState::OpenPipe,
            _ => false,
        }),                                                                                                            // [C12.open-sent] sending the open succeeds only from the three states that precede it, and leaves them: so it succeeds at most once
        r is Err ==> !(r->Err_0 is RemoteClosed) && !(r->Err_0 is RemoteClosedWithError),                             // [C12.local-failure-is-not-a-remote-close] a failure to send the open is never reported as the peer having closed
        r is Err ==> final(self).local_state == old(self).local_state,
        final(writer).sent@ == old(writer).sent@ || final(writer).sent@ == old(writer).sent@.push(Frame { channel: 0, body: FrameBody::Open(old(self).local_open) }),   // [C12.open-frame] whatever the outcome, nothing but (at most one) local Open is written
        *final(self) == (Connection { local_state: final(self).local_state, ..*old(self) }),
//@@ end

//@@ fn file=fe2o3-amqp/src/connection/mod.rs impl=`impl endpoint::Connection for Connection` name=send_close
//@@ generics
//@@ nowhere
//@@ param writer : &mut FrameSink
//@@ spec
    ensures
        r is Ok ==> final(writer).sent@ == old(writer).sent@.push(Frame { channel: 0, body: FrameBody::Close(Close { error }) }),   // [C12.close-frame] the close carries the caller's error
        r is Ok ==> (match old(self).local_state {
            ConnectionState::Opened => final(self).local_state == (if error is Some { ConnectionState::Discarding } else { ConnectionState::CloseSent }),
            ConnectionState::CloseReceived => final(self).local_state == ConnectionState::End,
            ConnectionState::OpenSent => final(self).local_state == (if error is Some { ConnectionState::Discarding } else { ConnectionState::ClosePipe }),
            ConnectionState::OpenPipe => final(self).local_state == (if error is Some { ConnectionState::Discarding } else { ConnectionState::OpenClosePipe }),
            _ => false,
        }),                                                                                                            // [C12.close-sent] a close succeeds only from a state in which none was sent yet and moves to one in which no further close can succeed: at most one close
        r is Err ==> final(self).local_state == old(self).local_state,
        !(old(self).local_state is Opened || old(self).local_state is CloseReceived || old(self).local_state is OpenSent || old(self).local_state is OpenPipe)
            ==> r is Err && final(writer).sent@ == old(writer).sent@,                                                   // [C12.close-at-most-once] in a state in which a close was already sent (or nothing was opened) a further close request puts NOTHING on the wire
        *final(self) == (Connection { local_state: final(self).local_state, ..*old(self) }),
//@@ end
}

// ---------------------------------------------------------------------------------------------
// the listener's connection (acceptor/connection.rs): a Begin the peer initiates
//@@ type file=fe2o3-amqp/src/session/frame.rs kind=struct name=SessionFrame
//@@ end
pub enum SessionFrameBody { Begin(Begin), End(End), Other }
/// `channel: impl Into<u16>` of SessionFrame::new: a bare u16 or an IncomingChannel
pub trait ChanNo: Sized { spec fn no(self) -> u16; fn into_no(self) -> (r: u16) ensures r == self.no(); }
impl ChanNo for u16 { open spec fn no(self) -> u16 { self } fn into_no(self) -> (r: u16) { self } }
impl ChanNo for IncomingChannel { open spec fn no(self) -> u16 { self.0 } fn into_no(self) -> (r: u16) { self.0 } }
impl SessionFrame {
    pub fn new<C: ChanNo>(channel: C, body: SessionFrameBody) -> (r: Self) ensures r.channel == channel.no(), r.body == body { SessionFrame { channel: channel.into_no(), body } }
}
/// ghost trace of what the connection hands to which session: (the relay it was sent through, the frame)
pub type RelayLog = Ghost<Seq<(SessionRelay, SessionFrame)>>;
pub struct ChanSendError { pub _p: u8 }
pub open spec fn not_found_session() -> ConnectionInnerError;
#[verifier::external_body]
pub fn not_supported_msg() -> (r: String) { unimplemented!() }
impl ErrInto<ConnectionInnerError> for ConnectionInnerError { open spec fn conv(self) -> ConnectionInnerError { self } fn err_into(self) -> (r: ConnectionInnerError) { let e = self; assert(e == <ConnectionInnerError as ErrInto<ConnectionInnerError>>::conv(self)); e } }
impl ErrInto<ConnectionInnerError> for ChanSendError { open spec fn conv(self) -> ConnectionInnerError { not_found_session() } #[verifier::external_body] fn err_into(self) -> (r: ConnectionInnerError) { unimplemented!() } }
impl SessionRelay {
    /// `relay.send(frame).await` on the bounded channel to the session engine (not traced)
    #[verifier::external_body]
    pub fn send(&self, f: SessionFrame) -> (r: Result<(), ChanSendError>) { unimplemented!() }
    /// the same send with the hand-over recorded (R9): Ok = the frame is in THIS relay's queue
    #[verifier::external_body]
    pub fn send_l(&self, f: SessionFrame, log: &mut RelayLog) -> (r: Result<(), ChanSendError>)
        ensures r is Ok ==> final(log)@ == old(log)@.push((*self, f)), r is Err ==> final(log)@ == old(log)@,
    { unimplemented!() }
}
/// the receiving half of a session's frame channel, handed to the application with the IncomingSession
#[verifier::external_body]
pub struct SessionRx { _p: u8 }
pub const DEFAULT_OUTGOING_BUFFER_SIZE: usize = 2048;
/// `mpsc::channel(n)`: a fresh relay and its receiving half
#[verifier::external_body]
pub fn mpsc_channel(n: usize) -> (r: (SessionRelay, SessionRx)) { unimplemented!() }
//@@ type file=fe2o3-amqp/src/acceptor/mod.rs kind=struct name=IncomingSession
//@@ subst `Option<mpsc::Receiver<SessionIncomingItem>>` => `Option<SessionRx>` rule=R9
//@@ end
/// `session_listener: mpsc::Sender<IncomingSession>`: ghost trace of what was handed to the application's SessionAcceptor
pub struct SessionListener { pub sent: Ghost<Seq<IncomingSession>> }
impl SessionListener {
    #[verifier::external_body]
    pub fn send(&mut self, v: IncomingSession) -> (r: Result<(), ChanSendError>)
        ensures r is Ok ==> final(self).sent@ == old(self).sent@.push(v), r is Err ==> final(self).sent@ == old(self).sent@,
    { unimplemented!() }
}
pub struct ListenerConnection { pub connection: Connection, pub session_listener: SessionListener }
impl ListenerConnection {
//@@ fn file=fe2o3-amqp/src/acceptor/connection.rs impl=`impl endpoint::Connection for ListenerConnection` name=on_incoming_begin as=listener_on_incoming_begin
//@@ qmark
//@@ ret Result<(), ConnectionInnerError>
//@@ subst `mpsc::channel(DEFAULT_OUTGOING_BUFFER_SIZE)` => `mpsc_channel(DEFAULT_OUTGOING_BUFFER_SIZE)` rule=R9
//@@ subst `.map_err(|_v0| <connection::Connection as endpoint::Connection>::Error::NotImplemented(None))` => `.map_err(|_v0| -> (o: ConnectionInnerError) { ConnectionInnerError::NotImplemented(None) })` rule=optional-R18
//@@ subst `.map_err(|_v1| <connection::Connection as endpoint::Connection>::Error::NotImplemented(None))` => `.map_err(|_v1| -> (o: ConnectionInnerError) { ConnectionInnerError::NotImplemented(None) })` rule=optional-R18
//@@ subst `std::sync::Arc::new(incoming_tx)` => `incoming_tx` rule=optional-R8
//@@ subst `.expect("relay was just allocated")` => `.unwrap()` rule=optional-R12
//@@ spec
    ensures
        final(self).connection.local_state == old(self).connection.local_state,
        // a begin the peer initiates (no remote-channel) on a free channel of an opened connection
        r is Ok && begin.remote_channel is None ==> ({
            let inc1 = final(self).connection.session_by_incoming_channel@;
            let out0 = old(self).connection.session_by_outgoing_channel@;
            let out1 = final(self).connection.session_by_outgoing_channel@;
            &&& final(self).session_listener.sent@.len() == old(self).session_listener.sent@.len() + 1
            &&& final(self).session_listener.sent@.last().channel == channel.0
            &&& final(self).session_listener.sent@.last().outgoing_channel is Some
            &&& ({ let och = final(self).session_listener.sent@.last().outgoing_channel->Some_0.0 as usize;
                 &&& !out0.contains_key(och) && out1.dom() =~= out0.dom().insert(och)                                    // [C11.channel.fresh] the session offered to the application gets an outgoing channel no live session holds
                 &&& och <= old(self).connection.agreed_channel_max                                                      // [C17.channel-max.never-above]
                 &&& inc1 == old(self).connection.session_by_incoming_channel@.insert(channel, out1[och])                 // [C11.route.begin-maps] the peer's channel designates exactly the relay registered under that outgoing channel: frames the peer pipelines behind its begin reach the session that will be accepted, and no other
            })
        }),
        r is Err && begin.remote_channel is None && final(self).session_listener.sent@.len() == old(self).session_listener.sent@.len()
            && final(self).connection.session_by_outgoing_channel@ == old(self).connection.session_by_outgoing_channel@
            ==> final(self).connection.session_by_incoming_channel@ == old(self).connection.session_by_incoming_channel@,   // [C11.route.refused-begin-maps-nothing] a begin that is refused before a session was allocated (state, channel in use, channel-max) maps nothing
        old(self).connection.local_state is Opened && old(self).connection.session_by_incoming_channel@.contains_key(channel)
            ==> r is Err && final(self).connection.session_by_incoming_channel@ == old(self).connection.session_by_incoming_channel@
                && final(self).session_listener.sent@ == old(self).session_listener.sent@,                                // [C11.route.channel-in-use-refused] (listener side) a begin on a channel that still designates a session is refused; the holder stays, nothing is offered to the application
//@@ end
}

impl Connection {
//@@ fn file=fe2o3-amqp/src/connection/mod.rs impl=`impl endpoint::Connection for Connection` name=on_incoming_begin
//@@ qmark
//@@ addparam log: &mut RelayLog
//@@ subst `relay.send(sframe)` => `relay.send_l(sframe, log)` rule=R9
//@@ subst `"Remotely initiazted session is not supported yet".to_string()` => `not_supported_msg()` rule=optional-R11
//@@ spec
    ensures
        r is Ok ==> begin.remote_channel is Some && old(self).session_by_outgoing_channel@.contains_key(begin.remote_channel->Some_0 as usize)
            && final(self).session_by_incoming_channel@ == old(self).session_by_incoming_channel@.insert(channel, old(self).session_by_outgoing_channel@[begin.remote_channel->Some_0 as usize])   // [C11.route.begin-maps] (client) the peer's answering begin binds the channel it arrived on to the session that was begun on remote-channel
            && final(log)@ == old(log)@.push((old(self).session_by_outgoing_channel@[begin.remote_channel->Some_0 as usize], SessionFrame { channel: channel.0, body: SessionFrameBody::Begin(begin) })),   // [C11.route.begin-reaches-its-session] [C13.session.begin-reaches-its-session] ... and that begin is handed to exactly THAT session, unchanged
        r is Err ==> final(log)@ == old(log)@,
        begin.remote_channel is None ==> r is Err && final(self).session_by_incoming_channel@ == old(self).session_by_incoming_channel@,   // [C15.client.remote-begin-refused] a session the peer initiates towards a client is refused with an error (never a panic), and maps nothing
        final(self).session_by_outgoing_channel == old(self).session_by_outgoing_channel,
        final(self).local_state == old(self).local_state && final(self).agreed_channel_max == old(self).agreed_channel_max,
//@@ end

//@@ fn file=fe2o3-amqp/src/connection/mod.rs impl=`impl endpoint::Connection for Connection` name=on_incoming_end
//@@ qmark
//@@ addparam log: &mut RelayLog
//@@ subst `relay.send(sframe)` => `relay.send_l(sframe, log)` rule=R9
//@@ spec
    ensures
        !(old(self).local_state is Opened) ==> r is Err && final(self).session_by_incoming_channel@ == old(self).session_by_incoming_channel@ && final(log)@ == old(log)@,   // [C12.end-only-when-opened]
        old(self).local_state is Opened && !old(self).session_by_incoming_channel@.contains_key(channel)
            ==> r is Err && r->Err_0 is NotFound && final(self).session_by_incoming_channel@ == old(self).session_by_incoming_channel@ && final(log)@ == old(log)@,   // [C15.end.unknown-channel] an end on a channel that designates no session is an error (not a panic); nothing is handed to any session
        old(self).local_state is Opened && old(self).session_by_incoming_channel@.contains_key(channel) ==> ({
            &&& final(self).session_by_incoming_channel@ == old(self).session_by_incoming_channel@.remove(channel)                                                        // [C11.route.end-unmaps] the peer's end releases exactly the channel it arrived on (the peer may begin a new session there), and no other
            &&& (r is Ok ==> final(log)@ == old(log)@.push((old(self).session_by_incoming_channel@[channel], SessionFrame { channel: channel.0, body: SessionFrameBody::End(end) })))   // [C11.route.end-reaches-its-session] [C13.session.end-reaches-its-session] [C14.end.reaches-its-session] the end (with the peer's error, if any) is handed to exactly the session that held the channel
            &&& (r is Err ==> final(log)@ == old(log)@)
        }),
        final(self).session_by_outgoing_channel == old(self).session_by_outgoing_channel,
        final(self).local_state == old(self).local_state && final(self).agreed_channel_max == old(self).agreed_channel_max,
//@@ end

//@@ fn file=fe2o3-amqp/src/connection/mod.rs impl=`impl endpoint::Connection for Connection` name=on_outgoing_begin
//@@ subst `Frame::new(outgoing_channel, FrameBody::Begin(begin))` => `Frame::new(outgoing_channel.0, FrameBody::Begin(begin))` rule=R16
//@@ spec
    ensures
        r == Ok::<Frame, ConnectionInnerError>(Frame { channel: outgoing_channel.0, body: FrameBody::Begin(begin) }),   // [C11.channel.begin-on-its-own-channel] a session's begin goes out on the channel allocated to that session, unchanged
        *final(self) == *old(self),
//@@ end

//@@ fn file=fe2o3-amqp/src/connection/mod.rs impl=`impl endpoint::Connection for Connection` name=on_outgoing_end
//@@ subst `Frame::new(channel, FrameBody::End(end))` => `Frame::new(channel.0, FrameBody::End(end))` rule=R16
//@@ spec
    ensures
        r == Ok::<Frame, ConnectionInnerError>(Frame { channel: channel.0, body: FrameBody::End(end) }),   // [C11.channel.end-on-its-own-channel] [C13.session.end-frame] a session's end goes out on that session's channel, with the error it was given
        *final(self) == *old(self),
//@@ end

//@@ fn file=fe2o3-amqp/src/connection/mod.rs impl=`impl endpoint::Connection for Connection` name=session_tx_by_incoming_channel
//@@ ret Option<&SessionRelay>
//@@ subst `.map(AsRef::as_ref)` => `` rule=R8
//@@ spec
    ensures
        match r {
            Some(relay) => old(self).session_by_incoming_channel@.contains_key(incoming_channel) && *relay == old(self).session_by_incoming_channel@[incoming_channel],
            None => !old(self).session_by_incoming_channel@.contains_key(incoming_channel),
        },                                                                                                                 // [C11.route.frame-to-session] a session frame is forwarded to the session bound to the channel it arrived on -- that one or none
        *final(self) == *old(self),
//@@ end
}

impl ListenerConnection {
//@@ fn file=fe2o3-amqp/src/acceptor/connection.rs impl=`impl endpoint::Connection for ListenerConnection` name=on_outgoing_begin as=listener_on_outgoing_begin
//@@ qmark
//@@ ret Result<Frame, ConnectionInnerError>
//@@ subst `.ok_or_else(|| { __E1 })` => `.ok_or(ConnectionInnerError::NotFound(None))` rule=R18 unless `ok_or_else`
//@@ subst `amqp::Frame` => `Frame` rule=optional-R11
//@@ spec
    ensures
        begin.remote_channel is Some && !old(self).connection.session_by_outgoing_channel@.contains_key(outgoing_channel.0 as usize)
            ==> r is Err && final(self).connection.session_by_incoming_channel@ == old(self).connection.session_by_incoming_channel@,
        begin.remote_channel is Some && old(self).connection.session_by_outgoing_channel@.contains_key(outgoing_channel.0 as usize)
            ==> final(self).connection.session_by_incoming_channel@ == old(self).connection.session_by_incoming_channel@.insert(IncomingChannel(begin.remote_channel->Some_0), old(self).connection.session_by_outgoing_channel@[outgoing_channel.0 as usize]),   // [C11.route.answering-begin-maps] the begin by which a listener answers a session the peer initiated binds the peer's channel to the relay of exactly the session that answers -- the one registered under the outgoing channel the begin goes out on
        begin.remote_channel is None ==> final(self).connection.session_by_incoming_channel@ == old(self).connection.session_by_incoming_channel@,
        r is Ok ==> r->Ok_0 == (Frame { channel: outgoing_channel.0, body: FrameBody::Begin(begin) }),                     // [C11.channel.begin-on-its-own-channel] (listener)
        final(self).connection.session_by_outgoing_channel == old(self).connection.session_by_outgoing_channel,
        final(self).connection.local_state == old(self).connection.local_state,
        final(self).session_listener == old(self).session_listener,
//@@ end
}

/// C12 trace lemma (single step): once a close has been sent successfully no second close can succeed
pub open spec fn close_was_sent(s: ConnectionState) -> bool {
    s is CloseSent || s is Discarding || s is End || s is ClosePipe || s is OpenClosePipe
}

} // verus!
fn main() {}
