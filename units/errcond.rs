//@@ unit ERRCOND
#![feature(allocator_api)]
#![allow(unused_imports, unused_variables, dead_code, unused_mut, unused_parens)]
use vstd::prelude::*;

verus! {

//@@ gsubst `de::Error::custom(__E1)` => `err_custom()` rule=R9
//@@ gsubst `.starts_with(` => `.starts_with_s(` rule=R16
//@@ trusted written by tools/mkerrcond.py from a table: the error-condition symbols are taken from the AMQP 1.0 specification text, not from the code; Symbol is a stand-in holding its text (Symbol::from(&str) / as_str keep it); Symbol::deserialize (serde_amqp: units READERS / DEENTRY) is a stand-in that yields ANY symbol or fails; R39 for the matches over string literals
pub struct Symbol { pub text: Ghost<Seq<char>> }
impl Symbol {
    #[verifier::external_body]
    pub fn from(v: &str) -> (r: Symbol) ensures r.text@ == v@ { unimplemented!() }
    #[verifier::external_body]
    pub fn as_str(&self) -> (r: &str) ensures r@ == self.text@ { unimplemented!() }
    /// Symbol::deserialize(deserializer)
    #[verifier::external_body]
    pub fn deserialize(d: DeS) -> (r: Result<Symbol, ErrS>) ensures (r is Ok) == d.ok@, r is Ok ==> r->Ok_0.text@ == d.text@ { unimplemented!() }
}
/// the deserializer positioned at a symbol: whether a symbol can be read there, and its text
pub struct DeS { pub ok: Ghost<bool>, pub text: Ghost<Seq<char>> }
pub struct ErrS { pub k: u8 }
/// str::starts_with(&str) (this vstd has no specification for it): present so that a change introducing a prefix test is decided
pub trait StartsWithS { fn starts_with_s(&self, p: &str) -> (r: bool) ensures r == (p@.len() <= self.chars().len() && self.chars().subrange(0, p@.len() as int) == p@); spec fn chars(&self) -> Seq<char>; }
impl StartsWithS for str { open spec fn chars(&self) -> Seq<char> { self@ } #[verifier::external_body] fn starts_with_s(&self, p: &str) -> (r: bool) { unimplemented!() } }
#[verifier::external_body]
pub fn err_custom() -> (r: ErrS) { unimplemented!() }

//@@ strlits lemma=lemma_condition_names_distinct `[C03.error-condition.names-distinct] [C05.error-condition.names-distinct] [C12.error-condition.names-distinct] [C13.error-condition.names-distinct] [C14.error-condition.names-distinct] the error-condition symbols of the specification are pairwise different strings` `amqp:internal-error|amqp:not-found|amqp:unauthorized-access|amqp:decode-error|amqp:resource-limit-exceeded|amqp:not-allowed|amqp:invalid-field|amqp:not-implemented|amqp:resource-locked|amqp:precondition-failed|amqp:resource-deleted|amqp:illegal-state|amqp:frame-size-too-small|amqp:connection:forced|amqp:connection:framing-error|amqp:connection:redirect|amqp:session:window-violation|amqp:session:errant-link|amqp:session:handle-in-use|amqp:session:unattached-handle|amqp:link:detach-forced|amqp:link:transfer-limit-exceeded|amqp:link:message-size-exceeded|amqp:link:redirect|amqp:link:stolen|amqp:transaction:unknown-id|amqp:transaction:rollback|amqp:transaction:timeout`
// ================================================================ AmqpError (fe2o3-amqp-types/src/definitions/amqp_error.rs)
//@@ type file=fe2o3-amqp-types/src/definitions/amqp_error.rs kind=enum name=AmqpError
//@@ end
pub open spec fn amqperror_name(e: AmqpError) -> Seq<char> { match e { AmqpError::InternalError => "amqp:internal-error"@, AmqpError::NotFound => "amqp:not-found"@, AmqpError::UnauthorizedAccess => "amqp:unauthorized-access"@, AmqpError::DecodeError => "amqp:decode-error"@, AmqpError::ResourceLimitExceeded => "amqp:resource-limit-exceeded"@, AmqpError::NotAllowed => "amqp:not-allowed"@, AmqpError::InvalidField => "amqp:invalid-field"@, AmqpError::NotImplemented => "amqp:not-implemented"@, AmqpError::ResourceLocked => "amqp:resource-locked"@, AmqpError::PreconditionFailed => "amqp:precondition-failed"@, AmqpError::ResourceDeleted => "amqp:resource-deleted"@, AmqpError::IllegalState => "amqp:illegal-state"@, AmqpError::FrameSizeTooSmall => "amqp:frame-size-too-small"@ } }
impl AmqpError {
//@@ fn file=fe2o3-amqp-types/src/definitions/amqp_error.rs impl=`impl<'a> TryFrom<&'a str> for AmqpError` name=try_from id=AmqpError::try_from
//@@ orsplit
//@@ blockarms
//@@ generics <'a>
//@@ ret Result<AmqpError, &'a str>
//@@ entry
    proof { lemma_condition_names_distinct(); }
//@@ spec
    ensures
        value@ == "amqp:internal-error"@ ==> r == Ok::<AmqpError, &str>(AmqpError::InternalError),       // [C03.error-condition.symbol-decodes] [C05.error-condition.symbol-decodes] [C12.error-condition.symbol-decodes] [C13.error-condition.symbol-decodes] [C14.error-condition.symbol-decodes] AMQP 1.0 part 2, 2.8.15
        value@ == "amqp:not-found"@ ==> r == Ok::<AmqpError, &str>(AmqpError::NotFound),       // [C03.error-condition.symbol-decodes] [C05.error-condition.symbol-decodes] [C12.error-condition.symbol-decodes] [C13.error-condition.symbol-decodes] [C14.error-condition.symbol-decodes] AMQP 1.0 part 2, 2.8.15
        value@ == "amqp:unauthorized-access"@ ==> r == Ok::<AmqpError, &str>(AmqpError::UnauthorizedAccess),       // [C03.error-condition.symbol-decodes] [C05.error-condition.symbol-decodes] [C12.error-condition.symbol-decodes] [C13.error-condition.symbol-decodes] [C14.error-condition.symbol-decodes] AMQP 1.0 part 2, 2.8.15
        value@ == "amqp:decode-error"@ ==> r == Ok::<AmqpError, &str>(AmqpError::DecodeError),       // [C03.error-condition.symbol-decodes] [C05.error-condition.symbol-decodes] [C12.error-condition.symbol-decodes] [C13.error-condition.symbol-decodes] [C14.error-condition.symbol-decodes] AMQP 1.0 part 2, 2.8.15
        value@ == "amqp:resource-limit-exceeded"@ ==> r == Ok::<AmqpError, &str>(AmqpError::ResourceLimitExceeded),       // [C03.error-condition.symbol-decodes] [C05.error-condition.symbol-decodes] [C12.error-condition.symbol-decodes] [C13.error-condition.symbol-decodes] [C14.error-condition.symbol-decodes] AMQP 1.0 part 2, 2.8.15
        value@ == "amqp:not-allowed"@ ==> r == Ok::<AmqpError, &str>(AmqpError::NotAllowed),       // [C03.error-condition.symbol-decodes] [C05.error-condition.symbol-decodes] [C12.error-condition.symbol-decodes] [C13.error-condition.symbol-decodes] [C14.error-condition.symbol-decodes] AMQP 1.0 part 2, 2.8.15
        value@ == "amqp:invalid-field"@ ==> r == Ok::<AmqpError, &str>(AmqpError::InvalidField),       // [C03.error-condition.symbol-decodes] [C05.error-condition.symbol-decodes] [C12.error-condition.symbol-decodes] [C13.error-condition.symbol-decodes] [C14.error-condition.symbol-decodes] AMQP 1.0 part 2, 2.8.15
        value@ == "amqp:not-implemented"@ ==> r == Ok::<AmqpError, &str>(AmqpError::NotImplemented),       // [C03.error-condition.symbol-decodes] [C05.error-condition.symbol-decodes] [C12.error-condition.symbol-decodes] [C13.error-condition.symbol-decodes] [C14.error-condition.symbol-decodes] AMQP 1.0 part 2, 2.8.15
        value@ == "amqp:resource-locked"@ ==> r == Ok::<AmqpError, &str>(AmqpError::ResourceLocked),       // [C03.error-condition.symbol-decodes] [C05.error-condition.symbol-decodes] [C12.error-condition.symbol-decodes] [C13.error-condition.symbol-decodes] [C14.error-condition.symbol-decodes] AMQP 1.0 part 2, 2.8.15
        value@ == "amqp:precondition-failed"@ ==> r == Ok::<AmqpError, &str>(AmqpError::PreconditionFailed),       // [C03.error-condition.symbol-decodes] [C05.error-condition.symbol-decodes] [C12.error-condition.symbol-decodes] [C13.error-condition.symbol-decodes] [C14.error-condition.symbol-decodes] AMQP 1.0 part 2, 2.8.15
        value@ == "amqp:resource-deleted"@ ==> r == Ok::<AmqpError, &str>(AmqpError::ResourceDeleted),       // [C03.error-condition.symbol-decodes] [C05.error-condition.symbol-decodes] [C12.error-condition.symbol-decodes] [C13.error-condition.symbol-decodes] [C14.error-condition.symbol-decodes] AMQP 1.0 part 2, 2.8.15
        value@ == "amqp:illegal-state"@ ==> r == Ok::<AmqpError, &str>(AmqpError::IllegalState),       // [C03.error-condition.symbol-decodes] [C05.error-condition.symbol-decodes] [C12.error-condition.symbol-decodes] [C13.error-condition.symbol-decodes] [C14.error-condition.symbol-decodes] AMQP 1.0 part 2, 2.8.15
        value@ == "amqp:frame-size-too-small"@ ==> r == Ok::<AmqpError, &str>(AmqpError::FrameSizeTooSmall),       // [C03.error-condition.symbol-decodes] [C05.error-condition.symbol-decodes] [C12.error-condition.symbol-decodes] [C13.error-condition.symbol-decodes] [C14.error-condition.symbol-decodes] AMQP 1.0 part 2, 2.8.15
        r is Ok ==> value@ == amqperror_name(r->Ok_0),       // [C03.error-condition.symbol-decodes] [C05.error-condition.symbol-decodes] [C12.error-condition.symbol-decodes] [C13.error-condition.symbol-decodes] [C14.error-condition.symbol-decodes] only the symbol of a condition decodes as that condition
        r is Err ==> r->Err_0@ == value@,       // [C03.error-condition.unknown-kept] [C05.error-condition.unknown-kept] [C12.error-condition.unknown-kept] [C13.error-condition.unknown-kept] [C14.error-condition.unknown-kept] a symbol this group does not know is handed back unchanged (to the next group, and finally kept as a custom condition)
//@@ end
}
impl Symbol {
//@@ fn file=fe2o3-amqp-types/src/definitions/amqp_error.rs impl=`impl From<&AmqpError> for Symbol` name=from as=from_amqperror
//@@ ret Symbol
//@@ spec
    ensures
        *value == AmqpError::InternalError ==> r.text@ == "amqp:internal-error"@,       // [C03.error-condition.symbol-written] [C05.error-condition.symbol-written] [C12.error-condition.symbol-written] [C13.error-condition.symbol-written] [C14.error-condition.symbol-written] AMQP 1.0 part 2, 2.8.15: the symbol written for this condition is the one the specification gives it (and the one try_from reads back)
        *value == AmqpError::NotFound ==> r.text@ == "amqp:not-found"@,       // [C03.error-condition.symbol-written] [C05.error-condition.symbol-written] [C12.error-condition.symbol-written] [C13.error-condition.symbol-written] [C14.error-condition.symbol-written] AMQP 1.0 part 2, 2.8.15: the symbol written for this condition is the one the specification gives it (and the one try_from reads back)
        *value == AmqpError::UnauthorizedAccess ==> r.text@ == "amqp:unauthorized-access"@,       // [C03.error-condition.symbol-written] [C05.error-condition.symbol-written] [C12.error-condition.symbol-written] [C13.error-condition.symbol-written] [C14.error-condition.symbol-written] AMQP 1.0 part 2, 2.8.15: the symbol written for this condition is the one the specification gives it (and the one try_from reads back)
        *value == AmqpError::DecodeError ==> r.text@ == "amqp:decode-error"@,       // [C03.error-condition.symbol-written] [C05.error-condition.symbol-written] [C12.error-condition.symbol-written] [C13.error-condition.symbol-written] [C14.error-condition.symbol-written] AMQP 1.0 part 2, 2.8.15: the symbol written for this condition is the one the specification gives it (and the one try_from reads back)
        *value == AmqpError::ResourceLimitExceeded ==> r.text@ == "amqp:resource-limit-exceeded"@,       // [C03.error-condition.symbol-written] [C05.error-condition.symbol-written] [C12.error-condition.symbol-written] [C13.error-condition.symbol-written] [C14.error-condition.symbol-written] AMQP 1.0 part 2, 2.8.15: the symbol written for this condition is the one the specification gives it (and the one try_from reads back)
        *value == AmqpError::NotAllowed ==> r.text@ == "amqp:not-allowed"@,       // [C03.error-condition.symbol-written] [C05.error-condition.symbol-written] [C12.error-condition.symbol-written] [C13.error-condition.symbol-written] [C14.error-condition.symbol-written] AMQP 1.0 part 2, 2.8.15: the symbol written for this condition is the one the specification gives it (and the one try_from reads back)
        *value == AmqpError::InvalidField ==> r.text@ == "amqp:invalid-field"@,       // [C03.error-condition.symbol-written] [C05.error-condition.symbol-written] [C12.error-condition.symbol-written] [C13.error-condition.symbol-written] [C14.error-condition.symbol-written] AMQP 1.0 part 2, 2.8.15: the symbol written for this condition is the one the specification gives it (and the one try_from reads back)
        *value == AmqpError::NotImplemented ==> r.text@ == "amqp:not-implemented"@,       // [C03.error-condition.symbol-written] [C05.error-condition.symbol-written] [C12.error-condition.symbol-written] [C13.error-condition.symbol-written] [C14.error-condition.symbol-written] AMQP 1.0 part 2, 2.8.15: the symbol written for this condition is the one the specification gives it (and the one try_from reads back)
        *value == AmqpError::ResourceLocked ==> r.text@ == "amqp:resource-locked"@,       // [C03.error-condition.symbol-written] [C05.error-condition.symbol-written] [C12.error-condition.symbol-written] [C13.error-condition.symbol-written] [C14.error-condition.symbol-written] AMQP 1.0 part 2, 2.8.15: the symbol written for this condition is the one the specification gives it (and the one try_from reads back)
        *value == AmqpError::PreconditionFailed ==> r.text@ == "amqp:precondition-failed"@,       // [C03.error-condition.symbol-written] [C05.error-condition.symbol-written] [C12.error-condition.symbol-written] [C13.error-condition.symbol-written] [C14.error-condition.symbol-written] AMQP 1.0 part 2, 2.8.15: the symbol written for this condition is the one the specification gives it (and the one try_from reads back)
        *value == AmqpError::ResourceDeleted ==> r.text@ == "amqp:resource-deleted"@,       // [C03.error-condition.symbol-written] [C05.error-condition.symbol-written] [C12.error-condition.symbol-written] [C13.error-condition.symbol-written] [C14.error-condition.symbol-written] AMQP 1.0 part 2, 2.8.15: the symbol written for this condition is the one the specification gives it (and the one try_from reads back)
        *value == AmqpError::IllegalState ==> r.text@ == "amqp:illegal-state"@,       // [C03.error-condition.symbol-written] [C05.error-condition.symbol-written] [C12.error-condition.symbol-written] [C13.error-condition.symbol-written] [C14.error-condition.symbol-written] AMQP 1.0 part 2, 2.8.15: the symbol written for this condition is the one the specification gives it (and the one try_from reads back)
        *value == AmqpError::FrameSizeTooSmall ==> r.text@ == "amqp:frame-size-too-small"@,       // [C03.error-condition.symbol-written] [C05.error-condition.symbol-written] [C12.error-condition.symbol-written] [C13.error-condition.symbol-written] [C14.error-condition.symbol-written] AMQP 1.0 part 2, 2.8.15: the symbol written for this condition is the one the specification gives it (and the one try_from reads back)
//@@ end
}

// ================================================================ ConnectionError (fe2o3-amqp-types/src/definitions/conn_error.rs)
//@@ type file=fe2o3-amqp-types/src/definitions/conn_error.rs kind=enum name=ConnectionError
//@@ end
pub open spec fn connectionerror_name(e: ConnectionError) -> Seq<char> { match e { ConnectionError::ConnectionForced => "amqp:connection:forced"@, ConnectionError::FramingError => "amqp:connection:framing-error"@, ConnectionError::Redirect => "amqp:connection:redirect"@ } }
impl ConnectionError {
//@@ fn file=fe2o3-amqp-types/src/definitions/conn_error.rs impl=`impl<'a> TryFrom<&'a str> for ConnectionError` name=try_from id=ConnectionError::try_from
//@@ orsplit
//@@ blockarms
//@@ generics <'a>
//@@ ret Result<ConnectionError, &'a str>
//@@ entry
    proof { lemma_condition_names_distinct(); }
//@@ spec
    ensures
        value@ == "amqp:connection:forced"@ ==> r == Ok::<ConnectionError, &str>(ConnectionError::ConnectionForced),       // [C03.error-condition.symbol-decodes] [C05.error-condition.symbol-decodes] [C12.error-condition.symbol-decodes] [C13.error-condition.symbol-decodes] [C14.error-condition.symbol-decodes] AMQP 1.0 part 2, 2.8.16
        value@ == "amqp:connection:framing-error"@ ==> r == Ok::<ConnectionError, &str>(ConnectionError::FramingError),       // [C03.error-condition.symbol-decodes] [C05.error-condition.symbol-decodes] [C12.error-condition.symbol-decodes] [C13.error-condition.symbol-decodes] [C14.error-condition.symbol-decodes] AMQP 1.0 part 2, 2.8.16
        value@ == "amqp:connection:redirect"@ ==> r == Ok::<ConnectionError, &str>(ConnectionError::Redirect),       // [C03.error-condition.symbol-decodes] [C05.error-condition.symbol-decodes] [C12.error-condition.symbol-decodes] [C13.error-condition.symbol-decodes] [C14.error-condition.symbol-decodes] AMQP 1.0 part 2, 2.8.16
        r is Ok ==> value@ == connectionerror_name(r->Ok_0),       // [C03.error-condition.symbol-decodes] [C05.error-condition.symbol-decodes] [C12.error-condition.symbol-decodes] [C13.error-condition.symbol-decodes] [C14.error-condition.symbol-decodes] only the symbol of a condition decodes as that condition
        r is Err ==> r->Err_0@ == value@,       // [C03.error-condition.unknown-kept] [C05.error-condition.unknown-kept] [C12.error-condition.unknown-kept] [C13.error-condition.unknown-kept] [C14.error-condition.unknown-kept] a symbol this group does not know is handed back unchanged (to the next group, and finally kept as a custom condition)
//@@ end
}
impl Symbol {
//@@ fn file=fe2o3-amqp-types/src/definitions/conn_error.rs impl=`impl From<&ConnectionError> for Symbol` name=from as=from_connectionerror
//@@ ret Symbol
//@@ spec
    ensures
        *value == ConnectionError::ConnectionForced ==> r.text@ == "amqp:connection:forced"@,       // [C03.error-condition.symbol-written] [C05.error-condition.symbol-written] [C12.error-condition.symbol-written] [C13.error-condition.symbol-written] [C14.error-condition.symbol-written] AMQP 1.0 part 2, 2.8.16: the symbol written for this condition is the one the specification gives it (and the one try_from reads back)
        *value == ConnectionError::FramingError ==> r.text@ == "amqp:connection:framing-error"@,       // [C03.error-condition.symbol-written] [C05.error-condition.symbol-written] [C12.error-condition.symbol-written] [C13.error-condition.symbol-written] [C14.error-condition.symbol-written] AMQP 1.0 part 2, 2.8.16: the symbol written for this condition is the one the specification gives it (and the one try_from reads back)
        *value == ConnectionError::Redirect ==> r.text@ == "amqp:connection:redirect"@,       // [C03.error-condition.symbol-written] [C05.error-condition.symbol-written] [C12.error-condition.symbol-written] [C13.error-condition.symbol-written] [C14.error-condition.symbol-written] AMQP 1.0 part 2, 2.8.16: the symbol written for this condition is the one the specification gives it (and the one try_from reads back)
//@@ end
}

// ================================================================ SessionError (fe2o3-amqp-types/src/definitions/session_error.rs)
//@@ type file=fe2o3-amqp-types/src/definitions/session_error.rs kind=enum name=SessionError
//@@ end
pub open spec fn sessionerror_name(e: SessionError) -> Seq<char> { match e { SessionError::WindowViolation => "amqp:session:window-violation"@, SessionError::ErrantLink => "amqp:session:errant-link"@, SessionError::HandleInUse => "amqp:session:handle-in-use"@, SessionError::UnattachedHandle => "amqp:session:unattached-handle"@ } }
impl SessionError {
//@@ fn file=fe2o3-amqp-types/src/definitions/session_error.rs impl=`impl<'a> TryFrom<&'a str> for SessionError` name=try_from id=SessionError::try_from
//@@ orsplit
//@@ blockarms
//@@ generics <'a>
//@@ ret Result<SessionError, &'a str>
//@@ entry
    proof { lemma_condition_names_distinct(); }
//@@ spec
    ensures
        value@ == "amqp:session:window-violation"@ ==> r == Ok::<SessionError, &str>(SessionError::WindowViolation),       // [C03.error-condition.symbol-decodes] [C05.error-condition.symbol-decodes] [C12.error-condition.symbol-decodes] [C13.error-condition.symbol-decodes] [C14.error-condition.symbol-decodes] AMQP 1.0 part 2, 2.8.17
        value@ == "amqp:session:errant-link"@ ==> r == Ok::<SessionError, &str>(SessionError::ErrantLink),       // [C03.error-condition.symbol-decodes] [C05.error-condition.symbol-decodes] [C12.error-condition.symbol-decodes] [C13.error-condition.symbol-decodes] [C14.error-condition.symbol-decodes] AMQP 1.0 part 2, 2.8.17
        value@ == "amqp:session:handle-in-use"@ ==> r == Ok::<SessionError, &str>(SessionError::HandleInUse),       // [C03.error-condition.symbol-decodes] [C05.error-condition.symbol-decodes] [C12.error-condition.symbol-decodes] [C13.error-condition.symbol-decodes] [C14.error-condition.symbol-decodes] AMQP 1.0 part 2, 2.8.17
        value@ == "amqp:session:unattached-handle"@ ==> r == Ok::<SessionError, &str>(SessionError::UnattachedHandle),       // [C03.error-condition.symbol-decodes] [C05.error-condition.symbol-decodes] [C12.error-condition.symbol-decodes] [C13.error-condition.symbol-decodes] [C14.error-condition.symbol-decodes] AMQP 1.0 part 2, 2.8.17
        r is Ok ==> value@ == sessionerror_name(r->Ok_0),       // [C03.error-condition.symbol-decodes] [C05.error-condition.symbol-decodes] [C12.error-condition.symbol-decodes] [C13.error-condition.symbol-decodes] [C14.error-condition.symbol-decodes] only the symbol of a condition decodes as that condition
        r is Err ==> r->Err_0@ == value@,       // [C03.error-condition.unknown-kept] [C05.error-condition.unknown-kept] [C12.error-condition.unknown-kept] [C13.error-condition.unknown-kept] [C14.error-condition.unknown-kept] a symbol this group does not know is handed back unchanged (to the next group, and finally kept as a custom condition)
//@@ end
}
impl Symbol {
//@@ fn file=fe2o3-amqp-types/src/definitions/session_error.rs impl=`impl From<&SessionError> for Symbol` name=from as=from_sessionerror
//@@ ret Symbol
//@@ spec
    ensures
        *value == SessionError::WindowViolation ==> r.text@ == "amqp:session:window-violation"@,       // [C03.error-condition.symbol-written] [C05.error-condition.symbol-written] [C12.error-condition.symbol-written] [C13.error-condition.symbol-written] [C14.error-condition.symbol-written] AMQP 1.0 part 2, 2.8.17: the symbol written for this condition is the one the specification gives it (and the one try_from reads back)
        *value == SessionError::ErrantLink ==> r.text@ == "amqp:session:errant-link"@,       // [C03.error-condition.symbol-written] [C05.error-condition.symbol-written] [C12.error-condition.symbol-written] [C13.error-condition.symbol-written] [C14.error-condition.symbol-written] AMQP 1.0 part 2, 2.8.17: the symbol written for this condition is the one the specification gives it (and the one try_from reads back)
        *value == SessionError::HandleInUse ==> r.text@ == "amqp:session:handle-in-use"@,       // [C03.error-condition.symbol-written] [C05.error-condition.symbol-written] [C12.error-condition.symbol-written] [C13.error-condition.symbol-written] [C14.error-condition.symbol-written] AMQP 1.0 part 2, 2.8.17: the symbol written for this condition is the one the specification gives it (and the one try_from reads back)
        *value == SessionError::UnattachedHandle ==> r.text@ == "amqp:session:unattached-handle"@,       // [C03.error-condition.symbol-written] [C05.error-condition.symbol-written] [C12.error-condition.symbol-written] [C13.error-condition.symbol-written] [C14.error-condition.symbol-written] AMQP 1.0 part 2, 2.8.17: the symbol written for this condition is the one the specification gives it (and the one try_from reads back)
//@@ end
}

// ================================================================ LinkError (fe2o3-amqp-types/src/definitions/link_error.rs)
//@@ type file=fe2o3-amqp-types/src/definitions/link_error.rs kind=enum name=LinkError
//@@ end
pub open spec fn linkerror_name(e: LinkError) -> Seq<char> { match e { LinkError::DetachForced => "amqp:link:detach-forced"@, LinkError::TransferLimitExceeded => "amqp:link:transfer-limit-exceeded"@, LinkError::MessageSizeExceeded => "amqp:link:message-size-exceeded"@, LinkError::Redirect => "amqp:link:redirect"@, LinkError::Stolen => "amqp:link:stolen"@ } }
impl LinkError {
//@@ fn file=fe2o3-amqp-types/src/definitions/link_error.rs impl=`impl<'a> TryFrom<&'a str> for LinkError` name=try_from id=LinkError::try_from
//@@ orsplit
//@@ blockarms
//@@ generics <'a>
//@@ ret Result<LinkError, &'a str>
//@@ entry
    proof { lemma_condition_names_distinct(); }
//@@ spec
    ensures
        value@ == "amqp:link:detach-forced"@ ==> r == Ok::<LinkError, &str>(LinkError::DetachForced),       // [C03.error-condition.symbol-decodes] [C05.error-condition.symbol-decodes] [C12.error-condition.symbol-decodes] [C13.error-condition.symbol-decodes] [C14.error-condition.symbol-decodes] AMQP 1.0 part 2, 2.8.18
        value@ == "amqp:link:transfer-limit-exceeded"@ ==> r == Ok::<LinkError, &str>(LinkError::TransferLimitExceeded),       // [C03.error-condition.symbol-decodes] [C05.error-condition.symbol-decodes] [C12.error-condition.symbol-decodes] [C13.error-condition.symbol-decodes] [C14.error-condition.symbol-decodes] AMQP 1.0 part 2, 2.8.18
        value@ == "amqp:link:message-size-exceeded"@ ==> r == Ok::<LinkError, &str>(LinkError::MessageSizeExceeded),       // [C03.error-condition.symbol-decodes] [C05.error-condition.symbol-decodes] [C12.error-condition.symbol-decodes] [C13.error-condition.symbol-decodes] [C14.error-condition.symbol-decodes] AMQP 1.0 part 2, 2.8.18
        value@ == "amqp:link:redirect"@ ==> r == Ok::<LinkError, &str>(LinkError::Redirect),       // [C03.error-condition.symbol-decodes] [C05.error-condition.symbol-decodes] [C12.error-condition.symbol-decodes] [C13.error-condition.symbol-decodes] [C14.error-condition.symbol-decodes] AMQP 1.0 part 2, 2.8.18
        value@ == "amqp:link:stolen"@ ==> r == Ok::<LinkError, &str>(LinkError::Stolen),       // [C03.error-condition.symbol-decodes] [C05.error-condition.symbol-decodes] [C12.error-condition.symbol-decodes] [C13.error-condition.symbol-decodes] [C14.error-condition.symbol-decodes] AMQP 1.0 part 2, 2.8.18
        r is Ok ==> value@ == linkerror_name(r->Ok_0),       // [C03.error-condition.symbol-decodes] [C05.error-condition.symbol-decodes] [C12.error-condition.symbol-decodes] [C13.error-condition.symbol-decodes] [C14.error-condition.symbol-decodes] only the symbol of a condition decodes as that condition
        r is Err ==> r->Err_0@ == value@,       // [C03.error-condition.unknown-kept] [C05.error-condition.unknown-kept] [C12.error-condition.unknown-kept] [C13.error-condition.unknown-kept] [C14.error-condition.unknown-kept] a symbol this group does not know is handed back unchanged (to the next group, and finally kept as a custom condition)
//@@ end
}
impl Symbol {
//@@ fn file=fe2o3-amqp-types/src/definitions/link_error.rs impl=`impl From<&LinkError> for Symbol` name=from as=from_linkerror
//@@ ret Symbol
//@@ spec
    ensures
        *value == LinkError::DetachForced ==> r.text@ == "amqp:link:detach-forced"@,       // [C03.error-condition.symbol-written] [C05.error-condition.symbol-written] [C12.error-condition.symbol-written] [C13.error-condition.symbol-written] [C14.error-condition.symbol-written] AMQP 1.0 part 2, 2.8.18: the symbol written for this condition is the one the specification gives it (and the one try_from reads back)
        *value == LinkError::TransferLimitExceeded ==> r.text@ == "amqp:link:transfer-limit-exceeded"@,       // [C03.error-condition.symbol-written] [C05.error-condition.symbol-written] [C12.error-condition.symbol-written] [C13.error-condition.symbol-written] [C14.error-condition.symbol-written] AMQP 1.0 part 2, 2.8.18: the symbol written for this condition is the one the specification gives it (and the one try_from reads back)
        *value == LinkError::MessageSizeExceeded ==> r.text@ == "amqp:link:message-size-exceeded"@,       // [C03.error-condition.symbol-written] [C05.error-condition.symbol-written] [C12.error-condition.symbol-written] [C13.error-condition.symbol-written] [C14.error-condition.symbol-written] AMQP 1.0 part 2, 2.8.18: the symbol written for this condition is the one the specification gives it (and the one try_from reads back)
        *value == LinkError::Redirect ==> r.text@ == "amqp:link:redirect"@,       // [C03.error-condition.symbol-written] [C05.error-condition.symbol-written] [C12.error-condition.symbol-written] [C13.error-condition.symbol-written] [C14.error-condition.symbol-written] AMQP 1.0 part 2, 2.8.18: the symbol written for this condition is the one the specification gives it (and the one try_from reads back)
        *value == LinkError::Stolen ==> r.text@ == "amqp:link:stolen"@,       // [C03.error-condition.symbol-written] [C05.error-condition.symbol-written] [C12.error-condition.symbol-written] [C13.error-condition.symbol-written] [C14.error-condition.symbol-written] AMQP 1.0 part 2, 2.8.18: the symbol written for this condition is the one the specification gives it (and the one try_from reads back)
//@@ end
}

// ================================================================ TransactionError (fe2o3-amqp-types/src/transaction/txn_error.rs)
//@@ type file=fe2o3-amqp-types/src/transaction/txn_error.rs kind=enum name=TransactionError
//@@ end
pub open spec fn transactionerror_name(e: TransactionError) -> Seq<char> { match e { TransactionError::UnknownId => "amqp:transaction:unknown-id"@, TransactionError::Rollback => "amqp:transaction:rollback"@, TransactionError::Timeout => "amqp:transaction:timeout"@ } }
impl TransactionError {
//@@ fn file=fe2o3-amqp-types/src/transaction/txn_error.rs impl=`impl<'a> TryFrom<&'a str> for TransactionError` name=try_from id=TransactionError::try_from
//@@ orsplit
//@@ blockarms
//@@ generics <'a>
//@@ ret Result<TransactionError, &'a str>
//@@ entry
    proof { lemma_condition_names_distinct(); }
//@@ spec
    ensures
        value@ == "amqp:transaction:unknown-id"@ ==> r == Ok::<TransactionError, &str>(TransactionError::UnknownId),       // [C03.error-condition.symbol-decodes] [C05.error-condition.symbol-decodes] [C12.error-condition.symbol-decodes] [C13.error-condition.symbol-decodes] [C14.error-condition.symbol-decodes] AMQP 1.0 part 4, 4.5.8
        value@ == "amqp:transaction:rollback"@ ==> r == Ok::<TransactionError, &str>(TransactionError::Rollback),       // [C03.error-condition.symbol-decodes] [C05.error-condition.symbol-decodes] [C12.error-condition.symbol-decodes] [C13.error-condition.symbol-decodes] [C14.error-condition.symbol-decodes] AMQP 1.0 part 4, 4.5.8
        value@ == "amqp:transaction:timeout"@ ==> r == Ok::<TransactionError, &str>(TransactionError::Timeout),       // [C03.error-condition.symbol-decodes] [C05.error-condition.symbol-decodes] [C12.error-condition.symbol-decodes] [C13.error-condition.symbol-decodes] [C14.error-condition.symbol-decodes] AMQP 1.0 part 4, 4.5.8
        r is Ok ==> value@ == transactionerror_name(r->Ok_0),       // [C03.error-condition.symbol-decodes] [C05.error-condition.symbol-decodes] [C12.error-condition.symbol-decodes] [C13.error-condition.symbol-decodes] [C14.error-condition.symbol-decodes] only the symbol of a condition decodes as that condition
        r is Err ==> r->Err_0@ == value@,       // [C03.error-condition.unknown-kept] [C05.error-condition.unknown-kept] [C12.error-condition.unknown-kept] [C13.error-condition.unknown-kept] [C14.error-condition.unknown-kept] a symbol this group does not know is handed back unchanged (to the next group, and finally kept as a custom condition)
//@@ end
}
impl Symbol {
//@@ fn file=fe2o3-amqp-types/src/transaction/txn_error.rs impl=`impl From<&TransactionError> for Symbol` name=from as=from_transactionerror
//@@ ret Symbol
//@@ spec
    ensures
        *err == TransactionError::UnknownId ==> r.text@ == "amqp:transaction:unknown-id"@,       // [C03.error-condition.symbol-written] [C05.error-condition.symbol-written] [C12.error-condition.symbol-written] [C13.error-condition.symbol-written] [C14.error-condition.symbol-written] AMQP 1.0 part 4, 4.5.8: the symbol written for this condition is the one the specification gives it (and the one try_from reads back)
        *err == TransactionError::Rollback ==> r.text@ == "amqp:transaction:rollback"@,       // [C03.error-condition.symbol-written] [C05.error-condition.symbol-written] [C12.error-condition.symbol-written] [C13.error-condition.symbol-written] [C14.error-condition.symbol-written] AMQP 1.0 part 4, 4.5.8: the symbol written for this condition is the one the specification gives it (and the one try_from reads back)
        *err == TransactionError::Timeout ==> r.text@ == "amqp:transaction:timeout"@,       // [C03.error-condition.symbol-written] [C05.error-condition.symbol-written] [C12.error-condition.symbol-written] [C13.error-condition.symbol-written] [C14.error-condition.symbol-written] AMQP 1.0 part 4, 4.5.8: the symbol written for this condition is the one the specification gives it (and the one try_from reads back)
//@@ end
}

// ================================================================ ErrorCondition (fe2o3-amqp-types/src/definitions/error_cond.rs)
//@@ type file=fe2o3-amqp-types/src/definitions/error_cond.rs kind=enum name=ErrorCondition
//@@ end
impl ErrorCondition {
//@@ fn file=fe2o3-amqp-types/src/definitions/error_cond.rs impl=`impl<'de> de::Deserialize<'de> for ErrorCondition` name=deserialize
//@@ generics
//@@ nowhere
//@@ param deserializer : DeS
//@@ ret Result<ErrorCondition, ErrS>
//@@ spec
    ensures
        deserializer.ok@ ==> r is Ok && cond_text(r->Ok_0) == deserializer.text@,       // [C03.error-condition.any-symbol-decodes] [C05.error-condition.any-symbol-decodes] [C12.error-condition.any-symbol-decodes] [C13.error-condition.any-symbol-decodes] [C14.error-condition.any-symbol-decodes] [C04.error-condition.any-symbol-decodes] whatever condition symbol the peer supplies decodes -- the ones the specification defines as the typed condition, any other as a custom condition -- and in both cases it is the peer's symbol that is kept: the peer's error is never lost to a decode error
        !deserializer.ok@ ==> r is Err,
//@@ end
}
/// the symbol a decoded condition stands for, by the specification's tables
pub open spec fn cond_text(c: ErrorCondition) -> Seq<char> {
    match c {
        ErrorCondition::AmqpError(e) => amqperror_name(e),
        ErrorCondition::ConnectionError(e) => connectionerror_name(e),
        ErrorCondition::SessionError(e) => sessionerror_name(e),
        ErrorCondition::LinkError(e) => linkerror_name(e),
        ErrorCondition::TransactionError(e) => transactionerror_name(e),
        ErrorCondition::Custom(s) => s.text@,
    }
}

} // verus!
fn main() {}
