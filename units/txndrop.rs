//@@ unit TXNDROP
#![feature(allocator_api)]
#![allow(unused_imports, unused_variables, dead_code, unused_mut, unused_parens)]
use vstd::prelude::*;

verus! {

//@@ trusted the control link's sender endpoint (SenderInner<ControlLink>) is reduced to what rollback_on_drop touches: the link's handles, its flow state (try_consume / try_read: stand-ins with unconstrained outcome), its unsettled map (try_write: may fail), the queue from the session (try_recv) and the queue to the session (try_send: ghost trace of what was queued)
//@@ trusted the five lines that build the discharge message and serialize it (`Message::builder().value(discharge).build()`, `BytesMut::new()`, `Serializer::from(..)`, `Serializable(message).serialize(..)`, `payload.freeze()`) are ONE stand-in `encode_discharge(&discharge)` whose result is the encoding of THAT discharge (`enc_discharge`), or an error; std::thread::sleep is a no-op stand-in; the Mutex of Transaction's controller is a stand-in whose try_lock may fail
//@@ trusted ASSUMED: rollback_on_drop_trials < 400 000 000 (beyond that `10 * counter + 1` overflows a u32 after that many 4-second sleeps)

macro_rules! opaque {
    ($($n:ident),*) => { verus!{ $(
        #[verifier::external_body]
        pub struct $n { _p: u8 }
    )* } }
}
macro_rules! plain {
    ($($n:ident),*) => { verus!{ $(
        #[verifier::external_body]
        pub struct $n { _p: u8 }
        impl Clone for $n { #[verifier::external_body] fn clone(&self) -> (r: Self) ensures r == *self { unimplemented!() } }
    )* } }
}
plain!(TransactionId, Payload, DeliveryTag, InputHandle, OutputHandle, Handle);
opaque!(SerErr, ConsumeErr, OtherState, LinkFrameOther, OneshotTx, TrySendError);
pub struct Discharge { pub txn_id: TransactionId, pub fail: Option<bool> }
pub uninterp spec fn enc_discharge(d: Discharge) -> Result<Payload, SerErr>;
#[verifier::external_body]
pub fn encode_discharge(d: &Discharge) -> (r: Result<Payload, SerErr>) ensures r == enc_discharge(*d) { unimplemented!() }
//@@ type file=fe2o3-amqp-types/src/messaging/format/mod.rs kind=const name=MESSAGE_FORMAT
//@@ end
pub enum AmqpError { IllegalState, Other }
pub struct Transfer { pub handle: Handle, pub delivery_id: Option<u32>, pub delivery_tag: Option<DeliveryTag>, pub message_format: Option<u32>, pub settled: Option<bool>, pub more: bool,
    pub rcv_settle_mode: Option<u8>, pub state: Option<OtherState>, pub resume: bool, pub aborted: bool, pub batchable: bool }
pub enum LinkFrame { Transfer { input_handle: InputHandle, performative: Transfer, payload: Payload }, Other(LinkFrameOther) }
pub enum TryRecvError { Empty, Disconnected }
pub struct Accepted {}
pub enum DeliveryState { Accepted(Accepted), Other(OtherState) }
pub uninterp spec fn handle_of(h: OutputHandle) -> Handle;
#[verifier::external_body]
pub fn output_to_handle(h: OutputHandle) -> (r: Handle) ensures r == handle_of(h) { unimplemented!() }
/// the wire handle an INPUT handle (the peer's number for the link) converts to: not the link's own number
pub uninterp spec fn in_handle_of(h: InputHandle) -> Handle;
impl vstd::std_specs::convert::FromSpecImpl<OutputHandle> for Handle { open spec fn obeys_from_spec() -> bool { true } open spec fn from_spec(h: OutputHandle) -> Handle { handle_of(h) } }
impl From<OutputHandle> for Handle { #[verifier::external_body] fn from(h: OutputHandle) -> (r: Handle) { unimplemented!() } }
impl vstd::std_specs::convert::FromSpecImpl<InputHandle> for Handle { open spec fn obeys_from_spec() -> bool { true } open spec fn from_spec(h: InputHandle) -> Handle { in_handle_of(h) } }
impl From<InputHandle> for Handle { #[verifier::external_body] fn from(h: InputHandle) -> (r: Handle) { unimplemented!() } }
#[verifier::external_body]
pub fn u32_to_be_bytes(x: u32) -> (r: [u8; 4]) { unimplemented!() }
impl DeliveryTag { #[verifier::external_body] pub fn from(t: [u8; 4]) -> (r: DeliveryTag) { unimplemented!() } }
pub struct FlowInner { pub delivery_count: u32 }
pub struct LockS {}
impl LockS { #[verifier::external_body] pub fn try_read(&self) -> (r: Option<&FlowInner>) { unimplemented!() } }
pub struct StateS { pub lock: LockS }
pub struct FlowStateS { pub st: StateS }
impl FlowStateS {
    #[verifier::external_body]
    pub fn try_consume(&mut self, n: u32) -> (r: Result<(), ConsumeErr>) { unimplemented!() }
    pub fn state(&self) -> (r: &StateS) { &self.st }
}
pub struct UnsettledMessage { pub payload: Payload, pub state: Option<DeliveryState>, pub message_format: u32, pub sender: OneshotTx }
impl UnsettledMessage { pub fn new(payload: Payload, state: Option<DeliveryState>, message_format: u32, sender: OneshotTx) -> (r: Self) { UnsettledMessage { payload, state, message_format, sender } } }
#[verifier::external_body]
pub struct UnsettledMap { _p: u8 }
pub struct UnsettledLock { pub registered: Ghost<Seq<DeliveryTag>> }
impl UnsettledLock {
    /// `try_write()` followed by `guard.get_or_insert(OrderedMap::new()).insert(tag, message)`: the write lock may be unavailable
    #[verifier::external_body]
    pub fn try_insert(&mut self, tag: DeliveryTag, m: UnsettledMessage) -> (r: bool)
        ensures r ==> final(self).registered@ == old(self).registered@.push(tag), !r ==> final(self).registered@ == old(self).registered@,
    { unimplemented!() }
}
pub struct OutRx {}
impl OutRx { #[verifier::external_body] pub fn try_recv(&mut self) -> (r: Result<Option<DeliveryState>, u8>) { unimplemented!() } }
pub mod oneshot { use super::*; #[verifier::external_body] pub fn channel() -> (r: (OneshotTx, OutRx)) { unimplemented!() } }
pub struct InRx {}
impl InRx { #[verifier::external_body] pub fn try_recv(&mut self) -> (r: Result<LinkFrame, TryRecvError>) { unimplemented!() } }
pub struct OutTx { pub sent: Ghost<Seq<LinkFrame>> }
impl OutTx {
    #[verifier::external_body]
    pub fn try_send(&mut self, f: LinkFrame) -> (r: Result<(), TrySendError>)
        ensures r is Ok ==> final(self).sent@ == old(self).sent@.push(f), r is Err ==> final(self).sent@ == old(self).sent@,
    { unimplemented!() }
}
pub struct ControlLinkS { pub flow_state: FlowStateS, pub input_handle: Option<InputHandle>, pub output_handle: Option<OutputHandle>, pub unsettled: UnsettledLock }
pub struct SenderInner { pub link: ControlLinkS, pub incoming: InRx, pub outgoing: OutTx }
pub fn sleep_ms(ms: u64) {}
pub struct Declared { pub txn_id: TransactionId }

/// the one frame a dropped, undischarged transaction may put on its control link
pub open spec fn rollback_frame(f: LinkFrame, inner: SenderInner, txn_id: TransactionId) -> bool {
    &&& f is Transfer
    &&& enc_discharge(Discharge { txn_id, fail: Some(true) }) == Ok::<Payload, SerErr>(f->Transfer_payload)      // a discharge naming THIS transaction, with fail = true
    &&& inner.link.input_handle == Some(f->Transfer_input_handle) && inner.link.output_handle is Some && f->Transfer_performative.handle == handle_of(inner.link.output_handle->Some_0)   // on the control link
    &&& f->Transfer_performative.settled == Some(false) && !f->Transfer_performative.more && !f->Transfer_performative.aborted && !f->Transfer_performative.resume
    &&& f->Transfer_performative.state is None
}

//@@ fn file=fe2o3-amqp/src/transaction/mod.rs name=rollback_on_drop
//@@ shape loops=loop
//@@ param inner : &mut SenderInner
//@@ attr #[verifier::loop_isolation(false)]
//@@ subst `let message = Message::builder().value(discharge).build(); let mut payload = BytesMut::new(); let mut serializer = Serializer::from((&mut payload).writer()); if let Err(_error) = Serializable(message).serialize(&mut serializer) { return; } let payload = payload.freeze();` => `let payload = match encode_discharge(&discharge) { Ok(p) => p, Err(_e) => return };` rule=R9
//@@ subst `Some(inner) => inner.delivery_count.to_be_bytes(),` => `Some(inner) => u32_to_be_bytes(inner.delivery_count),` rule=R14
//@@ subst `{ let mut guard = match inner.link.unsettled.try_write() { Some(guard) => guard, None => return, }; guard .get_or_insert(OrderedMap::new()) .insert(delivery_tag, unsettled); }` => `if !inner.link.unsettled.try_insert(delivery_tag, unsettled) { return; }` rule=R15
//@@ subst `std::thread::sleep(std::time::Duration::from_millis( (10 * counter + 1) as u64, ));` => `sleep_ms((10 * counter + 1) as u64);` rule=R9
//@@ spec
    requires trials < 400_000_000,      // ASSUMED
    ensures
        final(inner).outgoing.sent@.len() <= old(inner).outgoing.sent@.len() + 1
            && final(inner).outgoing.sent@.take(old(inner).outgoing.sent@.len() as int) =~= old(inner).outgoing.sent@,                                   // [C18.controller.drop-sends-at-most-one-frame]
        final(inner).outgoing.sent@.len() == old(inner).outgoing.sent@.len() + 1 ==> rollback_frame(final(inner).outgoing.sent@.last(), *old(inner), *txn_id),   // [C18.controller.drop-rolls-back-this-transaction] [C11.controller.drop-frame-under-the-links-own-handle] what a dropped, undischarged transaction puts on the wire is a discharge of ITS OWN id with fail = true, unsettled, on the control link -- never a commit, never another transaction's id
        final(inner).link.input_handle == old(inner).link.input_handle && final(inner).link.output_handle == old(inner).link.output_handle,
//@@ loop 0
        invariant
            counter <= trials + 1, trials < 400_000_000,
            inner.outgoing.sent@.len() == old(inner).outgoing.sent@.len() + 1 && inner.outgoing.sent@.take(old(inner).outgoing.sent@.len() as int) =~= old(inner).outgoing.sent@,
            rollback_frame(inner.outgoing.sent@.last(), *old(inner), *txn_id),
            inner.link.input_handle == old(inner).link.input_handle && inner.link.output_handle == old(inner).link.output_handle,
        decreases trials + 2 - counter,
//@@ end

pub struct OwnedTransaction { pub inner: SenderInner, pub declared: Declared, pub is_discharged: bool, pub rollback_on_drop_trials: u32 }
impl OwnedTransaction {
//@@ fn file=fe2o3-amqp/src/transaction/owned.rs impl=`impl Drop for OwnedTransaction` name=drop as=owned_drop
//@@ spec
    requires old(self).rollback_on_drop_trials < 400_000_000,
    ensures
        old(self).is_discharged ==> final(self).inner.outgoing.sent@ == old(self).inner.outgoing.sent@,                                                  // [C18.controller.discharged-transaction-drops-silently] a transaction that was committed or rolled back sends nothing when it goes out of scope (no second discharge)
        final(self).inner.outgoing.sent@.len() <= old(self).inner.outgoing.sent@.len() + 1,
        final(self).inner.outgoing.sent@.len() == old(self).inner.outgoing.sent@.len() + 1 ==> rollback_frame(final(self).inner.outgoing.sent@.last(), old(self).inner, old(self).declared.txn_id),   // [C18.controller.drop-rolls-back-this-transaction]
//@@ end
}

// Transaction<'t>::drop (the borrowed variant) acquires the controller's Mutex in a `loop { .. break guard .. }` (break with a value: outside the Verus subset) and then makes the same call of rollback_on_drop: not under contract

} // verus!
fn main() {}
