//@@ unit MESSAGE
#![feature(allocator_api)]
#![allow(unused_imports, unused_variables, dead_code, unused_mut, unused_parens)]
use vstd::prelude::*;

verus! {

//@@ trusted the serde Serializer handed to Message::serialize is a stand-in: serialize_struct(name, len) starts a struct serializer, serialize_field(name, value) appends WHICH section value it was given to a ghost trace (or fails), end() finishes; how each section is encoded is the business of that section's own Serialize impl (derive output, not under contract)
//@@ trusted the section types (Header, DeliveryAnnotations, ..., the body B, Footer) are opaque; each value has an uninterpreted identity

pub const DESCRIBED_BASIC: &'static str = "DESCRIBED_BASIC";
/// which section (0 header .. 6 footer) and which value
pub struct Emitted { pub kind: int, pub id: int }
pub trait Sect { spec fn kind() -> int; spec fn id(&self) -> int; }
macro_rules! section {
    ($($n:ident = $k:expr),*) => { verus!{ $(
        #[verifier::external_body]
        pub struct $n { _p: u8 }
        impl Sect for $n { open spec fn kind() -> int { $k } uninterp spec fn id(&self) -> int; }
    )* } }
}
section!(Header = 0, Properties = 3, Body = 5);
/// the map-shaped sections are newtypes around a map (they can be present and empty)
#[verifier::external_body]
pub struct MapS { _p: u8 }
impl MapS {
    #[verifier::external_body]
    pub fn is_empty(&self) -> (r: bool) { unimplemented!() }
    #[verifier::external_body]
    pub fn len(&self) -> (r: usize) { unimplemented!() }
}
macro_rules! map_section {
    ($($n:ident = $k:expr),*) => { verus!{ $(
        pub struct $n(pub MapS);
        impl Sect for $n { open spec fn kind() -> int { $k } uninterp spec fn id(&self) -> int; }
        /// Deref to the map: whether the map has entries is nothing the message's section list may depend on (a section that is SET is a section of the message, empty or not)
        impl $n { pub fn is_empty(&self) -> (r: bool) { self.0.is_empty() } pub fn len(&self) -> (r: usize) { self.0.len() } }
    )* } }
}
map_section!(DeliveryAnnotations = 1, MessageAnnotations = 2, ApplicationProperties = 4, Footer = 6);

#[verifier::external_body]
pub struct SerError { _p: u8 }
pub struct StructSer { pub fields: Ghost<Seq<Emitted>> }
pub struct SerializerS { pub g: Ghost<int> }
impl SerializerS {
    #[verifier::external_body]
    pub fn serialize_struct(self, name: &'static str, len: usize) -> (r: Result<StructSer, SerError>)
        ensures r is Ok ==> r->Ok_0.fields@ == Seq::<Emitted>::empty(),
    { unimplemented!() }
}
impl StructSer {
    #[verifier::external_body]
    pub fn serialize_field<T: Sect>(&mut self, name: &'static str, v: &T) -> (r: Result<(), SerError>)
        ensures r is Ok ==> final(self).fields@ == old(self).fields@.push(Emitted { kind: T::kind(), id: v.id() }),
    { unimplemented!() }
    #[verifier::external_body]
    pub fn end(self) -> (r: Result<Seq<Emitted>, SerError>)
        ensures r is Ok ==> r->Ok_0 == self.fields@,
    { unimplemented!() }
}
pub trait ErrInto<T>: Sized { spec fn conv(self) -> T; fn err_into(self) -> (r: T) ensures r == self.conv(); }
impl ErrInto<SerError> for SerError { open spec fn conv(self) -> SerError { self } #[verifier::external_body] fn err_into(self) -> (r: SerError) { unimplemented!() } }

//@@ type file=fe2o3-amqp-types/src/messaging/message/mod.rs kind=struct name=Message
//@@ subst `Message<B>` => `Message` rule=R7
//@@ subst `body: B` => `body: Body` rule=R7
//@@ end

pub open spec fn opt_sect<T: Sect>(o: Option<T>) -> Seq<Emitted> { match o { Some(v) => seq![Emitted { kind: T::kind(), id: v.id() }], None => Seq::<Emitted>::empty() } }
/// AMQP 1.0 part 3, 3.2: the sections of a message, in this order, each optional one present exactly when it is set
pub open spec fn sections_of(m: Message) -> Seq<Emitted> {
    opt_sect(m.header) + opt_sect(m.delivery_annotations) + opt_sect(m.message_annotations) + opt_sect(m.properties) + opt_sect(m.application_properties)
        + seq![Emitted { kind: 5, id: m.body.id() }] + opt_sect(m.footer)
}

impl Message {
//@@ fn file=fe2o3-amqp-types/src/messaging/message/mod.rs impl=`~impl<B>Message<B>whereB:SerializableBody` name=serialize
//@@ qmark
//@@ generics
//@@ nowhere
//@@ param serializer : SerializerS
//@@ ret Result<Seq<Emitted>, SerError>
//@@ spec
    ensures
        r is Ok ==> r->Ok_0 =~= sections_of(*self),       // [C03.message.sections] [C05.message.sections-in-spec-order] a message is written as its sections in the AMQP order; an optional section is written exactly when it is set (Some), however empty its content -- so what is decoded has the same sections
//@@ end

//@@ fn file=fe2o3-amqp-types/src/messaging/message/mod.rs impl=`impl<T> Message<T>` name=sections
//@@ spec
    ensures r == sections_of(*self).len(),                // [C03.message.section-count] the section count used for resumption bookkeeping is the number of sections actually written
//@@ end

//@@ fn file=fe2o3-amqp-types/src/messaging/message/mod.rs impl=`impl<T> Message<T>` name=last_section_code
//@@ spec
    ensures r == (if self.footer is Some { 0x78u8 } else { 0x77u8 }),
//@@ end
}


// ---------------------------------------------------------------------------------------------------------------
// decoding side: the visitor that rebuilds a Message from the stream of (descriptor, value) pairs

//@@ trusted the serde SeqAccess handed to the Message visitor is a stand-in over a ghost stream of tokens (descriptor code, section value): next_element::<Field>() yields the Field that FieldVisitor::visit_u64 (under contract here) gives for the next descriptor code, next_element::<Section>() yields a value with the identity of the next value token provided its kind is that section type's, Ok(None) only at the end of the stream; either may fail instead
//@@ trusted the body is one opaque value whatever its kind (a batch of Data / AmqpSequence sections is decoded inside the body type's own Deserialize impl, not under contract); FieldVisitor::visit_str (symbolic descriptors) is not under contract
pub enum Token { Desc(u64), Val(Emitted) }
//@@ type file=fe2o3-amqp-types/src/messaging/message/mod.rs kind=enum name=Field
//@@ end
/// AMQP 1.0 part 3, 3.2.1 - 3.2.9: the descriptor codes of the message sections
pub open spec fn field_of_code(c: u64) -> Option<Field> {
    if c == 0x70 { Some(Field::Header) } else if c == 0x71 { Some(Field::DeliveryAnnotations) } else if c == 0x72 { Some(Field::MessageAnnotations) }
    else if c == 0x73 { Some(Field::Properties) } else if c == 0x74 { Some(Field::ApplicationProperties) }
    else if 0x75 <= c <= 0x77 { Some(Field::Body) } else if c == 0x78 { Some(Field::Footer) } else { None }
}
pub open spec fn kind_of_field(f: Field) -> int {
    match f { Field::Header => 0, Field::DeliveryAnnotations => 1, Field::MessageAnnotations => 2, Field::Properties => 3, Field::ApplicationProperties => 4, Field::Body => 5, Field::Footer => 6 }
}
pub trait Elem: Sized { spec fn matches(self, t: Token) -> bool; }
impl Elem for Field { open spec fn matches(self, t: Token) -> bool { t is Desc && field_of_code(t->Desc_0) == Some(self) } }
impl<T: Sect> Elem for T { open spec fn matches(self, t: Token) -> bool { t is Val && t->Val_0.kind == T::kind() && t->Val_0.id == self.id() } }
pub struct SeqS { pub rest: Ghost<Seq<Token>> }
impl SeqS {
    #[verifier::external_body]
    pub fn next_element<T: Elem>(&mut self) -> (r: Result<Option<T>, SerError>)
        ensures (match r {
            Ok(Some(v)) => old(self).rest@.len() > 0 && v.matches(old(self).rest@[0]) && final(self).rest@ == old(self).rest@.drop_first(),
            Ok(None) => old(self).rest@.len() == 0 && final(self).rest@ == old(self).rest@,
            Err(_) => true,
        }),
    { unimplemented!() }
}
impl SerError { #[verifier::external_body] pub fn custom(msg: &str) -> (r: SerError) { unimplemented!() } }
#[verifier::external_body]
pub fn from_empty_body() -> (r: Result<Body, SerError>) { unimplemented!() }

/// the identities of the sections of a message under construction, by kind 0..=6
pub struct St { pub s0: Option<int>, pub s1: Option<int>, pub s2: Option<int>, pub s3: Option<int>, pub s4: Option<int>, pub s5: Option<int>, pub s6: Option<int> }
pub open spec fn st_init() -> St { St { s0: None, s1: None, s2: None, s3: None, s4: None, s5: None, s6: None } }
pub open spec fn st_set(st: St, k: int, v: Option<int>) -> St {
    if k == 0 { St { s0: v, ..st } } else if k == 1 { St { s1: v, ..st } } else if k == 2 { St { s2: v, ..st } } else if k == 3 { St { s3: v, ..st } }
    else if k == 4 { St { s4: v, ..st } } else if k == 5 { St { s5: v, ..st } } else { St { s6: v, ..st } }
}
pub open spec fn opt_id<T: Sect>(o: Option<T>) -> Option<int> { match o { Some(v) => Some(v.id()), None => None } }
pub open spec fn st_of(h: Option<Header>, da: Option<DeliveryAnnotations>, ma: Option<MessageAnnotations>, p: Option<Properties>, ap: Option<ApplicationProperties>, b: Option<Body>, f: Option<Footer>) -> St {
    St { s0: opt_id(h), s1: opt_id(da), s2: opt_id(ma), s3: opt_id(p), s4: opt_id(ap), s5: opt_id(b), s6: opt_id(f) }
}
/// what the visitor does with a token stream: up to 7 (descriptor, value) pairs, each stored by the descriptor's section kind
pub open spec fn run(st: St, toks: Seq<Token>, count: int) -> St
    decreases toks.len(),
{
    if count >= 7 || toks.len() == 0 { st }
    else if !(toks[0] is Desc) || field_of_code(toks[0]->Desc_0) is None { st }     // (the visitor fails here)
    else {
        let k = kind_of_field(field_of_code(toks[0]->Desc_0)->Some_0);
        if toks.len() == 1 { st_set(st, k, None) }
        else if !(toks[1] is Val) { st }                                             // (the visitor fails here)
        else { run(st_set(st, k, Some(toks[1]->Val_0.id)), toks.skip(2), count + 1) }
    }
}

impl FieldVisitor {
//@@ fn file=fe2o3-amqp-types/src/messaging/message/mod.rs impl=`impl de::Visitor<'_> for FieldVisitor` name=visit_u64
//@@ generics
//@@ nowhere
//@@ ret Result<Field, SerError>
//@@ subst `serde_amqp::serde::de::Error::custom(` => `SerError::custom(` rule=R9
//@@ spec
    ensures
        r is Ok <==> field_of_code(v) is Some,                     // [C03.message.section-codes] a section is recognised by its AMQP descriptor code: 0x70 header, 0x71 delivery-annotations, 0x72 message-annotations, 0x73 properties, 0x74 application-properties, 0x75-0x77 body, 0x78 footer
        r is Ok ==> Some(r->Ok_0) == field_of_code(v),
//@@ end
}
pub struct FieldVisitor {}
pub struct Visitor {}
impl Visitor {
//@@ fn file=fe2o3-amqp-types/src/messaging/message/mod.rs impl=`~impl<'de,B>de::Visitor<'de>forVisitor<B>` name=visit_seq
//@@ shape loops=while
//@@ qmark
//@@ generics
//@@ nowhere
//@@ param seq : SeqS
//@@ ret Result<Message, SerError>
//@@ subst `let mut body: Option<B> = None;` => `let mut body: Option<Body> = None;` rule=R7
//@@ subst `let deserializable: Option<B::Body> = ` => `let deserializable: Option<Body> = ` rule=R7
//@@ subst `deserializable.map(<B as FromBody>::from_body)` => `deserializable` rule=R7
//@@ subst `B::from_empty_body().map_err(de::Error::custom)` => `from_empty_body()` rule=R7
//@@ entry
    let ghost orig = seq.rest@;
//@@ loop 0
        invariant
            0 <= count <= 7,
            run(st_of(header, delivery_annotations, message_annotations, properties, application_properties, body, footer), seq.rest@, count as int) == run(st_init(), orig, 0),
        ensures
            st_of(header, delivery_annotations, message_annotations, properties, application_properties, body, footer) == run(st_init(), orig, 0),
        decreases 7 - count,
//@@ loopstart 0
    let ghost pre = seq.rest@;
//@@ loopend 0
    assert(pre.len() >= 2 ==> pre.drop_first().drop_first() =~= pre.skip(2));
//@@ spec
    ensures
        r is Ok ==> ({
            let m = r->Ok_0;
            let s = run(st_init(), seq.rest@, 0);
            &&& opt_id(m.header) == s.s0 && opt_id(m.delivery_annotations) == s.s1 && opt_id(m.message_annotations) == s.s2           // [C03.message.visitor] every section read from the wire ends up in the field of its kind
            &&& opt_id(m.properties) == s.s3 && opt_id(m.application_properties) == s.s4 && opt_id(m.footer) == s.s6
            &&& s.s5 is Some ==> Some(m.body.id()) == s.s5
        }),
//@@ end
}

// ---------------------------------------------------------------------------------------------------------------
// round trip at the level of sections: what serialize hands out, read back by visit_seq, is the same message

pub open spec fn code_of_kind(k: int, bc: u64) -> u64 { if k == 5 { bc } else if k == 6 { 0x78 } else { (0x70 + k) as u64 } }
/// the token stream of a sequence of sections: each is its descriptor followed by its value
pub open spec fn toks_of(es: Seq<Emitted>, bc: u64) -> Seq<Token>
    decreases es.len(),
{ if es.len() == 0 { Seq::<Token>::empty() } else { seq![Token::Desc(code_of_kind(es[0].kind, bc)), Token::Val(es[0])] + toks_of(es.drop_first(), bc) } }
pub open spec fn fold_set(st: St, es: Seq<Emitted>) -> St
    decreases es.len(),
{ if es.len() == 0 { st } else { fold_set(st_set(st, es[0].kind, Some(es[0].id)), es.drop_first()) } }

pub proof fn lemma_run(st: St, es: Seq<Emitted>, bc: u64, count: int)
    requires 0x75 <= bc <= 0x77, count >= 0, count + es.len() <= 7, forall|i: int| 0 <= i < es.len() ==> 0 <= #[trigger] es[i].kind <= 6,
    ensures run(st, toks_of(es, bc), count) == fold_set(st, es),
    decreases es.len(),
{
    if es.len() > 0 {
        let t = toks_of(es, bc);
        let k = es[0].kind;
        assert(t[0] == Token::Desc(code_of_kind(k, bc)) && t[1] == Token::Val(es[0]));
        assert(t.skip(2) =~= toks_of(es.drop_first(), bc));
        assert(kind_of_field(field_of_code(code_of_kind(k, bc))->Some_0) == k);
        lemma_run(st_set(st, k, Some(es[0].id)), es.drop_first(), bc, count + 1);
    }
}
pub proof fn lemma_fold_concat(st: St, a: Seq<Emitted>, b: Seq<Emitted>)
    ensures fold_set(st, a + b) == fold_set(fold_set(st, a), b),
    decreases a.len(),
{
    if a.len() == 0 { assert(a + b =~= b); }
    else {
        assert((a + b)[0] == a[0] && (a + b).drop_first() =~= a.drop_first() + b);
        lemma_fold_concat(st_set(st, a[0].kind, Some(a[0].id)), a.drop_first(), b);
    }
}
pub proof fn lemma_fold_opt<T: Sect>(st: St, o: Option<T>)
    ensures fold_set(st, opt_sect(o)) == (match o { Some(v) => st_set(st, T::kind(), Some(v.id())), None => st }),
{
    reveal_with_fuel(fold_set, 2);
    if o is Some { assert(opt_sect(o).drop_first() =~= Seq::<Emitted>::empty()); }
}
/// [C03.message.round-trip] for every message (every combination of optional sections, any body descriptor 0x75..0x77): the sections written by
/// Message::serialize, presented to the visitor as (descriptor, value) pairs, are rebuilt into a message with the same sections
pub proof fn lemma_message_round_trip(m: Message, bc: u64)
    requires 0x75 <= bc <= 0x77,
    ensures run(st_init(), toks_of(sections_of(m), bc), 0) == st_of(m.header, m.delivery_annotations, m.message_annotations, m.properties, m.application_properties, Some(m.body), m.footer),
{
    let s0 = opt_sect(m.header); let s1 = opt_sect(m.delivery_annotations); let s2 = opt_sect(m.message_annotations); let s3 = opt_sect(m.properties);
    let s4 = opt_sect(m.application_properties); let s5 = seq![Emitted { kind: 5, id: m.body.id() }]; let s6 = opt_sect(m.footer);
    lemma_run(st_init(), sections_of(m), bc, 0);
    let a0 = st_init();
    lemma_fold_concat(a0, s0 + s1 + s2 + s3 + s4 + s5, s6);
    lemma_fold_concat(a0, s0 + s1 + s2 + s3 + s4, s5);
    lemma_fold_concat(a0, s0 + s1 + s2 + s3, s4);
    lemma_fold_concat(a0, s0 + s1 + s2, s3);
    lemma_fold_concat(a0, s0 + s1, s2);
    lemma_fold_concat(a0, s0, s1);
    lemma_fold_opt(a0, m.header); let a1 = fold_set(a0, s0);
    lemma_fold_opt(a1, m.delivery_annotations); let a2 = fold_set(a1, s1);
    lemma_fold_opt(a2, m.message_annotations); let a3 = fold_set(a2, s2);
    lemma_fold_opt(a3, m.properties); let a4 = fold_set(a3, s3);
    lemma_fold_opt(a4, m.application_properties); let a5 = fold_set(a4, s4);
    reveal_with_fuel(fold_set, 2);
    assert(s5.drop_first() =~= Seq::<Emitted>::empty());
    let a6 = fold_set(a5, s5);
    lemma_fold_opt(a6, m.footer);
}

/// Option::filter (std): keeps the value exactly when the predicate holds for it
pub assume_specification<T, P: FnOnce(&T) -> bool>[ Option::<T>::filter ](o: Option<T>, p: P) -> (r: Option<T>)
    requires o is Some ==> p.requires((&o->Some_0,)),
    ensures (match o { Some(v) => exists|b: bool| p.ensures((&v,), b) && r == (if b { Some(v) } else { None::<T> }), None => r is None });

} // verus!
fn main() {}
