//@@ unit MESSAGE
#![feature(allocator_api)]
#![allow(unused_imports, unused_variables, dead_code, unused_mut, unused_parens)]
use vstd::prelude::*;

verus! {

//@@ trusted the serde Serializer handed to Message::serialize is a stand-in: serialize_struct(name, len) starts a struct serializer, serialize_field(name, value) appends WHICH section value it was given to a ghost trace (or fails), end() finishes; how each section is encoded is the business of that section's own Serialize impl (derive output, not under contract)
//@@ trusted the section types (Header, DeliveryAnnotations, ..., the body B, Footer) are opaque; each value has an uninterpreted identity

pub const DESCRIBED_BASIC: &'static str = "DESCRIBED_BASIC";
/// which section (0 header .. 6 footer) and which value
pub struct Emitted { pub kind: int, pub id: int }
pub trait Sect { spec fn kind() -> int; spec fn id(&self) -> int; }
macro_rules! section {
    ($($n:ident = $k:expr),*) => { verus!{ $(
        #[verifier::external_body]
        pub struct $n { _p: u8 }
        impl Sect for $n { open spec fn kind() -> int { $k } uninterp spec fn id(&self) -> int; }
    )* } }
}
section!(Header = 0, Properties = 3, Body = 5);
/// the map-shaped sections are newtypes around a map (they can be present and empty)
#[verifier::external_body]
pub struct MapS { _p: u8 }
impl MapS {
    #[verifier::external_body]
    pub fn is_empty(&self) -> (r: bool) { unimplemented!() }
    #[verifier::external_body]
    pub fn len(&self) -> (r: usize) { unimplemented!() }
}
macro_rules! map_section {
    ($($n:ident = $k:expr),*) => { verus!{ $(
        pub struct $n(pub MapS);
        impl Sect for $n { open spec fn kind() -> int { $k } uninterp spec fn id(&self) -> int; }
    )* } }
}
map_section!(DeliveryAnnotations = 1, MessageAnnotations = 2, ApplicationProperties = 4, Footer = 6);

#[verifier::external_body]
pub struct SerError { _p: u8 }
pub struct StructSer { pub fields: Ghost<Seq<Emitted>> }
pub struct SerializerS { pub g: Ghost<int> }
impl SerializerS {
    #[verifier::external_body]
    pub fn serialize_struct(self, name: &'static str, len: usize) -> (r: Result<StructSer, SerError>)
        ensures r is Ok ==> r->Ok_0.fields@ == Seq::<Emitted>::empty(),
    { unimplemented!() }
}
impl StructSer {
    #[verifier::external_body]
    pub fn serialize_field<T: Sect>(&mut self, name: &'static str, v: &T) -> (r: Result<(), SerError>)
        ensures r is Ok ==> final(self).fields@ == old(self).fields@.push(Emitted { kind: T::kind(), id: v.id() }),
    { unimplemented!() }
    #[verifier::external_body]
    pub fn end(self) -> (r: Result<Seq<Emitted>, SerError>)
        ensures r is Ok ==> r->Ok_0 == self.fields@,
    { unimplemented!() }
}
pub trait ErrInto<T>: Sized { spec fn conv(self) -> T; fn err_into(self) -> (r: T) ensures r == self.conv(); }
impl ErrInto<SerError> for SerError { open spec fn conv(self) -> SerError { self } #[verifier::external_body] fn err_into(self) -> (r: SerError) { unimplemented!() } }

//@@ type file=fe2o3-amqp-types/src/messaging/message/mod.rs kind=struct name=Message
//@@ subst `Message<B>` => `Message` rule=R7
//@@ subst `body: B` => `body: Body` rule=R7
//@@ end

pub open spec fn opt_sect<T: Sect>(o: Option<T>) -> Seq<Emitted> { match o { Some(v) => seq![Emitted { kind: T::kind(), id: v.id() }], None => Seq::<Emitted>::empty() } }
/// AMQP 1.0 part 3, 3.2: the sections of a message, in this order, each optional one present exactly when it is set
pub open spec fn sections_of(m: Message) -> Seq<Emitted> {
    opt_sect(m.header) + opt_sect(m.delivery_annotations) + opt_sect(m.message_annotations) + opt_sect(m.properties) + opt_sect(m.application_properties)
        + seq![Emitted { kind: 5, id: m.body.id() }] + opt_sect(m.footer)
}

impl Message {
//@@ fn file=fe2o3-amqp-types/src/messaging/message/mod.rs impl=`~impl<B>Message<B>whereB:SerializableBody` name=serialize
//@@ qmark
//@@ generics
//@@ nowhere
//@@ param serializer : SerializerS
//@@ ret Result<Seq<Emitted>, SerError>
//@@ spec
    ensures
        r is Ok ==> r->Ok_0 =~= sections_of(*self),       // [C03.message.sections] a message is written as its sections in the AMQP order; an optional section is written exactly when it is set (Some), however empty its content -- so what is decoded has the same sections
//@@ end

//@@ fn file=fe2o3-amqp-types/src/messaging/message/mod.rs impl=`impl<T> Message<T>` name=sections
//@@ spec
    ensures r == sections_of(*self).len(),                // [C03.message.section-count] the section count used for resumption bookkeeping is the number of sections actually written
//@@ end

//@@ fn file=fe2o3-amqp-types/src/messaging/message/mod.rs impl=`impl<T> Message<T>` name=last_section_code
//@@ spec
    ensures r == (if self.footer is Some { 0x78u8 } else { 0x77u8 }),
//@@ end
}

/// Option::filter (std): keeps the value exactly when the predicate holds for it
pub assume_specification<T, P: FnOnce(&T) -> bool>[ Option::<T>::filter ](o: Option<T>, p: P) -> (r: Option<T>)
    requires o is Some ==> p.requires((&o->Some_0,)),
    ensures (match o { Some(v) => exists|b: bool| p.ensures((&v,), b) && r == (if b { Some(v) } else { None::<T> }), None => r is None });

} // verus!
fn main() {}
