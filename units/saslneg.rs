//@@ unit SASLNEG
#![feature(allocator_api)]
#![allow(unused_imports, unused_variables, dead_code, unused_mut, unused_parens)]
use vstd::prelude::*;

verus! {

//@@ include common.rs
//@@ trusted the SASL transport is a stand-in: `send` appends to a ghost trace of SASL frames or fails; `next` yields an arbitrary frame, an error or end-of-stream (the peer is unconstrained)
//@@ trusted the mechanism (`Sasl: SaslAcceptor`) is a stand-in returning an arbitrary challenge or outcome; negotiate_sasl_header / negotiate_amqp_with_framed are stand-ins: the latter can only be reached with the codec pair taken out of the SASL transport, whose ghost history it copies into the handle it returns
//@@ trusted leaf stand-ins: SaslInit, SaslResponse, SaslChallenge, SaslMechanisms, Binary, framed codec halves opaque; built as with feature acceptor

macro_rules! opaque {
    ($($n:ident),*) => { verus!{ $(
        #[verifier::external_body]
        pub struct $n { _p: u8 }
        impl Clone for $n { #[verifier::external_body] fn clone(&self) -> (r: Self) ensures r == *self { unimplemented!() } }
    )* } }
}
opaque!(SaslInit, SaslResponse, SaslChallenge, SaslMechanisms, Binary, FramedW, FramedR, TransportError);

//@@ type file=fe2o3-amqp-types/src/sasl/mod.rs kind=enum name=SaslCode clone keeprepr
//@@ end
//@@ type file=fe2o3-amqp-types/src/sasl/mod.rs kind=struct name=SaslOutcome
//@@ end
//@@ type file=fe2o3-amqp/src/acceptor/sasl_acceptor.rs kind=enum name=SaslServerFrame
//@@ end
pub mod sasl {
    use super::*;
    pub enum Frame { Mechanisms(SaslMechanisms), Init(SaslInit), Challenge(SaslChallenge), Response(SaslResponse), Outcome(SaslOutcome) }
}
pub enum OpenError { Io, Transport(TransportError), SaslError { code: SaslCode, additional_data: Option<Binary> }, Other }
impl From<TransportError> for OpenError { #[verifier::external_body] fn from(e: TransportError) -> Self { OpenError::Transport(e) } }
#[verifier::external_body]
pub fn eof_error() -> (r: OpenError) { unimplemented!() }

pub struct SaslTransport { pub sent: Ghost<Seq<sasl::Frame>> }
pub struct Codecs { pub fw: FramedW, pub fr: FramedR, pub history: Ghost<Seq<sasl::Frame>> }
impl SaslTransport {
    #[verifier::external_body]
    pub fn negotiate_sasl_header(fw: FramedW, fr: FramedR) -> (r: Result<SaslTransport, TransportError>)
        ensures r is Ok ==> r->Ok_0.sent@ == Seq::<sasl::Frame>::empty(),
    { unimplemented!() }
    #[verifier::external_body]
    pub fn send(&mut self, f: sasl::Frame) -> (r: Result<(), TransportError>)
        ensures r is Ok ==> final(self).sent@ == old(self).sent@.push(f), r is Err ==> final(self).sent@ == old(self).sent@,
    { unimplemented!() }
    #[verifier::external_body]
    pub fn next(&mut self) -> (r: Option<Result<sasl::Frame, TransportError>>)
        ensures final(self).sent == old(self).sent,
    { unimplemented!() }
    #[verifier::external_body]
    pub fn into_framed_codec(self) -> (r: Codecs) ensures r.history@ == self.sent@ { unimplemented!() }
}
pub struct ListenerConnectionHandle { pub sasl_history: Ghost<Seq<sasl::Frame>> }
pub struct SaslS { pub g: Ghost<int> }
impl Clone for SaslS { #[verifier::external_body] fn clone(&self) -> (r: Self) { unimplemented!() } }
impl SaslS {
    #[verifier::external_body]
    pub fn sasl_mechanisms(&self) -> (r: SaslMechanisms) { unimplemented!() }
    #[verifier::external_body]
    pub fn on_init(&mut self, init: SaslInit) -> (r: SaslServerFrame) { unimplemented!() }
    #[verifier::external_body]
    pub fn on_response(&mut self, resp: SaslResponse) -> (r: SaslServerFrame) { unimplemented!() }
}
pub struct ConnectionAcceptor { pub sasl_acceptor: SaslS }
impl ConnectionAcceptor {
    #[verifier::external_body]
    pub fn negotiate_amqp_with_codecs(&self, c: Codecs) -> (r: Result<ListenerConnectionHandle, OpenError>)
        ensures r is Ok ==> r->Ok_0.sasl_history@ == c.history@,
    { unimplemented!() }

//@@ fn file=fe2o3-amqp/src/acceptor/connection.rs impl=`impl<Tls, Sasl> ConnectionAcceptor<Tls, Sasl> where Sasl: SaslAcceptor,` name=negotiate_sasl_with_framed
//@@ attr #[verifier::exec_allows_no_decreases_clause]
//@@ generics
//@@ nowhere
//@@ param framed_write : FramedW
//@@ param framed_read : FramedR
//@@ subst `Transport::negotiate_sasl_header(framed_write, framed_read)` => `SaslTransport::negotiate_sasl_header(framed_write, framed_read)` rule=R9
//@@ subst `transport.next().ok_or_else(|| { OpenError::Io(io::Error::new( io::ErrorKind::UnexpectedEof, "Expecting SASL frames", )) })??` => `(match (match transport.next() { Some(x) => x, None => return Err(eof_error()) }) { Ok(f) => f, Err(e) => return Err(OpenError::Transport(e)) })` rule=R24
//@@ subst `let (framed_write, framed_read) = transport.into_framed_codec(); let framed_write = framed_write.map_encoder(|_v0| ProtocolHeaderCodec::new()); let framed_read = framed_read.map_decoder(|_v1| ProtocolHeaderCodec::new()); self.negotiate_amqp_with_framed(framed_write, framed_read)` => `let codecs = transport.into_framed_codec(); self.negotiate_amqp_with_codecs(codecs)` rule=R9
//@@ spec
    ensures
        r is Ok ==> ({
            let h = r->Ok_0.sasl_history@;
            &&& h.len() >= 2
            &&& h[0] is Mechanisms                                                                       // [C19.listener.mechanisms-first] the listener starts the exchange by advertising its mechanisms
            &&& h.last() is Outcome && h.last()->Outcome_0.code is Ok                                    // [C19.listener.no-connection-without-ok-outcome] an AMQP connection is only ever negotiated after an outcome with code OK was produced by the mechanism AND sent: wrong credentials, unknown users, out-of-order frames, EOF all end in Err
            &&& (forall|i: int| 0 <= i < h.len() - 1 ==> !((#[trigger] h[i]) is Outcome))                // [C19.listener.first-outcome-decides] the first outcome decides: a failed outcome is never followed by another attempt on the same exchange
        }),
//@@ loop 0
        invariant_except_break
            transport.sent@.len() >= 1,
            transport.sent@[0] is Mechanisms,
            forall|i: int| 0 <= i < transport.sent@.len() ==> !((#[trigger] transport.sent@[i]) is Outcome),
        ensures
            transport.sent@.len() >= 2,
            transport.sent@[0] is Mechanisms,
            transport.sent@.last() is Outcome && transport.sent@.last()->Outcome_0.code is Ok,
            forall|i: int| 0 <= i < transport.sent@.len() - 1 ==> !((#[trigger] transport.sent@[i]) is Outcome),
//@@ end
}

} // verus!
fn main() {}
