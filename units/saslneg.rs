//@@ unit SASLNEG
#![feature(allocator_api)]
#![allow(unused_imports, unused_variables, dead_code, unused_mut, unused_parens)]
use vstd::prelude::*;

verus! {

//@@ include common.rs
//@@ trusted the SASL transport is a stand-in: `send` appends to a ghost trace of SASL frames or fails; `next` yields an arbitrary frame, an error or end-of-stream (the peer is unconstrained)
//@@ trusted the mechanism (`Sasl: SaslAcceptor`) is a stand-in returning an arbitrary challenge or outcome; negotiate_sasl_header / negotiate_amqp_with_framed are stand-ins: the latter copies the ghost SASL history of the halves it is given into the handle it returns
//@@ trusted leaf stand-ins: SaslInit, SaslResponse, SaslChallenge, SaslMechanisms, Binary, framed codec halves opaque; built as with feature acceptor

macro_rules! opaque {
    ($($n:ident),*) => { verus!{ $(
        #[verifier::external_body]
        pub struct $n { _p: u8 }
        impl Clone for $n { #[verifier::external_body] fn clone(&self) -> (r: Self) ensures r == *self { unimplemented!() } }
    )* } }
}
opaque!(SaslInit, SaslResponse, SaslChallenge, SaslMechanisms, Binary, TransportError);

//@@ type file=fe2o3-amqp-types/src/sasl/mod.rs kind=enum name=SaslCode clone keeprepr
//@@ end
//@@ type file=fe2o3-amqp-types/src/sasl/mod.rs kind=struct name=SaslOutcome
//@@ end
//@@ type file=fe2o3-amqp/src/acceptor/sasl_acceptor.rs kind=enum name=SaslServerFrame
//@@ end
pub mod sasl {
    use super::*;
    pub enum Frame { Mechanisms(SaslMechanisms), Init(SaslInit), Challenge(SaslChallenge), Response(SaslResponse), Outcome(SaslOutcome) }
}
pub enum OpenError { Io, Transport(TransportError), SaslError { code: SaslCode, additional_data: Option<Binary> }, Other }
impl From<TransportError> for OpenError { #[verifier::external_body] fn from(e: TransportError) -> Self { OpenError::Transport(e) } }
#[verifier::external_body]
pub fn eof_error() -> (r: OpenError) { unimplemented!() }

pub struct SaslTransport { pub sent: Ghost<Seq<sasl::Frame>>, pub client_sasl_ok: Ghost<bool> }
//@@ trusted tokio_util's FramedWrite / FramedRead halves are stand-ins (R9): a half remembers the SASL exchange it came out of (`history`) and, on the read side, the octets already READ from the socket but not yet decoded (`unread`: whatever the peer pipelined behind its last SASL frame -- its AMQP protocol header, its Open) next to what was received there (`received`). map_encoder / map_decoder swap the codec and keep the buffers (tokio_util: "maps the codec while preserving the read buffer"); into_inner hands out the bare I/O half WITHOUT the buffer; FramedRead::new / FramedWrite::new start with an empty buffer
pub struct LengthDelimited {}
pub struct ProtocolHeaderCodec {}
impl ProtocolHeaderCodec { pub fn new() -> (r: Self) { ProtocolHeaderCodec {} } }
pub struct IoHalf { pub history: Ghost<Seq<sasl::Frame>>, pub received: Ghost<Seq<u8>>, pub client_sasl_ok: Ghost<bool> }
pub struct FramedW { pub history: Ghost<Seq<sasl::Frame>> }
pub struct FramedR { pub history: Ghost<Seq<sasl::Frame>>, pub received: Ghost<Seq<u8>>, pub unread: Ghost<Seq<u8>>, pub client_sasl_ok: Ghost<bool> }
pub struct FramedWrite {}
pub struct FramedRead {}
impl FramedWrite { #[verifier::external_body] pub fn new(io: IoHalf, c: ProtocolHeaderCodec) -> (r: FramedW) ensures r.history == io.history { unimplemented!() } }
impl FramedRead {
    #[verifier::external_body]
    pub fn new(io: IoHalf, c: ProtocolHeaderCodec) -> (r: FramedR) ensures r.history == io.history, r.received == io.received, r.unread@ == Seq::<u8>::empty(), r.client_sasl_ok == io.client_sasl_ok { unimplemented!() }
}
impl FramedW {
    #[verifier::external_body]
    pub fn map_encoder<F: FnOnce(LengthDelimited) -> ProtocolHeaderCodec>(self, f: F) -> (r: FramedW) ensures r.history == self.history { unimplemented!() }
    #[verifier::external_body]
    pub fn into_inner(self) -> (r: IoHalf) ensures r.history == self.history { unimplemented!() }
}
impl FramedR {
    #[verifier::external_body]
    pub fn map_decoder<F: FnOnce(LengthDelimited) -> ProtocolHeaderCodec>(self, f: F) -> (r: FramedR) ensures r.history == self.history, r.received == self.received, r.unread == self.unread, r.client_sasl_ok == self.client_sasl_ok { unimplemented!() }
    #[verifier::external_body]
    pub fn into_inner(self) -> (r: IoHalf) ensures r.history == self.history, r.received == self.received, r.client_sasl_ok == self.client_sasl_ok { unimplemented!() }
}
impl SaslTransport {
    #[verifier::external_body]
    pub fn negotiate_sasl_header(fw: FramedW, fr: FramedR) -> (r: Result<SaslTransport, TransportError>)
        ensures r is Ok ==> r->Ok_0.sent@ == Seq::<sasl::Frame>::empty(),
    { unimplemented!() }
    #[verifier::external_body]
    pub fn send(&mut self, f: sasl::Frame) -> (r: Result<(), TransportError>)
        ensures r is Ok ==> final(self).sent@ == old(self).sent@.push(f), r is Err ==> final(self).sent@ == old(self).sent@,
    { unimplemented!() }
    /// `send` with the frame also noted in the caller's wire log
    #[verifier::external_body]
    pub fn send_l(&mut self, f: sasl::Frame, wire: &mut WireLog) -> (r: Result<(), TransportError>)
        ensures r is Ok ==> final(self).sent@ == old(self).sent@.push(f) && final(wire).frames@ == old(wire).frames@.push(f),
            r is Err ==> final(self).sent@ == old(self).sent@ && final(wire).frames@ == old(wire).frames@,
    { unimplemented!() }
    #[verifier::external_body]
    pub fn next(&mut self) -> (r: Option<Result<sasl::Frame, TransportError>>)
        ensures final(self).sent == old(self).sent,
    { unimplemented!() }
    #[verifier::external_body]
    pub fn into_framed_codec(self) -> (r: (FramedW, FramedR)) ensures r.0.history@ == self.sent@, r.1.history@ == self.sent@, r.1.unread == r.1.received, r.1.client_sasl_ok == self.client_sasl_ok { unimplemented!() }
}
pub struct ListenerConnectionHandle { pub sasl_history: Ghost<Seq<sasl::Frame>> }
/// `f` is an answer the configured SASL mechanism gave to the peer's init / response (SaslAcceptor::on_init / on_response)
pub uninterp spec fn mech_says(f: SaslServerFrame) -> bool;
/// what this negotiation has put on the wire, kept OUTSIDE the transport (the transport is a local of the function and is gone when it fails)
pub struct WireLog { pub frames: Ghost<Seq<sasl::Frame>> }
pub struct SaslS { pub g: Ghost<int> }
impl Clone for SaslS { #[verifier::external_body] fn clone(&self) -> (r: Self) { unimplemented!() } }
impl SaslS {
    #[verifier::external_body]
    pub fn sasl_mechanisms(&self) -> (r: SaslMechanisms) { unimplemented!() }
    #[verifier::external_body]
    pub fn on_init(&mut self, init: SaslInit) -> (r: SaslServerFrame) ensures mech_says(r) { unimplemented!() }
    #[verifier::external_body]
    pub fn on_response(&mut self, resp: SaslResponse) -> (r: SaslServerFrame) ensures mech_says(r) { unimplemented!() }
}
pub struct ConnectionAcceptor { pub sasl_acceptor: SaslS }
impl ConnectionAcceptor {
    #[verifier::external_body]
    pub fn negotiate_amqp_with_framed(&self, framed_write: FramedW, framed_read: FramedR) -> (r: Result<ListenerConnectionHandle, OpenError>)
        requires framed_read.unread@ == framed_read.received@,        // [C06.listener.pipelined-octets-survive-the-sasl-layer] incoming frames are decoded identically however the byte stream is split across reads: octets of the peer's AMQP header / Open that arrived in the same read as its last SASL frame are still in the read buffer when the AMQP exchange starts -- a half rebuilt from the bare socket has lost them, and the listener then waits for a header the peer has already sent
        ensures r is Ok ==> r->Ok_0.sasl_history@ == framed_read.history@ && framed_write.history@ == framed_read.history@,
    { unimplemented!() }

//@@ fn file=fe2o3-amqp/src/acceptor/connection.rs impl=`impl<Tls, Sasl> ConnectionAcceptor<Tls, Sasl> where Sasl: SaslAcceptor,` name=negotiate_sasl_with_framed
//@@ shape loops=loop
//@@ attr #[verifier::exec_allows_no_decreases_clause]
//@@ generics
//@@ nowhere
//@@ param framed_write : FramedW
//@@ param framed_read : FramedR
//@@ subst `Transport::negotiate_sasl_header(framed_write, framed_read)` => `SaslTransport::negotiate_sasl_header(framed_write, framed_read)` rule=R9
//@@ subst `transport.next().ok_or_else(|| { OpenError::Io(io::Error::new( io::ErrorKind::UnexpectedEof, "Expecting SASL frames", )) })??` => `(match (match transport.next() { Some(x) => x, None => return Err(eof_error()) }) { Ok(f) => f, Err(e) => return Err(OpenError::Transport(e)) })` rule=R24
//@@ subst `|_v0|` => `|_v0: LengthDelimited|` rule=optional-R5
//@@ subst `|_v1|` => `|_v1: LengthDelimited|` rule=optional-R5
//@@ addparam wire: &mut WireLog
//@@ subst `transport.send(__E1)` => `transport.send_l(__E1, wire)` rule=R33
//@@ spec
    ensures
        forall|i: int| old(wire).frames@.len() <= i < final(wire).frames@.len() && (#[trigger] final(wire).frames@[i]) is Outcome && final(wire).frames@[i]->Outcome_0.code is Ok
            ==> mech_says(SaslServerFrame::Outcome(final(wire).frames@[i]->Outcome_0)),       // [C19.listener.failure-on-both-sides] whether the negotiation succeeds or fails, an outcome with code OK reaches the peer only if the configured mechanism produced it: a malformed or out-of-order SASL frame is answered with a failure outcome (the peer fails too), never with OK
        r is Ok ==> ({
            let h = r->Ok_0.sasl_history@;
            &&& h.len() >= 2
            &&& h[0] is Mechanisms                                                                       // [C19.listener.mechanisms-first] the listener starts the exchange by advertising its mechanisms
            &&& h.last() is Outcome && h.last()->Outcome_0.code is Ok                                    // [C19.listener.no-connection-without-ok-outcome] an AMQP connection is only ever negotiated after an outcome with code OK was produced by the mechanism AND sent: wrong credentials, unknown users, out-of-order frames, EOF all end in Err
            &&& (forall|i: int| 0 <= i < h.len() - 1 ==> !((#[trigger] h[i]) is Outcome))                // [C19.listener.first-outcome-decides] the first outcome decides: a failed outcome is never followed by another attempt on the same exchange
        }),
//@@ loop 0
        invariant_except_break
            forall|i: int| old(wire).frames@.len() <= i < wire.frames@.len() && (#[trigger] wire.frames@[i]) is Outcome && wire.frames@[i]->Outcome_0.code is Ok ==> mech_says(SaslServerFrame::Outcome(wire.frames@[i]->Outcome_0)),
            old(wire).frames@.len() <= wire.frames@.len(),
            transport.sent@.len() >= 1,
            transport.sent@[0] is Mechanisms,
            forall|i: int| 0 <= i < transport.sent@.len() ==> !((#[trigger] transport.sent@[i]) is Outcome),
        ensures
            forall|i: int| old(wire).frames@.len() <= i < wire.frames@.len() && (#[trigger] wire.frames@[i]) is Outcome && wire.frames@[i]->Outcome_0.code is Ok ==> mech_says(SaslServerFrame::Outcome(wire.frames@[i]->Outcome_0)),
            old(wire).frames@.len() <= wire.frames@.len(),
            transport.sent@.len() >= 2,
            transport.sent@[0] is Mechanisms,
            transport.sent@.last() is Outcome && transport.sent@.last()->Outcome_0.code is Ok,
            forall|i: int| 0 <= i < transport.sent@.len() - 1 ==> !((#[trigger] transport.sent@[i]) is Outcome),
//@@ end
}

// ---------------------------------------------------------------------------------------------------------------
// the CLIENT's way through the SASL layer (connection/builder.rs): no AMQP exchange unless the SASL negotiation succeeded; pipelined octets kept
//@@ trusted Builder::negotiate_sasl (the client loop, under contract in unit SASLMECH: Ok only after an outcome with code OK, for SCRAM only after the server signature was verified) is a stand-in that marks the transport `client_sasl_ok` exactly when it returns Ok; connect_amqp_with_framed / connect_amqp_with_stream (unit BUILDER) are stand-ins; tokio::io::split yields the two bare halves of the stream
pub struct StreamS { pub g: Ghost<int> }
pub struct SpawnFn {}
pub struct ConnectionHandleC {}
pub struct ProfileS {}
pub mod tokio { pub mod io {
    use super::super::*;
    #[verifier::external_body]
    pub fn split(stream: StreamS) -> (r: (IoHalf, IoHalf)) { unimplemented!() }
} }
pub struct ClientBuilder { pub sasl_profile: Option<ProfileS> }
impl ClientBuilder {
    #[verifier::external_body]
    pub fn negotiate_sasl(&mut self, transport: &mut SaslTransport, profile: ProfileS) -> (r: Result<(), OpenError>)
        ensures final(transport).client_sasl_ok@ == (r is Ok),
    { unimplemented!() }
    #[verifier::external_body]
    pub fn connect_amqp_with_framed(self, framed_write: FramedW, framed_read: FramedR, spawn_engine_fn: SpawnFn) -> (r: Result<ConnectionHandleC, OpenError>)
        requires
            framed_read.client_sasl_ok@,                   // [C19.client.no-amqp-exchange-unless-sasl-succeeded] a client configured with a SASL profile goes on to the AMQP header exchange only after its negotiation returned Ok (outcome OK; for SCRAM the server's signature verified): a failed, refused or aborted negotiation ends the connection attempt
            framed_read.unread@ == framed_read.received@,  // [C06.client.pipelined-octets-survive-the-sasl-layer] octets the server sent right behind its sasl-outcome (its AMQP header) and that were read together with it are still in the read buffer
    { unimplemented!() }
    #[verifier::external_body]
    pub fn connect_amqp_with_stream(self, stream: StreamS, spawn_engine_fn: SpawnFn) -> (r: Result<ConnectionHandleC, OpenError>) { unimplemented!() }

//@@ fn file=fe2o3-amqp/src/connection/builder.rs impl=`impl<Tls> Builder<'_, mode::ConnectorWithId, Tls>` name=connect_with_stream
//@@ generics
//@@ nowhere
//@@ ret Result<ConnectionHandleC, OpenError>
//@@ subst `(mut self,` => `(mut this: ClientBuilder,` rule=R2
//@@ subst `self.` => `this.` rule=R2
//@@ param stream : StreamS
//@@ param spawn_engine_fn : SpawnFn
//@@ subst `Transport::negotiate_sasl_header(framed_write, framed_read)` => `SaslTransport::negotiate_sasl_header(framed_write, framed_read)` rule=R9
//@@ subst `|_v0|` => `|_v0: LengthDelimited|` rule=optional-R5
//@@ subst `|_v1|` => `|_v1: LengthDelimited|` rule=optional-R5
//@@ spec
    ensures true,
//@@ end
}

} // verus!
fn main() {}
