//@@ unit CONNENG
//@@ gsubst `definitions::Error` => `AmqpError` rule=R11
//@@ gsubst `transport::Error` => `TransportError` rule=R11
#![feature(allocator_api)]
#![allow(unused_imports, unused_variables, dead_code, unused_mut, unused_parens)]
use vstd::prelude::*;

verus! {

//@@ include common.rs
//@@ trusted the connection endpoint C (endpoint::Connection) is a stand-in whose method contracts are those proved in unit CONN for the real Connection (on_incoming_open / on_incoming_close / send_close state tables); session relays are opaque
//@@ trusted Transport<Io, Frame> as a Sink = ghost trace of frames written + a counter of failed writes (R9); mpsc::Receiver<SessionFrame> = ghost queue (close(); recv() yields the queued frames in order, None exactly when empty)
//@@ trusted HeartBeat stand-in: new(period) REQUIRES a non-zero period (tokio::time::interval panics on zero); Duration::from_millis is exact
//@@ trusted leaf stand-ins: performatives other than Open/Close, Payload, AmqpError, TransportError, ConnectionControl receiver opaque

pub type Milliseconds = u32;
macro_rules! opaque {
    ($($n:ident),*) => { verus!{ $(
        #[verifier::external_body]
        pub struct $n { _p: u8 }
        impl Clone for $n { #[verifier::external_body] fn clone(&self) -> (r: Self) ensures r == *self { unimplemented!() } }
    )* } }
}
opaque!(Attach, Flow, Transfer, Disposition, Detach, Begin, End, Payload, AmqpError, TransportError, ConnCtlRx, OpenRest);
#[derive(Clone, Copy, PartialEq, Eq)]
pub struct IncomingChannel(pub u16);
#[derive(Clone, Copy, PartialEq, Eq)]
pub struct OutgoingChannel(pub u16);

/// Open: only idle-time-out is read by the engine; everything else is one opaque field (R11)
pub struct Open { pub idle_time_out: Option<Milliseconds>, pub rest: OpenRest }

//@@ type file=fe2o3-amqp-types/src/states.rs kind=enum name=ConnectionState clone
//@@ end
//@@ type file=fe2o3-amqp-types/src/performatives/close.rs kind=struct name=Close
//@@ subst `Option<Error>` => `Option<AmqpError>` rule=optional
//@@ end
//@@ type file=fe2o3-amqp/src/frames/amqp.rs kind=struct name=Frame
//@@ end
//@@ type file=fe2o3-amqp/src/frames/amqp.rs kind=enum name=FrameBody
//@@ end
//@@ type file=fe2o3-amqp/src/session/frame.rs kind=struct name=SessionFrame
//@@ end
//@@ type file=fe2o3-amqp/src/session/frame.rs kind=enum name=SessionFrameBody
//@@ end
//@@ type file=fe2o3-amqp/src/connection/error.rs kind=enum name=ConnectionStateError
//@@ end
//@@ type file=fe2o3-amqp/src/connection/error.rs kind=enum name=ConnectionInnerError
//@@ end
//@@ type file=fe2o3-amqp/src/util/mod.rs kind=enum name=Running
//@@ end
pub type CloseError = ConnectionStateError;

impl From<TransportError> for ConnectionInnerError {
    #[verifier::external_body]
    fn from(e: TransportError) -> Self { unimplemented!() }
}
impl From<ConnectionStateError> for ConnectionInnerError {
    #[verifier::external_body]
    fn from(e: ConnectionStateError) -> Self { unimplemented!() }
}
pub uninterp spec fn state_err_to_inner(e: ConnectionStateError) -> ConnectionInnerError;
#[verifier::external_body]
pub fn state_err_into(e: ConnectionStateError) -> (r: ConnectionInnerError) ensures r == state_err_to_inner(e) { unimplemented!() }

impl Frame {
    pub fn new(channel: u16, body: FrameBody) -> (r: Self) ensures r.channel == channel, r.body == body { Frame { channel, body } }
    pub fn empty() -> (r: Self) ensures r == (Frame { channel: 0, body: FrameBody::Empty }) { Frame { channel: 0, body: FrameBody::Empty } }
}
impl SessionFrame {
    pub fn new(channel: u16, body: SessionFrameBody) -> (r: Self) ensures r.channel == channel, r.body == body { SessionFrame { channel, body } }
}

pub struct Duration { pub ms: u64 }
impl Duration {
    pub fn from_millis(ms: u64) -> (r: Self) ensures r.ms == ms { Duration { ms } }
}
pub struct HeartBeat { pub period_ms: Option<u64>, pub resets: Ghost<nat> }
impl HeartBeat {
    pub fn never() -> (r: Self) ensures r.period_ms is None, r.resets@ == 0 { HeartBeat { period_ms: None, resets: Ghost(0) } }
    pub fn new(period: Duration) -> (r: Self)
        requires period.ms > 0,      // tokio::time::interval(period) panics when period is zero
        ensures r.period_ms == Some(period.ms), r.resets@ == 0,
    { HeartBeat { period_ms: Some(period.ms), resets: Ghost(0) } }
    /// not present in the repository today; modelled so that a change which postpones the heartbeat is decided rather than undecided
    pub fn reset(&mut self) ensures final(self).period_ms == old(self).period_ms, final(self).resets@ == old(self).resets@ + 1 {
        proof { self.resets@ = self.resets@ + 1; }
    }
}

pub struct TransportS { pub sent: Ghost<Seq<Frame>>, pub failures: Ghost<nat> }
impl TransportS {
    #[verifier::external_body]
    pub fn send(&mut self, f: Frame) -> (r: Result<(), TransportError>)
        ensures
            r is Ok ==> final(self).sent@ == old(self).sent@.push(f) && final(self).failures@ == old(self).failures@,
            r is Err ==> final(self).sent@ == old(self).sent@ && final(self).failures@ == old(self).failures@ + 1,
    { unimplemented!() }
}
pub struct ChanReceiver<T> { pub queue: Ghost<Seq<T>>, pub closed: Ghost<bool> }
impl<T> ChanReceiver<T> {
    #[verifier::external_body]
    pub fn close(&mut self) ensures final(self).queue@ == old(self).queue@, final(self).closed@ { unimplemented!() }
    #[verifier::external_body]
    pub fn recv(&mut self) -> (r: Option<T>)
        requires old(self).closed@,
        ensures
            final(self).closed@,
            match r {
                Some(x) => old(self).queue@.len() > 0 && x == old(self).queue@[0] && final(self).queue@ == old(self).queue@.skip(1),
                None => old(self).queue@.len() == 0 && final(self).queue@ == old(self).queue@,
            },
    { unimplemented!() }
}
#[verifier::external_body]
pub struct SessTx { _p: u8 }
impl SessTx {
    #[verifier::external_body]
    pub fn send(&self, f: SessionFrame) -> (r: Result<(), TransportError>) { unimplemented!() }
}

pub open spec fn close_frame(error: Option<AmqpError>) -> Frame { Frame { channel: 0, body: FrameBody::Close(Close { error }) } }

/// the connection endpoint as the engine sees it
pub struct ConnS { pub st: ConnectionState, pub g: Ghost<int> }
impl ConnS {
    pub fn local_state(&self) -> (r: &ConnectionState) ensures *r == self.st { &self.st }
    /// [C12.open-received] / [C17.channel-max.agreed] of unit CONN
    #[verifier::external_body]
    pub fn on_incoming_open(&mut self, channel: IncomingChannel, open: Open) -> (r: Result<(), ConnectionStateError>)
        ensures match old(self).st {
            ConnectionState::HeaderExchange => r is Ok && final(self).st == ConnectionState::OpenReceived,
            ConnectionState::OpenSent => r is Ok && final(self).st == ConnectionState::Opened,
            ConnectionState::ClosePipe => r is Ok && final(self).st == ConnectionState::CloseSent,
            _ => r is Err && final(self).st == old(self).st,
        },
    { unimplemented!() }
    #[verifier::external_body]
    pub fn on_incoming_begin(&mut self, channel: IncomingChannel, begin: Begin) -> (r: Result<(), ConnectionInnerError>)
        ensures final(self).st == old(self).st,
    { unimplemented!() }
    #[verifier::external_body]
    pub fn on_incoming_end(&mut self, channel: IncomingChannel, end: End) -> (r: Result<(), ConnectionInnerError>)
        ensures final(self).st == old(self).st,
    { unimplemented!() }
    /// [C12.close-received] of unit CONN
    #[verifier::external_body]
    pub fn on_incoming_close(&mut self, channel: IncomingChannel, close: Close) -> (r: Result<(), ConnectionStateError>)
        ensures match old(self).st {
            ConnectionState::Opened | ConnectionState::OpenPipe | ConnectionState::OpenClosePipe | ConnectionState::OpenReceived | ConnectionState::OpenSent =>
                final(self).st == ConnectionState::CloseReceived
                && (match close.error { Some(e) => r == Err::<(), CloseError>(ConnectionStateError::RemoteClosedWithError(e)), None => r == Err::<(), CloseError>(ConnectionStateError::RemoteClosed) }),
            ConnectionState::CloseSent | ConnectionState::Discarding =>
                final(self).st == ConnectionState::End
                && (match close.error { Some(e) => r == Err::<(), CloseError>(ConnectionStateError::RemoteClosedWithError(e)), None => r is Ok }),
            _ => r == Err::<(), CloseError>(ConnectionStateError::IllegalState) && final(self).st == old(self).st,
        },
    { unimplemented!() }
    /// [C12.close-frame] / [C12.close-sent] of unit CONN
    #[verifier::external_body]
    pub fn send_close(&mut self, writer: &mut TransportS, error: Option<AmqpError>) -> (r: Result<(), ConnectionStateError>)
        ensures
            r is Ok ==> final(writer).sent@ == old(writer).sent@.push(close_frame(error)) && final(writer).failures@ == old(writer).failures@,
            r is Ok ==> (match old(self).st {
                ConnectionState::Opened => final(self).st == (if error is Some { ConnectionState::Discarding } else { ConnectionState::CloseSent }),
                ConnectionState::CloseReceived => final(self).st == ConnectionState::End,
                ConnectionState::OpenSent => final(self).st == (if error is Some { ConnectionState::Discarding } else { ConnectionState::ClosePipe }),
                ConnectionState::OpenPipe => final(self).st == (if error is Some { ConnectionState::Discarding } else { ConnectionState::OpenClosePipe }),
                _ => false,
            }),
            r is Err ==> final(self).st == old(self).st,
            final(writer).failures@ >= old(writer).failures@,
            final(writer).sent@.len() >= old(writer).sent@.len() && final(writer).sent@.take(old(writer).sent@.len() as int) =~= old(writer).sent@,
            // with the connection in CloseReceived the only way to fail is the transport
            old(self).st is CloseReceived && r is Err ==> final(writer).failures@ > old(writer).failures@,
            old(self).st is CloseReceived && r is Err ==> final(writer).sent@ == old(writer).sent@,
    { unimplemented!() }
    #[verifier::external_body]
    pub fn on_outgoing_begin(&mut self, channel: OutgoingChannel, begin: Begin) -> (r: Result<Frame, ConnectionInnerError>)
        ensures final(self).st == old(self).st, r == Ok::<Frame, ConnectionInnerError>(Frame { channel: channel.0, body: FrameBody::Begin(begin) }),
    { unimplemented!() }
    #[verifier::external_body]
    pub fn on_outgoing_end(&mut self, channel: OutgoingChannel, end: End) -> (r: Result<Frame, ConnectionInnerError>)
        ensures final(self).st == old(self).st, r == Ok::<Frame, ConnectionInnerError>(Frame { channel: channel.0, body: FrameBody::End(end) }),
    { unimplemented!() }
    #[verifier::external_body]
    pub fn session_tx_by_incoming_channel(&mut self, ch: IncomingChannel) -> (r: Option<&SessTx>)
        ensures final(self).st == old(self).st,
    { unimplemented!() }
}

pub open spec fn no_close(s: Seq<Frame>) -> bool { forall|i: int| 0 <= i < s.len() ==> !((#[trigger] s[i]).body is Close) && !(s[i].body is Open) }
pub open spec fn extended_without_close(s0: Seq<Frame>, s1: Seq<Frame>) -> bool {
    s1.len() >= s0.len() && s1.take(s0.len() as int) =~= s0 && no_close(s1.skip(s0.len() as int))
}
pub proof fn lemma_extc_trans(a: Seq<Frame>, b: Seq<Frame>, c: Seq<Frame>)
    requires extended_without_close(a, b), extended_without_close(b, c),
    ensures extended_without_close(a, c),
{
    assert(c.take(a.len() as int) =~= a) by {
        assert(forall|i: int| 0 <= i < a.len() ==> c[i] == c.take(b.len() as int)[i]);
    }
    assert forall|i: int| 0 <= i < c.skip(a.len() as int).len() implies !((#[trigger] c.skip(a.len() as int)[i]).body is Close) && !(c.skip(a.len() as int)[i].body is Open) by {
        let k = i + a.len();
        if k < b.len() {
            assert(c[k] == c.take(b.len() as int)[k]);
            assert(b.skip(a.len() as int)[i] == b[k]);
        } else {
            assert(c.skip(b.len() as int)[k - b.len()] == c[k]);
        }
    }
}
/// body of the connection-level frame that carries a session frame
pub open spec fn lifted(b: SessionFrameBody) -> FrameBody {
    match b {
        SessionFrameBody::Begin(x) => FrameBody::Begin(x),
        SessionFrameBody::Attach(x) => FrameBody::Attach(x),
        SessionFrameBody::Flow(x) => FrameBody::Flow(x),
        SessionFrameBody::Transfer { performative, payload } => FrameBody::Transfer { performative, payload },
        SessionFrameBody::Disposition(x) => FrameBody::Disposition(x),
        SessionFrameBody::Detach(x) => FrameBody::Detach(x),
        SessionFrameBody::End(x) => FrameBody::End(x),
    }
}

//@@ type file=fe2o3-amqp/src/connection/engine.rs kind=struct name=ConnectionEngine
//@@ subst `ConnectionEngine<Io, C>` => `ConnectionEngine` rule=R7
//@@ subst `Transport<Io, amqp::Frame>` => `TransportS` rule=R9
//@@ subst `connection: C` => `connection: ConnS` rule=R7
//@@ subst `Receiver<ConnectionControl>` => `ConnCtlRx` rule=R9
//@@ subst `Receiver<SessionFrame>` => `ChanReceiver<SessionFrame>` rule=R9
//@@ end

impl ConnectionEngine {
//@@ fn file=fe2o3-amqp/src/connection/engine.rs impl=`~impl<Io,C>ConnectionEngine<Io,C>whereIo:AsyncRead+AsyncWrite+std::fmt::Debug+SendBound+Unpin+'static,C:endpoint::Connection<State=ConnectionState>` name=on_heartbeat
//@@ spec
    ensures
        final(self).connection == old(self).connection && final(self).outgoing_session_frames == old(self).outgoing_session_frames,
        (old(self).connection.st is CloseSent || old(self).connection.st is Discarding || old(self).connection.st is ClosePipe
            || old(self).connection.st is OpenClosePipe || old(self).connection.st is End || old(self).connection.st is Start)
            ==> final(self).transport.sent@ == old(self).transport.sent@ && r is Ok,                                     // [C12.no-heartbeat-after-close] once the local Close has been sent (or before the header) no empty frame is written
        !(old(self).connection.st is CloseSent || old(self).connection.st is Discarding || old(self).connection.st is ClosePipe
            || old(self).connection.st is OpenClosePipe || old(self).connection.st is End || old(self).connection.st is Start)
            && r is Ok ==> final(self).transport.sent@ == old(self).transport.sent@.push(Frame { channel: 0, body: FrameBody::Empty }),   // [C17.heartbeat.empty-frame] a heartbeat tick writes exactly one empty frame on channel 0
        old(self).connection.st is End ==> r == Ok::<Running, ConnectionInnerError>(Running::Stop),
//@@ end

//@@ fn file=fe2o3-amqp/src/connection/engine.rs impl=`~impl<Io,C>ConnectionEngine<Io,C>whereIo:AsyncRead+AsyncWrite+std::fmt::Debug+SendBound+Unpin+'static,C:endpoint::Connection<State=ConnectionState>` name=on_outgoing_session_frames
//@@ subst `Frame::new(channel, ` => `Frame::new(channel.0, ` rule=R16
//@@ spec
    ensures
        final(self).connection.st == old(self).connection.st && final(self).outgoing_session_frames == old(self).outgoing_session_frames,
        final(self).heartbeat.period_ms == old(self).heartbeat.period_ms,
        !(old(self).connection.st is Opened || old(self).connection.st is CloseReceived) ==> r is Err && final(self).transport.sent@ == old(self).transport.sent@
            && final(self).transport.failures@ == old(self).transport.failures@,                                          // [C12.no-session-frame-outside-open] before the open exchange completes and after the local Close no session frame is written
        r is Ok ==> final(self).transport.sent@ == old(self).transport.sent@.push(Frame { channel: frame.channel, body: lifted(frame.body) }),   // [C06.engine.lift] the session frame goes out on its own channel with its performative (and payload) unchanged [C01.engine.lift] [C11.engine.channel]
        r is Err ==> final(self).transport.sent@ == old(self).transport.sent@,
        final(self).transport.failures@ >= old(self).transport.failures@,
        (old(self).connection.st is Opened || old(self).connection.st is CloseReceived) && r is Err ==> final(self).transport.failures@ > old(self).transport.failures@,   // [C12.flush-cannot-fail-by-state]
        extended_without_close(old(self).transport.sent@, final(self).transport.sent@),
//@@ end

//@@ fn file=fe2o3-amqp/src/connection/engine.rs impl=`~impl<Io,C>ConnectionEngine<Io,C>whereIo:AsyncRead+AsyncWrite+std::fmt::Debug+SendBound+Unpin+'static,C:endpoint::Connection<State=ConnectionState>` name=forward_to_session
//@@ spec
    ensures
        !(old(self).connection.st is Opened) ==> r is Err,                                                              // [C12.session-frame-only-when-opened] a session-level frame from the peer outside the Opened state is an error (closes the connection), it is not forwarded
        final(self).connection.st == old(self).connection.st && final(self).transport == old(self).transport
            && final(self).outgoing_session_frames == old(self).outgoing_session_frames && final(self).heartbeat == old(self).heartbeat,
//@@ end

//@@ fn file=fe2o3-amqp/src/connection/engine.rs impl=`~impl<Io,C>ConnectionEngine<Io,C>whereIo:AsyncRead+AsyncWrite+std::fmt::Debug+SendBound+Unpin+'static,C:endpoint::Connection<State=ConnectionState>` name=on_incoming
//@@ attr #[verifier::loop_isolation(false)]
//@@ subst `result?;` => `match result { Ok(v) => v, Err(e) => return Err(state_err_into(e)) };` rule=R24
//@@ subst `SessionFrame::new(channel, ` => `SessionFrame::new(channel.0, ` rule=R16
//@@ spec
    ensures
        old(self).connection.st is Discarding && !(frame.body is Close) ==>
            r == Ok::<Running, ConnectionInnerError>(Running::Continue) && *final(self) == *old(self),                  // [C12.discarding.ignore] after closing with an error everything but the peer's Close is ignored: no state change, nothing sent, nothing forwarded
        // peer-initiated close, transport still there
        frame.body is Close && (old(self).connection.st is Opened || old(self).connection.st is OpenPipe || old(self).connection.st is OpenClosePipe
            || old(self).connection.st is OpenReceived || old(self).connection.st is OpenSent)
            && final(self).transport.failures@ == old(self).transport.failures@ ==> ({
            let s0 = old(self).transport.sent@;
            let s1 = final(self).transport.sent@;
            &&& final(self).connection.st is End
            &&& s1.len() > s0.len() && s1.last() == close_frame(None)                                                   // [C12.peer-close-answered] a close from the peer is always answered with a close ...
            &&& extended_without_close(s0, s1.drop_last())                                                              // [C12.flush-before-close] ... after the frames already queued by the sessions have been flushed; exactly one Close, and it is the last frame written
            &&& final(self).outgoing_session_frames.queue@.len() == 0
            &&& r == Err::<Running, ConnectionInnerError>(state_err_to_inner(match frame.body->Close_0.error { Some(e) => ConnectionStateError::RemoteClosedWithError(e), None => ConnectionStateError::RemoteClosed }))   // [C12.peer-close-error] the peer's error (or RemoteClosed) is what is reported
        }),
        frame.body is Close && (old(self).connection.st is CloseSent || old(self).connection.st is Discarding) ==>
            final(self).connection.st is End && final(self).transport.sent@ == old(self).transport.sent@
            && (frame.body->Close_0.error is None ==> r == Ok::<Running, ConnectionInnerError>(Running::Stop)),         // [C12.close-completed] the peer's answer to our close ends the connection: nothing more is written
        !(frame.body is Open) && !(frame.body is Close) ==> final(self).heartbeat == old(self).heartbeat,                                         // [C17.heartbeat.not-postponed-by-incoming] receiving frames never re-arms or postpones the heartbeat: the peer's idle time-out is about what WE send
        frame.body is Open && r is Ok && !(old(self).connection.st is Discarding) ==> final(self).heartbeat.period_ms == (match frame.body->Open_0.idle_time_out { Some(ms) => if ms == 0 { None::<u64> } else { Some(ms as u64) }, None => None::<u64> }),   // [C17.heartbeat.from-peer-open] heartbeats are armed from the peer's idle-time-out; 0 or unset means none [C15.open.zero-idle-timeout] (and never a zero period, which would panic the timer)
//@@ entry
        let ghost mut smid: Seq<Frame> = Seq::empty();
//@@ loop 0
        invariant
            self.outgoing_session_frames.closed@,
            self.connection.st is CloseReceived,
            extended_without_close(old(self).transport.sent@, self.transport.sent@),
            self.transport.failures@ >= old(self).transport.failures@,
        decreases self.outgoing_session_frames.queue@.len(),
//@@ loopstart 0
                        let ghost sl = self.transport.sent@;
//@@ loopend 0
                        proof { lemma_extc_trans(old(self).transport.sent@, sl, self.transport.sent@); }
//@@ at `self.connection .send_close(&mut self.transport, None)` before
                    proof { smid = self.transport.sent@; }
//@@ at `match result { Ok(v) => v, Err(e) => return Err(state_err_into(e)) };` before
                proof {
                    let s1 = self.transport.sent@;
                    if s1 == smid.push(close_frame(None)) { assert(s1.drop_last() =~= smid); }
                }
//@@ end
}

} // verus!
fn main() {}
