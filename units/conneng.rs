//@@ unit CONNENG
//@@ gsubst `definitions::Error` => `AmqpError` rule=R11
//@@ gsubst `transport::Error` => `TransportError` rule=R11
//@@ gsubst `std::cmp::min` => `cmp_min` rule=R9
#![feature(allocator_api)]
#![allow(unused_imports, unused_variables, dead_code, unused_mut, unused_parens)]
use vstd::prelude::*;

verus! {
/// std::cmp::min on the integers the engine compares (Verus has no specification for the generic one)
pub fn cmp_min(a: usize, b: usize) -> (r: usize) ensures r == (if a <= b { a } else { b }) { if a <= b { a } else { b } }

//@@ include common.rs
//@@ trusted the connection endpoint C (endpoint::Connection) is a stand-in whose method contracts are those proved in unit CONN for the real Connection (on_incoming_open / on_incoming_close / send_close state tables); session relays are opaque
//@@ trusted Transport<Io, Frame> as a Sink = ghost trace of frames written + a counter of failed writes (R9); mpsc::Receiver<SessionFrame> = ghost queue (close(); recv() yields the queued frames in order, None exactly when empty)
//@@ trusted HeartBeat stand-in: new(period) REQUIRES a non-zero period (tokio::time::interval panics on zero); Duration::from_millis is exact
//@@ trusted leaf stand-ins: performatives other than Open/Close, Payload, AmqpError, TransportError, ConnectionControl receiver opaque

pub type Milliseconds = u32;
macro_rules! opaque {
    ($($n:ident),*) => { verus!{ $(
        #[verifier::external_body]
        pub struct $n { _p: u8 }
        impl Clone for $n { #[verifier::external_body] fn clone(&self) -> (r: Self) ensures r == *self { unimplemented!() } }
    )* } }
}
opaque!(Attach, Flow, Transfer, Disposition, Detach, Begin, End, Payload, AmqpError, TransportError, ConnCtlRx, OpenRest);
// bytes::Bytes as far as these functions may look at it: its length (R11)
impl Payload {
    pub uninterp spec fn spec_len(&self) -> nat;
    #[verifier::external_body]
    pub fn len(&self) -> (r: usize) ensures r == self.spec_len() { unimplemented!() }
    #[verifier::external_body]
    pub fn is_empty(&self) -> (r: bool) ensures r == (self.spec_len() == 0) { unimplemented!() }
}
#[derive(Clone, Copy, PartialEq, Eq)]
pub struct IncomingChannel(pub u16);
#[derive(Clone, Copy, PartialEq, Eq)]
pub struct OutgoingChannel(pub u16);

/// Open: only idle-time-out is read by the engine; everything else is one opaque field (R11)
pub struct MaxFrameSize(pub u32);
pub struct Open { pub idle_time_out: Option<Milliseconds>, pub max_frame_size: MaxFrameSize, pub rest: OpenRest }

//@@ type file=fe2o3-amqp-types/src/states.rs kind=enum name=ConnectionState clone
//@@ end
//@@ type file=fe2o3-amqp-types/src/performatives/close.rs kind=struct name=Close
//@@ subst `Option<Error>` => `Option<AmqpError>` rule=optional
//@@ end
//@@ type file=fe2o3-amqp/src/frames/amqp.rs kind=struct name=Frame
//@@ end
//@@ type file=fe2o3-amqp/src/frames/amqp.rs kind=enum name=FrameBody
//@@ end
//@@ type file=fe2o3-amqp/src/session/frame.rs kind=struct name=SessionFrame
//@@ end
//@@ type file=fe2o3-amqp/src/session/frame.rs kind=enum name=SessionFrameBody
//@@ end
//@@ type file=fe2o3-amqp/src/connection/error.rs kind=enum name=ConnectionStateError
//@@ end
//@@ type file=fe2o3-amqp/src/connection/error.rs kind=enum name=ConnectionInnerError
//@@ end
//@@ type file=fe2o3-amqp/src/util/mod.rs kind=enum name=Running
//@@ end
pub type CloseError = ConnectionStateError;

impl From<TransportError> for ConnectionInnerError {
    #[verifier::external_body]
    fn from(e: TransportError) -> Self { unimplemented!() }
}
impl From<ConnectionStateError> for ConnectionInnerError {
    #[verifier::external_body]
    fn from(e: ConnectionStateError) -> Self { unimplemented!() }
}
pub uninterp spec fn state_err_to_inner(e: ConnectionStateError) -> ConnectionInnerError;
#[verifier::external_body]
pub fn state_err_into(e: ConnectionStateError) -> (r: ConnectionInnerError) ensures r == state_err_to_inner(e) { unimplemented!() }


pub trait ErrInto<T>: Sized { spec fn conv(self) -> T; fn err_into(self) -> (r: T) ensures r == self.conv(); }
impl ErrInto<ConnectionInnerError> for ConnectionInnerError { open spec fn conv(self) -> ConnectionInnerError { self } fn err_into(self) -> (r: ConnectionInnerError) { let e = self; assert(e == <ConnectionInnerError as ErrInto<ConnectionInnerError>>::conv(self)); e } }
pub uninterp spec fn transport_err_to_inner(e: TransportError) -> ConnectionInnerError;
impl ErrInto<ConnectionInnerError> for TransportError { open spec fn conv(self) -> ConnectionInnerError { transport_err_to_inner(self) } #[verifier::external_body] fn err_into(self) -> (r: ConnectionInnerError) { unimplemented!() } }
impl ErrInto<ConnectionInnerError> for ConnectionStateError { open spec fn conv(self) -> ConnectionInnerError { state_err_to_inner(self) } fn err_into(self) -> (r: ConnectionInnerError) { state_err_into(self) } }

impl Frame {
//@@ fn file=fe2o3-amqp/src/frames/amqp.rs impl=`impl Frame` name=new id=Frame::new
//@@ param channel : u16
//@@ subst `channel.into()` => `channel` rule=optional-R7
//@@ subst `Self {` => `Frame {` rule=optional-R2
//@@ spec
    ensures r.channel == channel, r.body == body,       // (a frame is built for the channel and with the body given)
//@@ end
//@@ fn file=fe2o3-amqp/src/frames/amqp.rs impl=`impl Frame` name=empty id=Frame::empty
//@@ subst `Self {` => `Frame {` rule=optional-R2
//@@ spec
    ensures r == (Frame { channel: 0, body: FrameBody::Empty }),       // [C17.heartbeat.empty-frame-is-channel-0-without-body] the frame a heartbeat writes is the empty frame: channel 0, no performative, no payload (AMQP 2.4.5)
//@@ end
}
impl SessionFrame {
    pub fn new(channel: u16, body: SessionFrameBody) -> (r: Self) ensures r.channel == channel, r.body == body { SessionFrame { channel, body } }
}

pub struct Duration { pub ms: u64 }
impl Duration {
    pub fn from_millis(ms: u64) -> (r: Self) ensures r.ms == ms { Duration { ms } }
}
pub struct HeartBeat { pub period_ms: Option<u64>, pub resets: Ghost<nat> }
impl HeartBeat {
    pub fn never() -> (r: Self) ensures r.period_ms is None, r.resets@ == 0 { HeartBeat { period_ms: None, resets: Ghost(0) } }
    pub fn new(period: Duration) -> (r: Self)
        requires period.ms > 0,      // tokio::time::interval(period) panics when period is zero
        ensures r.period_ms == Some(period.ms), r.resets@ == 0,
    { HeartBeat { period_ms: Some(period.ms), resets: Ghost(0) } }
    /// not present in the repository today; modelled so that a change which postpones the heartbeat is decided rather than undecided
    pub fn reset(&mut self) ensures final(self).period_ms == old(self).period_ms, final(self).resets@ == old(self).resets@ + 1 {
        proof { self.resets@ = self.resets@ + 1; }
    }
}

pub struct TransportS { pub sent: Ghost<Seq<Frame>>, pub failures: Ghost<nat>, pub enc_max: Ghost<int>, pub dec_max: Ghost<int>, pub recv: Ghost<Seq<Frame>> }
impl TransportS {
    #[verifier::external_body]
    pub fn send(&mut self, f: Frame) -> (r: Result<(), TransportError>)
        ensures
            r is Ok ==> final(self).sent@ == old(self).sent@.push(f) && final(self).failures@ == old(self).failures@,
            r is Err ==> final(self).sent@ == old(self).sent@ && final(self).failures@ == old(self).failures@ + 1,
    { unimplemented!() }
}
impl TransportS {
    /// Stream::next on the transport: the peer is unconstrained (any frame, a decoding error, end of stream); reading writes nothing
    #[verifier::external_body]
    pub fn next(&mut self) -> (r: Option<Result<Frame, TransportError>>)
        ensures final(self).sent@ == old(self).sent@ && final(self).failures@ == old(self).failures@ && final(self).enc_max == old(self).enc_max && final(self).dec_max == old(self).dec_max,
            (match r { Some(Ok(f)) => final(self).recv@ == old(self).recv@.push(f), _ => final(self).recv@ == old(self).recv@ }),
    { unimplemented!() }
    #[verifier::external_body]
    pub fn encoder_max_frame_size(&self) -> (r: usize) { unimplemented!() }
}
/// ConnectionControl (control.rs) with channel ends as stand-ins
pub enum ConnectionControl {
    Close(Option<AmqpError>),
    AllocateSession { tx: SessTxOwned, responder: AllocResponder },
    DeallocateSession(OutgoingChannel),
    GetMaxFrameSize(SizeResponder),
}
opaque!(SessTxOwned, AllocSessionError, ConnAllocError);
//@@ type file=fe2o3-amqp/src/connection/mod.rs kind=enum name=ConnectionStopReason
//@@ end
#[verifier::external_body]
pub fn amqp_error_of(which: u8, description: Option<String>) -> (r: AmqpError) { unimplemented!() }
pub struct AllocResponder { pub g: Ghost<int> }
impl AllocResponder {
    #[verifier::external_body]
    pub fn send(self, r: Result<OutgoingChannel, AllocSessionError>) -> (o: Result<(), Result<OutgoingChannel, AllocSessionError>>) { unimplemented!() }
}
pub struct SizeResponder { pub g: Ghost<int> }
impl SizeResponder {
    #[verifier::external_body]
    pub fn send(self, r: usize) -> (o: Result<(), usize>) { unimplemented!() }
}
#[verifier::external_body]
pub fn alloc_err_into(e: ConnAllocError) -> (r: AllocSessionError) { unimplemented!() }
pub fn stop_reason_closed_with_error(e: AmqpError) -> (r: ConnectionStopReason) ensures r == ConnectionStopReason::ClosedWithError(e) { ConnectionStopReason::ClosedWithError(e) }
#[verifier::external_body]
pub fn eof_transport_error() -> (r: TransportError) { unimplemented!() }
impl ConnS {
    #[verifier::external_body]
    pub fn set_connection_stop_reason(&mut self, reason: ConnectionStopReason) ensures final(self).st == old(self).st, final(self).local_open == old(self).local_open, final(self).stop_set@ == Some(reason) { unimplemented!() }
    #[verifier::external_body]
    pub fn allocate_session(&mut self, tx: SessTxOwned) -> (r: Result<OutgoingChannel, ConnAllocError>) ensures final(self).st == old(self).st { unimplemented!() }
    #[verifier::external_body]
    pub fn deallocate_session(&mut self, ch: OutgoingChannel) ensures final(self).st == old(self).st { unimplemented!() }
}

/// connection::Error (connection/error.rs; the JoinError variant is elided, R11) and `impl From<ConnectionInnerError> for Error` (variant-wise)
pub enum Error { TransportError(TransportError), IllegalState, NotImplemented(Option<String>), NotFound(Option<String>), NotAllowed(Option<String>), RemoteClosed, RemoteClosedWithError(AmqpError) }
pub open spec fn inner_to_error(e: ConnectionInnerError) -> Error {
    match e {
        ConnectionInnerError::TransportError(v) => Error::TransportError(v), ConnectionInnerError::IllegalState => Error::IllegalState,
        ConnectionInnerError::NotImplemented(v) => Error::NotImplemented(v), ConnectionInnerError::NotFound(v) => Error::NotFound(v),
        ConnectionInnerError::RemoteClosed => Error::RemoteClosed, ConnectionInnerError::RemoteClosedWithError(v) => Error::RemoteClosedWithError(v),
    }
}
pub fn inner_into_error(e: ConnectionInnerError) -> (r: Error) ensures r == inner_to_error(e) {
    match e {
        ConnectionInnerError::TransportError(v) => Error::TransportError(v), ConnectionInnerError::IllegalState => Error::IllegalState,
        ConnectionInnerError::NotImplemented(v) => Error::NotImplemented(v), ConnectionInnerError::NotFound(v) => Error::NotFound(v),
        ConnectionInnerError::RemoteClosed => Error::RemoteClosed, ConnectionInnerError::RemoteClosedWithError(v) => Error::RemoteClosedWithError(v),
    }
}
impl TransportS {
    /// SinkExt::close on the transport: flush + shut the byte stream down; it may fail (a TCP socket whose peer has gone reports ENOTCONN)
    #[verifier::external_body]
    pub fn close(&mut self) -> (r: Result<(), TransportError>) ensures final(self).sent == old(self).sent { unimplemented!() }
}
/// the oneshot the ConnectionHandle reads its result from (`on_close` / `close`). `owes_ok` (ghost): the close handshake completed cleanly
pub struct OutcomeTx { pub owes_ok: Ghost<bool>, pub owes_peer_error: Ghost<Option<AmqpError>> }
impl OutcomeTx {
    #[verifier::external_body]
    pub fn send(self, r: Result<(), Error>) -> (o: Result<(), Result<(), Error>>)
        requires
            self.owes_ok@ ==> r is Ok,                                                                                  // [C12.result.clean-close-reported-clean] a close handshake that completed without an error on either side is reported as Ok -- whatever happens when the byte stream is shut down afterwards
            self.owes_peer_error@ is Some ==> r == Err::<(), Error>(Error::RemoteClosedWithError(self.owes_peer_error@->Some_0)),   // [C12.result.peer-error-reported] [C14.handle.reports-peer-error] the error the peer closed with is what the handle reports
    { unimplemented!() }
}
impl ConnCtlRx {
    /// `self.control.close()` at the end of the event loop: from here on every handle operation fails on the closed channel and reads the stop reason
    #[verifier::external_body]
    pub fn close_published(&mut self, Ghost(published): Ghost<bool>)
        requires published,      // [C14.stop-reason.published-before-channels-close] the reason why the connection stopped is published BEFORE the channels are closed: a session or handle that wakes up on the closed channel reads the cell at once, and must not find it empty (it would report a plain Closed / IllegalState instead of the peer's error or the transport failure)
    { unimplemented!() }
}
impl<T> ChanReceiver<T> {
    #[verifier::external_body]
    pub fn close_published(&mut self, Ghost(published): Ghost<bool>)
        requires published,      // [C14.stop-reason.published-before-channels-close]
        ensures final(self).queue@ == old(self).queue@, final(self).closed@,
    { unimplemented!() }
}
/// Result::and (std)
pub assume_specification<T, E, U>[ Result::<T, E>::and ](r: Result<T, E>, o: Result<U, E>) -> (x: Result<U, E>)
    ensures x == (match r { Ok(_) => o, Err(e) => Err::<U, E>(e) });

/// OpenError with the variants open_inner produces (R11)
pub enum OpenError { Io(IoErr), IllegalState, NotImplemented(Option<String>), RemoteClosed, RemoteClosedWithError(AmqpError), TransportError(TransportError), Other }
opaque!(IoErr);
#[verifier::external_body]
pub fn eof_io_error() -> (r: IoErr) { unimplemented!() }
impl ErrInto<OpenError> for OpenError { open spec fn conv(self) -> OpenError { self } fn err_into(self) -> (r: OpenError) { let e = self; assert(e == <OpenError as ErrInto<OpenError>>::conv(self)); e } }
impl ErrInto<OpenError> for TransportError { open spec fn conv(self) -> OpenError { OpenError::TransportError(self) } fn err_into(self) -> (r: OpenError) { OpenError::TransportError(self) } }
impl ErrInto<OpenError> for ConnectionStateError {
    open spec fn conv(self) -> OpenError { match self { ConnectionStateError::IllegalState => OpenError::IllegalState, ConnectionStateError::RemoteClosed => OpenError::RemoteClosed,
        ConnectionStateError::RemoteClosedWithError(v) => OpenError::RemoteClosedWithError(v), ConnectionStateError::TransportError(v) => OpenError::TransportError(v) } }
    fn err_into(self) -> (r: OpenError) { match self { ConnectionStateError::IllegalState => OpenError::IllegalState, ConnectionStateError::RemoteClosed => OpenError::RemoteClosed,
        ConnectionStateError::RemoteClosedWithError(v) => OpenError::RemoteClosedWithError(v), ConnectionStateError::TransportError(v) => OpenError::TransportError(v) } }
}
impl TransportS {
    /// set_encoder_max_frame_size / set_decoder_max_frame_size: recorded (the real ones clamp to MIN-MAX-FRAME-SIZE, unit TRANSPORT's precondition)
    #[verifier::external_body]
    pub fn set_encoder_max_frame_size(&mut self, n: usize) -> (r: &mut TransportS)
        ensures *r == (TransportS { enc_max: Ghost(n as int), ..*old(self) }), *final(self) == *final(r),
    { unimplemented!() }
    #[verifier::external_body]
    pub fn set_decoder_max_frame_size(&mut self, n: usize) -> (r: &mut TransportS)
        ensures *r == (TransportS { dec_max: Ghost(n as int), ..*old(self) }), *final(self) == *final(r),
    { unimplemented!() }
}
impl ConnS {
    #[verifier::external_body]
    pub fn local_open(&self) -> (r: &Open) ensures *r == self.local_open { unimplemented!() }
    /// [C12.open-frame] / [C12.open-sent] of unit CONN
    #[verifier::external_body]
    pub fn send_open(&mut self, writer: &mut TransportS) -> (r: Result<(), ConnectionStateError>)
        ensures
            r is Err ==> !(r->Err_0 is RemoteClosed) && !(r->Err_0 is RemoteClosedWithError) && final(self).st == old(self).st,   // [C12.local-failure-is-not-a-remote-close] of unit CONN
            final(self).local_open == old(self).local_open,
            r is Ok ==> final(writer).sent@ == old(writer).sent@.push(Frame { channel: 0, body: FrameBody::Open(old(self).local_open) }) && final(writer).failures@ == old(writer).failures@,
            r is Ok ==> (match old(self).st {
                ConnectionState::HeaderExchange => final(self).st == ConnectionState::OpenSent,
                ConnectionState::OpenReceived => final(self).st == ConnectionState::Opened,
                ConnectionState::HeaderSent => final(self).st == ConnectionState::OpenPipe,
                _ => false,
            }),
            final(writer).enc_max == old(writer).enc_max && final(writer).dec_max == old(writer).dec_max && final(writer).recv == old(writer).recv,
            final(writer).sent@ == old(writer).sent@ || final(writer).sent@ == old(writer).sent@.push(Frame { channel: 0, body: FrameBody::Open(old(self).local_open) }),
    { unimplemented!() }
}
pub struct ChanReceiver<T> { pub queue: Ghost<Seq<T>>, pub closed: Ghost<bool> }
impl<T> ChanReceiver<T> {
    #[verifier::external_body]
    pub fn close(&mut self) ensures final(self).queue@ == old(self).queue@, final(self).closed@ { unimplemented!() }
    #[verifier::external_body]
    pub fn recv(&mut self) -> (r: Option<T>)
        requires old(self).closed@,
        ensures
            final(self).closed@,
            match r {
                Some(x) => old(self).queue@.len() > 0 && x == old(self).queue@[0] && final(self).queue@ == old(self).queue@.skip(1),
                None => old(self).queue@.len() == 0 && final(self).queue@ == old(self).queue@,
            },
    { unimplemented!() }
}
#[verifier::external_body]
pub struct SessTx { _p: u8 }
impl SessTx {
    #[verifier::external_body]
    pub fn send(&self, f: SessionFrame) -> (r: Result<(), TransportError>) { unimplemented!() }
}

pub open spec fn close_frame(error: Option<AmqpError>) -> Frame { Frame { channel: 0, body: FrameBody::Close(Close { error }) } }

/// the connection endpoint as the engine sees it
/// `stop_set` (ghost): the stop reason the engine asked to publish last (the cell itself is write-once: Connection::set_connection_stop_reason, unit CONN)
pub struct ConnS { pub st: ConnectionState, pub local_open: Open, pub g: Ghost<int>, pub stop_set: Ghost<Option<ConnectionStopReason>> }
impl ConnS {
    pub fn local_state(&self) -> (r: &ConnectionState) ensures *r == self.st { &self.st }
    /// [C12.open-received] / [C17.channel-max.agreed] of unit CONN
    #[verifier::external_body]
    pub fn on_incoming_open(&mut self, channel: IncomingChannel, open: Open) -> (r: Result<(), ConnectionStateError>)
        ensures final(self).local_open == old(self).local_open, r is Err ==> !(r->Err_0 is RemoteClosed) && !(r->Err_0 is RemoteClosedWithError), match old(self).st {
            ConnectionState::HeaderExchange => r is Ok && final(self).st == ConnectionState::OpenReceived,
            ConnectionState::OpenSent => r is Ok && final(self).st == ConnectionState::Opened,
            ConnectionState::ClosePipe => r is Ok && final(self).st == ConnectionState::CloseSent,
            _ => r is Err && final(self).st == old(self).st,
        },
    { unimplemented!() }
    #[verifier::external_body]
    pub fn on_incoming_begin(&mut self, channel: IncomingChannel, begin: Begin) -> (r: Result<(), ConnectionInnerError>)
        ensures final(self).st == old(self).st,
    { unimplemented!() }
    #[verifier::external_body]
    pub fn on_incoming_end(&mut self, channel: IncomingChannel, end: End) -> (r: Result<(), ConnectionInnerError>)
        ensures final(self).st == old(self).st,
    { unimplemented!() }
    /// [C12.close-received] of unit CONN
    #[verifier::external_body]
    pub fn on_incoming_close(&mut self, channel: IncomingChannel, close: Close) -> (r: Result<(), ConnectionStateError>)
        ensures match old(self).st {
            ConnectionState::Opened | ConnectionState::OpenPipe | ConnectionState::OpenClosePipe | ConnectionState::OpenReceived | ConnectionState::OpenSent =>
                final(self).st == ConnectionState::CloseReceived
                && (match close.error { Some(e) => r == Err::<(), CloseError>(ConnectionStateError::RemoteClosedWithError(e)), None => r == Err::<(), CloseError>(ConnectionStateError::RemoteClosed) }),
            ConnectionState::CloseSent | ConnectionState::Discarding =>
                final(self).st == ConnectionState::End
                && (match close.error { Some(e) => r == Err::<(), CloseError>(ConnectionStateError::RemoteClosedWithError(e)), None => r is Ok }),
            _ => r == Err::<(), CloseError>(ConnectionStateError::IllegalState) && final(self).st == old(self).st,
        },
    { unimplemented!() }
    /// [C12.close-frame] / [C12.close-sent] of unit CONN
    #[verifier::external_body]
    pub fn send_close(&mut self, writer: &mut TransportS, error: Option<AmqpError>) -> (r: Result<(), ConnectionStateError>)
        ensures
            r is Ok ==> final(writer).sent@ == old(writer).sent@.push(close_frame(error)) && final(writer).failures@ == old(writer).failures@,
            r is Ok ==> final(writer).sent@.drop_last() =~= old(writer).sent@ && final(writer).sent@.last() == close_frame(error) && final(writer).sent@.len() == old(writer).sent@.len() + 1,
            r is Ok ==> (match old(self).st {
                ConnectionState::Opened => final(self).st == (if error is Some { ConnectionState::Discarding } else { ConnectionState::CloseSent }),
                ConnectionState::CloseReceived => final(self).st == ConnectionState::End,
                ConnectionState::OpenSent => final(self).st == (if error is Some { ConnectionState::Discarding } else { ConnectionState::ClosePipe }),
                ConnectionState::OpenPipe => final(self).st == (if error is Some { ConnectionState::Discarding } else { ConnectionState::OpenClosePipe }),
                _ => false,
            }),
            r is Err ==> final(self).st == old(self).st,
            // [C12.close-at-most-once] of unit CONN
            !(old(self).st is Opened || old(self).st is CloseReceived || old(self).st is OpenSent || old(self).st is OpenPipe) ==> r is Err && final(writer).sent@ == old(writer).sent@,
            r is Err ==> final(writer).sent@ == old(writer).sent@,
            final(writer).failures@ >= old(writer).failures@,
            final(writer).sent@.len() >= old(writer).sent@.len() && final(writer).sent@.take(old(writer).sent@.len() as int) =~= old(writer).sent@,
            // with the connection in CloseReceived the only way to fail is the transport
            old(self).st is CloseReceived && r is Err ==> final(writer).failures@ > old(writer).failures@,
            old(self).st is CloseReceived && r is Err ==> final(writer).sent@ == old(writer).sent@,
    { unimplemented!() }
    #[verifier::external_body]
    pub fn on_outgoing_begin(&mut self, channel: OutgoingChannel, begin: Begin) -> (r: Result<Frame, ConnectionInnerError>)
        ensures final(self).st == old(self).st, r == Ok::<Frame, ConnectionInnerError>(Frame { channel: channel.0, body: FrameBody::Begin(begin) }),
    { unimplemented!() }
    #[verifier::external_body]
    pub fn on_outgoing_end(&mut self, channel: OutgoingChannel, end: End) -> (r: Result<Frame, ConnectionInnerError>)
        ensures final(self).st == old(self).st, r == Ok::<Frame, ConnectionInnerError>(Frame { channel: channel.0, body: FrameBody::End(end) }),
    { unimplemented!() }
    #[verifier::external_body]
    pub fn session_tx_by_incoming_channel(&mut self, ch: IncomingChannel) -> (r: Option<&SessTx>)
        ensures final(self).st == old(self).st,
    { unimplemented!() }
}

pub open spec fn no_close(s: Seq<Frame>) -> bool { forall|i: int| 0 <= i < s.len() ==> !((#[trigger] s[i]).body is Close) && !(s[i].body is Open) }
pub open spec fn extended_without_close(s0: Seq<Frame>, s1: Seq<Frame>) -> bool {
    s1.len() >= s0.len() && s1.take(s0.len() as int) =~= s0 && no_close(s1.skip(s0.len() as int))
}
pub proof fn lemma_extc_trans(a: Seq<Frame>, b: Seq<Frame>, c: Seq<Frame>)
    requires extended_without_close(a, b), extended_without_close(b, c),
    ensures extended_without_close(a, c),
{
    assert(c.take(a.len() as int) =~= a) by {
        assert(forall|i: int| 0 <= i < a.len() ==> c[i] == c.take(b.len() as int)[i]);
    }
    assert forall|i: int| 0 <= i < c.skip(a.len() as int).len() implies !((#[trigger] c.skip(a.len() as int)[i]).body is Close) && !(c.skip(a.len() as int)[i].body is Open) by {
        let k = i + a.len();
        if k < b.len() {
            assert(c[k] == c.take(b.len() as int)[k]);
            assert(b.skip(a.len() as int)[i] == b[k]);
        } else {
            assert(c.skip(b.len() as int)[k - b.len()] == c[k]);
        }
    }
}
/// body of the connection-level frame that carries a session frame
pub open spec fn lifted(b: SessionFrameBody) -> FrameBody {
    match b {
        SessionFrameBody::Begin(x) => FrameBody::Begin(x),
        SessionFrameBody::Attach(x) => FrameBody::Attach(x),
        SessionFrameBody::Flow(x) => FrameBody::Flow(x),
        SessionFrameBody::Transfer { performative, payload } => FrameBody::Transfer { performative, payload },
        SessionFrameBody::Disposition(x) => FrameBody::Disposition(x),
        SessionFrameBody::Detach(x) => FrameBody::Detach(x),
        SessionFrameBody::End(x) => FrameBody::End(x),
    }
}

//@@ type file=fe2o3-amqp/src/connection/engine.rs kind=struct name=ConnectionEngine
//@@ subst `ConnectionEngine<Io, C>` => `ConnectionEngine` rule=R7
//@@ subst `Transport<Io, amqp::Frame>` => `TransportS` rule=R9
//@@ subst `connection: C` => `connection: ConnS` rule=R7
//@@ subst `Receiver<ConnectionControl>` => `ConnCtlRx` rule=R9
//@@ subst `Receiver<SessionFrame>` => `ChanReceiver<SessionFrame>` rule=R9
//@@ end

/// C17: if the peer advertises an idle time-out T > 0 a heartbeat is armed and its period is STRICTLY below T (so that no interval of that length passes
/// without a frame: with a period of exactly T the frames leave at t0, t0+T, ... and the peer's timer, armed with the same T, fires first -- two endpoints
/// of this crate with idle_time_out(1000) on the listener dropped the idle client after 1 s); if it advertises none (unset or 0) no period is derived from it
pub open spec fn heartbeat_ok(period_ms: Option<u64>, peer_idle_time_out: Option<u32>) -> bool {
    match peer_idle_time_out { Some(ms) => if ms == 0 { period_ms is None } else { period_ms is Some && 0 < period_ms->Some_0 && (period_ms->Some_0 < ms as u64 || ms == 1) }, None => period_ms is None }
}
pub open spec fn close_already_sent(st: ConnectionState) -> bool { st is CloseSent || st is Discarding || st is ClosePipe || st is OpenClosePipe || st is End }

impl ConnectionEngine {
//@@ fn file=fe2o3-amqp/src/connection/engine.rs impl=`~impl<Io,C>ConnectionEngine<Io,C>whereIo:AsyncRead+AsyncWrite+std::fmt::Debug+SendBound+Unpin+'static,C:endpoint::Connection<State=ConnectionState>` name=on_heartbeat
//@@ spec
    ensures
        final(self).connection == old(self).connection && final(self).outgoing_session_frames == old(self).outgoing_session_frames,
        (old(self).connection.st is CloseSent || old(self).connection.st is Discarding || old(self).connection.st is ClosePipe
            || old(self).connection.st is OpenClosePipe || old(self).connection.st is End || old(self).connection.st is Start)
            ==> final(self).transport.sent@ == old(self).transport.sent@ && r is Ok,                                     // [C12.no-heartbeat-after-close] once the local Close has been sent (or before the header) no empty frame is written
        !(old(self).connection.st is CloseSent || old(self).connection.st is Discarding || old(self).connection.st is ClosePipe
            || old(self).connection.st is OpenClosePipe || old(self).connection.st is End || old(self).connection.st is Start)
            && r is Ok ==> final(self).transport.sent@ == old(self).transport.sent@.push(Frame { channel: 0, body: FrameBody::Empty }),   // [C17.heartbeat.empty-frame] a heartbeat tick writes exactly one empty frame on channel 0
        old(self).connection.st is End ==> r == Ok::<Running, ConnectionInnerError>(Running::Stop),
        r is Ok ==> (r->Ok_0 is Stop <==> old(self).connection.st is End),       // [C12.engine.stops-exactly-at-end] the connection's engine task goes on in every state but End and ends there: it does not stop under a connection that still owes (or awaits) its Close, and does not go on polling after the closing handshake
//@@ end

//@@ fn file=fe2o3-amqp/src/connection/engine.rs impl=`~impl<Io,C>ConnectionEngine<Io,C>whereIo:AsyncRead+AsyncWrite+std::fmt::Debug+SendBound+Unpin+'static,C:endpoint::Connection<State=ConnectionState>` name=on_outgoing_session_frames
//@@ subst `Frame::new(channel, ` => `Frame::new(channel.0, ` rule=R16
//@@ spec
    ensures
        final(self).connection.st == old(self).connection.st && final(self).outgoing_session_frames == old(self).outgoing_session_frames,
        final(self).heartbeat.period_ms == old(self).heartbeat.period_ms,
        !(old(self).connection.st is Opened || old(self).connection.st is CloseReceived) ==> r is Err && final(self).transport.sent@ == old(self).transport.sent@
            && final(self).transport.failures@ == old(self).transport.failures@,                                          // [C12.no-session-frame-outside-open] before the open exchange completes and after the local Close no session frame is written
        r is Ok ==> final(self).transport.sent@ == old(self).transport.sent@.push(Frame { channel: frame.channel, body: lifted(frame.body) }),   // [C06.engine.lift] the session frame goes out on its own channel with its performative (and payload) unchanged [C01.engine.lift] [C11.engine.channel]
        r is Err ==> final(self).transport.sent@ == old(self).transport.sent@,
        final(self).transport.failures@ >= old(self).transport.failures@,
        (old(self).connection.st is Opened || old(self).connection.st is CloseReceived) && r is Err ==> final(self).transport.failures@ > old(self).transport.failures@,   // [C12.flush-cannot-fail-by-state]
        extended_without_close(old(self).transport.sent@, final(self).transport.sent@),
//@@ end

//@@ fn file=fe2o3-amqp/src/connection/engine.rs impl=`~impl<Io,C>ConnectionEngine<Io,C>whereIo:AsyncRead+AsyncWrite+std::fmt::Debug+SendBound+Unpin+'static,C:endpoint::Connection<State=ConnectionState>` name=forward_to_session
//@@ spec
    ensures
        !(old(self).connection.st is Opened) ==> r is Err,                                                              // [C12.session-frame-only-when-opened] a session-level frame from the peer outside the Opened state is an error (closes the connection), it is not forwarded
        final(self).connection.st == old(self).connection.st && final(self).transport == old(self).transport
            && final(self).outgoing_session_frames == old(self).outgoing_session_frames && final(self).heartbeat == old(self).heartbeat,
//@@ end

//@@ fn file=fe2o3-amqp/src/connection/engine.rs impl=`~impl<Io,C>ConnectionEngine<Io,C>whereIo:AsyncRead+AsyncWrite+std::fmt::Debug+SendBound+Unpin+'static,C:endpoint::Connection<State=ConnectionState>` name=on_incoming
//@@ shape loops=whilelet
//@@ attr #[verifier::loop_isolation(false)]
//@@ attr #[verifier::allow_complex_invariants]
//@@ qmark
//@@ subst `SessionFrame::new(channel, ` => `SessionFrame::new(channel.0, ` rule=R16
//@@ spec
    ensures
        r is Ok ==> (r->Ok_0 is Stop <==> final(self).connection.st is End),       // [C12.engine.stops-exactly-at-end] the connection's engine task goes on in every state but End and ends there: it does not stop under a connection that still owes (or awaits) its Close, and does not go on polling after the closing handshake
        old(self).connection.st is Discarding && !(frame.body is Close) ==>
            r == Ok::<Running, ConnectionInnerError>(Running::Continue) && *final(self) == *old(self),                  // [C12.discarding.ignore] after closing with an error everything but the peer's Close is ignored: no state change, nothing sent, nothing forwarded
        old(self).connection.st is CloseSent && !(frame.body is Close) ==>
            r == Ok::<Running, ConnectionInnerError>(Running::Continue) && *final(self) == *old(self),                  // [C12.close-sent.in-flight-frames-ignored] after a local clean Close, frames of the peer that were still in flight are not acted on and are NOT an error: a clean close stays clean (only the peer's Close is interpreted)
        // peer-initiated close, transport still there
        frame.body is Close && (old(self).connection.st is Opened || old(self).connection.st is OpenPipe || old(self).connection.st is OpenClosePipe
            || old(self).connection.st is OpenReceived || old(self).connection.st is OpenSent)
            && final(self).transport.failures@ == old(self).transport.failures@ ==> ({
            let s0 = old(self).transport.sent@;
            let s1 = final(self).transport.sent@;
            &&& final(self).connection.st is End
            &&& s1.len() > s0.len() && s1.last() == close_frame(None)                                                   // [C12.peer-close-answered] a close from the peer is always answered with a close ...
            &&& extended_without_close(s0, s1.drop_last())                                                              // [C12.flush-before-close] ... after the frames already queued by the sessions have been flushed; exactly one Close, and it is the last frame written
            &&& final(self).outgoing_session_frames.queue@.len() == 0
            &&& r == Err::<Running, ConnectionInnerError>(state_err_to_inner(match frame.body->Close_0.error { Some(e) => ConnectionStateError::RemoteClosedWithError(e), None => ConnectionStateError::RemoteClosed }))   // [C12.peer-close-error] the peer's error (or RemoteClosed) is what is reported
        }),
        frame.body is Close && (old(self).connection.st is Opened || old(self).connection.st is OpenPipe || old(self).connection.st is OpenClosePipe
            || old(self).connection.st is OpenReceived || old(self).connection.st is OpenSent) ==>
            r == Err::<Running, ConnectionInnerError>(state_err_to_inner(match frame.body->Close_0.error { Some(e) => ConnectionStateError::RemoteClosedWithError(e), None => ConnectionStateError::RemoteClosed })),   // [C12.peer-close-error-survives-failed-answer] [C14.handle.reports-peer-error] the reason of the peer's close is what is reported even when the answering Close (or the flush before it) cannot be written any more (peer closed and dropped the socket)
        frame.body is Close && (old(self).connection.st is CloseSent || old(self).connection.st is Discarding) ==>
            final(self).connection.st is End && final(self).transport.sent@ == old(self).transport.sent@
            && (frame.body->Close_0.error is None ==> r == Ok::<Running, ConnectionInnerError>(Running::Stop)),         // [C12.close-completed] the peer's answer to our close ends the connection: nothing more is written
        !(frame.body is Open) && !(frame.body is Close) ==> final(self).heartbeat == old(self).heartbeat,                                         // [C17.heartbeat.not-postponed-by-incoming] receiving frames never re-arms or postpones the heartbeat: the peer's idle time-out is about what WE send
        frame.body is Open && r is Ok && !(old(self).connection.st is Discarding || old(self).connection.st is CloseSent) ==> heartbeat_ok(final(self).heartbeat.period_ms, frame.body->Open_0.idle_time_out),   // [C17.heartbeat.from-peer-open] heartbeats are armed from the peer's idle-time-out; 0 or unset means none [C15.open.zero-idle-timeout] (and never a zero period, which would panic the timer)
//@@ loop 0
        invariant_except_break
            answer is Ok,
        invariant
            self.outgoing_session_frames.closed@,
            self.connection.st is CloseReceived,
            extended_without_close(old(self).transport.sent@, self.transport.sent@),
            self.transport.failures@ >= old(self).transport.failures@,
        ensures
            answer is Ok ==> self.outgoing_session_frames.queue@.len() == 0,
            answer is Err ==> self.transport.failures@ > old(self).transport.failures@,
        decreases self.outgoing_session_frames.queue@.len(),
//@@ loopstart 0
                        let ghost sl = self.transport.sent@;
//@@ loopend 0
                        proof { lemma_extc_trans(old(self).transport.sent@, sl, self.transport.sent@); }
//@@ end

//@@ fn file=fe2o3-amqp/src/connection/engine.rs impl=`~impl<Io,C>ConnectionEngine<Io,C>whereIo:AsyncRead+AsyncWrite+std::fmt::Debug+SendBound+Unpin+'static,C:endpoint::Connection<State=ConnectionState>` name=wait_for_remote_close
//@@ attr #[verifier::loop_isolation(false)]
//@@ shape loops=loop
//@@ attr #[verifier::exec_allows_no_decreases_clause]
//@@ qmark
//@@ subst `|| { transport::Error::Io(io::Error::new( io::ErrorKind::UnexpectedEof, "Expecting remote close", )) }` => `|| -> (o: TransportError) { eof_transport_error() }` rule=R18
//@@ subst `IncomingChannel(frame.channel)` => `IncomingChannel(frame.channel)` rule=optional
//@@ spec
    requires
        old(self).connection.stop_set@ is Some,     // [C15.engine.error-visible-before-waiting-for-the-peer] this wait is entered only from close_connection, i.e. after the engine has found a violation or a failure and written its Close: the reason is published (stop reason set, so sessions and handles that wake up can read it) BEFORE the engine waits -- without bound -- for the Close of a peer that may never send it
    ensures
        discard_other ==> final(self).transport.sent@ == old(self).transport.sent@ && final(self).connection == old(self).connection
            && final(self).outgoing_session_frames == old(self).outgoing_session_frames && final(self).heartbeat == old(self).heartbeat,   // [C12.discarding.wait-ignores] while waiting for the peer's close after an error close, everything else the peer sends is dropped unseen: nothing is written, no state moves
//@@ loop 0
        invariant
            discard_other ==> self.transport.sent@ == old(self).transport.sent@ && self.connection == old(self).connection
                && self.outgoing_session_frames == old(self).outgoing_session_frames && self.heartbeat == old(self).heartbeat,
//@@ end

//@@ fn file=fe2o3-amqp/src/connection/engine.rs impl=`~impl<Io,C>ConnectionEngine<Io,C>whereIo:AsyncRead+AsyncWrite+std::fmt::Debug+SendBound+Unpin+'static,C:endpoint::Connection<State=ConnectionState>` name=close_connection
//@@ qmark
//@@ spec
    ensures
        close_already_sent(old(self).connection.st) && (old(self).connection.st is Discarding || old(self).connection.st is End) ==> final(self).transport.sent@ == old(self).transport.sent@,   // [C12.close-at-most-once] closing the connection when a close has already gone out (after an error close: DISCARDING) writes nothing more
        (old(self).connection.st is Start || old(self).connection.st is HeaderReceived || old(self).connection.st is HeaderSent || old(self).connection.st is HeaderExchange)
            ==> r is Err && final(self).transport.sent@ == old(self).transport.sent@,                                                                                                      // [C12.no-close-before-open] no close before the open exchange has begun
        old(self).connection.st is CloseReceived && r is Err ==> final(self).transport.failures@ > old(self).transport.failures@,
        old(self).connection.st is CloseReceived && r is Ok ==> final(self).transport.sent@ == old(self).transport.sent@.push(close_frame(error)) && final(self).connection.st is End,       // [C12.peer-close-answered] a close received from the peer is answered with exactly one close
        r is Ok ==> r->Ok_0 is Stop,
//@@ end

//@@ fn file=fe2o3-amqp/src/connection/engine.rs impl=`~impl<Io,C>ConnectionEngine<Io,C>whereIo:AsyncRead+AsyncWrite+std::fmt::Debug+SendBound+Unpin+'static,C:endpoint::Connection<State=ConnectionState>` name=on_error
//@@ qmark
//@@ orsplit
//@@ subst `definitions::Error::new(AmqpError::IllegalState, None, None)` => `amqp_error_of(1, None)` rule=R11
//@@ subst `definitions::Error::new(AmqpError::NotImplemented, description.clone(), None)` => `amqp_error_of(2, description.clone())` rule=R11
//@@ subst `definitions::Error::new(AmqpError::NotFound, description.clone(), None)` => `amqp_error_of(3, description.clone())` rule=R11
//@@ spec
    ensures
        *error is TransportError ==> r == Ok::<Running, ConnectionInnerError>(Running::Stop) && final(self).transport.sent@ == old(self).transport.sent@,   // [C12.transport-gone] with the transport gone nothing is written any more
        close_already_sent(old(self).connection.st) && (old(self).connection.st is Discarding || old(self).connection.st is End) ==> final(self).transport.sent@ == old(self).transport.sent@,   // [C12.close-at-most-once]
        (*error is RemoteClosed || *error is RemoteClosedWithError) && old(self).connection.st is CloseReceived && final(self).transport.failures@ == old(self).transport.failures@
            ==> final(self).transport.sent@ == old(self).transport.sent@.push(close_frame(None)),                  // [C12.peer-close-answered] the answer to the peer's close carries no error of our own
        (*error is RemoteClosed || *error is RemoteClosedWithError) ==> r == Ok::<Running, ConnectionInnerError>(Running::Stop),       // [C12.peer-close-error-survives-failed-answer] [C14.handle.reports-peer-error] handling the peer's close never fails: a failure to write the answer must not replace the peer's reason in the handle's result (event_loop reports on_error's own error if it returns one)
        r is Ok ==> r->Ok_0 is Stop,
//@@ end

//@@ fn file=fe2o3-amqp/src/connection/engine.rs impl=`~impl<Io,C>ConnectionEngine<Io,C>whereIo:AsyncRead+AsyncWrite+std::fmt::Debug+SendBound+Unpin+'static,C:endpoint::Connection<State=ConnectionState>` name=on_control
//@@ shape loops=whilelet
//@@ attr #[verifier::loop_isolation(false)]
//@@ qmark
//@@ subst `ConnectionStopReason::ClosedWithError(error.clone())` => `stop_reason_closed_with_error(error.clone())` rule=R11
//@@ subst `self.connection.allocate_session(tx).map_err(Into::into)` => `self.connection.allocate_session(tx).map_err(|e: ConnAllocError| -> (o: AllocSessionError) { alloc_err_into(e) })` rule=R17 unless `\.map_err\(`
//@@ subst `.map_err(|_v0| ConnectionInnerError::IllegalState)` => `.map_err(|_v0: Result<OutgoingChannel, AllocSessionError>| -> (o: ConnectionInnerError) { ConnectionInnerError::IllegalState })` rule=optional-R5
//@@ spec
    ensures
        r is Ok ==> (r->Ok_0 is Stop <==> final(self).connection.st is End),       // [C12.engine.stops-exactly-at-end] the connection's engine task goes on in every state but End and ends there: it does not stop under a connection that still owes (or awaits) its Close, and does not go on polling after the closing handshake
        control is Close && close_already_sent(old(self).connection.st) ==> extended_without_close(old(self).transport.sent@, final(self).transport.sent@),                                 // [C12.close-at-most-once] a close request from the handle after a close has already been sent (try_close polled again, close after close_with_error) puts no second Close on the wire
        control is Close && close_already_sent(old(self).connection.st) ==> r is Ok && final(self).transport.sent@ == old(self).transport.sent@ && final(self).connection.st == old(self).connection.st,   // [C12.repeated-close-request-ignored] a further close request after the local Close went out (try_close polled again, close() retried after a timeout) is ignored: it is not an error that would turn the result of a clean close into IllegalState
        control is Close && !close_already_sent(old(self).connection.st) && r is Ok ==> ({
            let s0 = old(self).transport.sent@; let s1 = final(self).transport.sent@;
            &&& s1.len() > s0.len() && s1.last() == close_frame(control->Close_0)                                    // [C12.close-frame] a locally requested close sends the Close with the caller's error ...
            &&& extended_without_close(s0, s1.drop_last())                                                           // [C12.flush-before-close] ... after flushing what the sessions had already queued, and as the last frame
        }),
        !(control is Close) ==> final(self).transport.sent@ == old(self).transport.sent@ && final(self).connection.st == old(self).connection.st,
//@@ entry
        let ghost mut smid: Seq<Frame> = Seq::empty();
//@@ loop 0 optional
        invariant
            self.outgoing_session_frames.closed@,
            self.connection.st == old(self).connection.st,
            control is Close,
            extended_without_close(old(self).transport.sent@, self.transport.sent@),
        decreases self.outgoing_session_frames.queue@.len(),
//@@ loopstart 0
                    let ghost sl = self.transport.sent@;
//@@ loopend 0
                    proof { lemma_extc_trans(old(self).transport.sent@, sl, self.transport.sent@); }
//@@ end

//@@ fn file=fe2o3-amqp/src/connection/engine.rs impl=`~impl<Io,C>ConnectionEngine<Io,C>whereIo:AsyncRead+AsyncWrite+std::fmt::Debug+SendBound+Unpin+'static,C:endpoint::Connection<State=ConnectionState>` name=open_inner
//@@ qmark
//@@ subst `OpenError::Io(io::Error::new( io::ErrorKind::UnexpectedEof, "Expecting an Open frame", ))` => `OpenError::Io(eof_io_error())` rule=R9
//@@ subst `Err(error) => return Err(error.into())` => `Err(error) => return Err(error.err_into())` rule=R16
//@@ subst `endpoint::IncomingChannel(channel)` => `IncomingChannel(channel)` rule=R11
//@@ spec
    requires
        old(self).transport.sent@.len() == 0,       // nothing but the protocol header (written by the header codec, unit HEADERS) has gone out
    ensures
        final(self).transport.sent@.len() <= 1,
        final(self).transport.sent@.len() == 1 ==> final(self).transport.sent@[0] == (Frame { channel: 0, body: FrameBody::Open(old(self).connection.local_open) }),   // [C12.open-first] the first frame written is the local Open (once): nothing precedes it
        r is Ok ==> final(self).transport.sent@.len() == 1,
        r is Ok ==> ({
            let rc = final(self).transport.recv@;
            &&& rc.len() == old(self).transport.recv@.len() + 1 && rc.last().body is Open                                                                        // [C12.open-exchange] opening succeeds only if the first frame from the peer is its Open (a Close or anything else fails the open)
            &&& final(self).transport.enc_max@ == rc.last().body->Open_0.max_frame_size.0 as int                                                                  // [C06.open.peer-max-frame-size] what we send is limited by the PEER's max-frame-size ...
            &&& final(self).transport.dec_max@ == old(self).connection.local_open.max_frame_size.0 as int                                                         // ... what we accept by OUR OWN advertised one
            &&& heartbeat_ok(final(self).heartbeat.period_ms, rc.last().body->Open_0.idle_time_out)   // [C17.heartbeat.from-peer-open]
        }),
        (r is Err && (r->Err_0 is RemoteClosed || r->Err_0 is RemoteClosedWithError)) ==> final(self).connection.st is CloseReceived,   // [C12.close-before-open-recorded] a Close the peer sends instead of its Open (the open is refused) is taken in like any other close of the peer: the state records it (CLOSE-RCVD), so that it is answered once and no second Close is waited for
        final(self).transport.recv@.len() == old(self).transport.recv@.len() + 1 && final(self).transport.recv@.last().body is Close && final(self).transport.sent@.len() == 1 ==> ({
            let c = final(self).transport.recv@.last().body->Close_0;
            r == Err::<(), OpenError>(match c.error { Some(e) => OpenError::RemoteClosedWithError(e), None => OpenError::RemoteClosed })                            // [C12.refused-open-reports-peer-error] the peer's error is what the opening side is told
        }),
        final(self).transport.recv@.len() == old(self).transport.recv@.len() + 1 && !(final(self).transport.recv@.last().body is Close) && !(final(self).transport.recv@.last().body is Open)
            && final(self).transport.sent@.len() == 1 ==> r is Err && (r->Err_0 is IllegalState || r->Err_0 is NotImplemented),                                   // [C12.frame-before-open-is-illegal] any other frame before the peer's Open is an illegal-state error (which `open` must turn into a Close carrying an error)
        r is Ok ==> final(self).heartbeat.period_ms is Some ==> final(self).heartbeat.period_ms->Some_0 > 0,                                                          // [C15.open.zero-idle-timeout] never a zero heartbeat period
        final(self).control == old(self).control && final(self).outgoing_session_frames == old(self).outgoing_session_frames,     // [C12.open.queues-untouched] the open exchange consumes nothing from the control queue or the sessions' frame queue
//@@ end

    /// `engine.close_connection(error)` as called by `open` after open_inner failed with `cause`: the real close_connection (contract above), plus what C12 asks of this call site
    fn close_connection_after_failed_open(&mut self, cause: &OpenError, error: Option<AmqpError>) -> (r: Result<Running, ConnectionInnerError>)
        requires
            (*cause is IllegalState || *cause is NotImplemented) ==> error is Some,                                    // [C12.illegal-frame-before-open-closes-with-error] a frame that is illegal before the peer's Open closes the connection WITH an error (amqp:illegal-state / not-implemented), not with an error-free Close the peer would take for a clean shutdown
            (*cause is RemoteClosed || *cause is RemoteClosedWithError) ==> old(self).connection.st is CloseReceived,    // [C12.close-before-open-recorded] the peer's Close has been recorded, so this call answers it once and returns (it does not wait for a second Close)
        ensures
            old(self).connection.st is CloseReceived && r is Ok ==> final(self).transport.sent@ == old(self).transport.sent@.push(close_frame(error)) && final(self).connection.st is End,
            old(self).connection.st is CloseReceived && r is Err ==> final(self).transport.failures@ > old(self).transport.failures@,
    { self.close_connection(error) }

//@@ fn file=fe2o3-amqp/src/connection/engine.rs impl=`~impl<Io,C>ConnectionEngine<Io,C>whereIo:AsyncRead+AsyncWrite+std::fmt::Debug+SendBound+Unpin+'static,C:endpoint::Connection<State=ConnectionState>` name=open
//@@ param transport : TransportS
//@@ param connection : ConnS
//@@ param control : ConnCtlRx
//@@ param outgoing_session_frames : ChanReceiver<SessionFrame>
//@@ ret Result<ConnectionEngine, OpenError>
//@@ subst `engine.close_connection(__E1)` => `engine.close_connection_after_failed_open(&error, __E1)` rule=R9
//@@ subst `Some(String::from( "Pipelined open is not implemented", ))` => `Some(str_pipelined())` rule=R9
//@@ subst `definitions::Error::new( AmqpError::IllegalState, None, None, )` => `amqp_error_of(1, None)` rule=optional-R11
//@@ subst `definitions::Error::new( AmqpError::NotImplemented, description.clone(), None, )` => `amqp_error_of(2, description.clone())` rule=optional-R11
//@@ spec
    requires transport.sent@.len() == 0,
    ensures
        r is Ok ==> r->Ok_0.transport.sent@.len() == 1 && r->Ok_0.transport.recv@.len() == transport.recv@.len() + 1 && r->Ok_0.transport.recv@.last().body is Open,   // [C12.open-exchange] the engine is handed out only after the Open exchange
        r is Ok ==> r->Ok_0.control == control && r->Ok_0.outgoing_session_frames == outgoing_session_frames,       // [C12.connection-wiring.engine-keeps-its-ends] the engine that comes up reads exactly the control queue and the session-frame queue it was given (unit CONNWIRING relies on it)
//@@ end

//@@ fn file=fe2o3-amqp/src/connection/engine.rs impl=`~impl<Io,C>ConnectionEngine<Io,C>whereIo:AsyncRead+AsyncWrite+std::fmt::Debug+SendBound+Unpin+'static,C:endpoint::Connection<State=ConnectionState>` name=event_loop as=event_loop_tail
//@@ tailafter `loop {`
//@@ addparam outcome: Result<(), ConnectionInnerError>
//@@ param tx : OutcomeTx
//@@ subst `(mut self,` => `(&mut self,` rule=R32
//@@ subst `self.control.close();` => `self.control.close_published(Ghost(self.connection.stop_set@ is Some));` rule=R9
//@@ subst `self.outgoing_session_frames.close();` => `self.outgoing_session_frames.close_published(Ghost(self.connection.stop_set@ is Some));` rule=R9
//@@ subst `self.transport.close().map_err(Into::into)` => `self.transport.close().map_err(|e: TransportError| -> (o: ConnectionInnerError) ensures o == transport_err_to_inner(e) { e.err_into() })` rule=R17 unless `\.map_err\(`
//@@ subst `.and(__E1).map_err(Into::into)` => `.and(__E1).map_err(|e: ConnectionInnerError| -> (o: Error) ensures o == inner_to_error(e) { inner_into_error(e) })` rule=R17 unless `\.map_err\(`
//@@ spec
    requires
        tx.owes_ok@ == (outcome is Ok && old(self).connection.st is End),             // the event loop ended with the close handshake complete (END) and no handler reported an error
        tx.owes_peer_error@ == (if outcome is Err && outcome->Err_0 is RemoteClosedWithError { Some(outcome->Err_0->RemoteClosedWithError_0) } else { None::<AmqpError> }),
    ensures
        outcome is Err && outcome->Err_0 is RemoteClosedWithError ==> final(self).connection.stop_set@ == Some(ConnectionStopReason::RemoteClosedWithError(outcome->Err_0->RemoteClosedWithError_0)),   // [C12.stop-reason.peer-error] [C14.stop-reason.says-who-stopped-and-why] sessions and links are told the peer's error too
        outcome is Err && outcome->Err_0 is RemoteClosed ==> final(self).connection.stop_set@ == Some(ConnectionStopReason::RemoteClosed),
        final(self).transport.sent@ == old(self).transport.sent@,                                                        // [C12.nothing-after-close] tearing the engine down writes no frame
//@@ end

//@@ fn file=fe2o3-amqp/src/connection/engine.rs impl=`~impl<Io,C>ConnectionEngine<Io,C>whereIo:AsyncRead+AsyncWrite+std::fmt::Debug+SendBound+Unpin+'static,C:endpoint::Connection<State=ConnectionState>` name=event_loop as=event_loop_arm_session_frames
//@@ selectarm `frame = self.outgoing_session_frames.recv()`
//@@ addparam frame: Option<SessionFrame>
//@@ addparam outgoing_session_frames_done: &mut bool
//@@ param tx : OutcomeTx
//@@ ret (Result<Running, ConnectionInnerError>, bool)
//@@ subst `(mut self,` => `(&mut self,` rule=R32
//@@ subst `outgoing_session_frames_done` => `(*outgoing_session_frames_done)` rule=optional-R33
//@@ spec
    ensures
        frame is None ==> !r.1,      // [C15.engine.closed-channel-not-polled-again] `recv()` on the sessions' frame channel yields None only when the channel is closed and drained (connection.close()), and then on every poll at once: the select branch that polls it is disabled once it has seen None -- otherwise the engine spins (one core at 100 %) while it waits for the peer's Close
//@@ end
}
#[verifier::external_body]
pub fn str_pipelined() -> (r: String) { unimplemented!() }

} // verus!
fn main() {}
