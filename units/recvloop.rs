//@@ unit RECVLOOP
//@@ gsubst `definitions::Error` => `AmqpError` rule=R11
#![feature(allocator_api)]
#![allow(unused_imports, unused_variables, dead_code, unused_mut, unused_parens)]
use vstd::prelude::*;

verus! {

//@@ trusted the receiver's link endpoint is a stand-in whose send_detach / on_incoming_detach carry the contracts proved for Link in unit LINK ([C13.link.one-detach], [C13.link.detach-frame], [C13.link.peer-close], [C13.link.peer-detach]); on_incoming_transfer (unit REASM) and close_with_error (unit LINKDETACH) are opaque here
//@@ trusted the incoming channel of the link (mpsc::Receiver<LinkFrame>) yields an arbitrary frame or None (session gone)
//@@ trusted built as with feature transaction

macro_rules! opaque {
    ($($n:ident),*) => { verus!{ $(
        #[verifier::external_body]
        pub struct $n { _p: u8 }
        impl Clone for $n { #[verifier::external_body] fn clone(&self) -> (r: Self) ensures r == *self { unimplemented!() } }
    )* } }
}
opaque!(AmqpError, SessionStopReason, Attach, LinkFlow, Disposition, Transfer, Payload, DeliveryT, AcqMarker, InputHandle);
// bytes::Bytes as far as these functions may look at it: its length (R11)
impl Payload {
    pub uninterp spec fn spec_len(&self) -> nat;
    #[verifier::external_body]
    pub fn len(&self) -> (r: usize) ensures r == self.spec_len() { unimplemented!() }
    #[verifier::external_body]
    pub fn is_empty(&self) -> (r: bool) ensures r == (self.spec_len() == 0) { unimplemented!() }
}
pub struct Handle(pub u32);
pub type Boolean = bool;
//@@ type file=fe2o3-amqp-types/src/performatives/detach.rs kind=struct name=Detach
//@@ subst `Option<Error>` => `Option<AmqpError>` rule=optional
//@@ end
//@@ type file=fe2o3-amqp/src/link/state.rs kind=enum name=LinkState
//@@ end
//@@ type file=fe2o3-amqp/src/link/error.rs kind=enum name=DetachError
//@@ end
//@@ type file=fe2o3-amqp/src/link/error.rs kind=enum name=LinkStateError
//@@ end
pub enum LinkFrame { Attach(Attach), Flow(LinkFlow), Transfer { input_handle: InputHandle, performative: Transfer, payload: Payload }, Disposition(Disposition), Detach(Detach), Acquisition(AcqMarker) }
pub enum RecvError { LinkStateError(LinkStateError), TransactionalAcquisitionIsNotImeplemented, Other }

pub trait ErrInto<T>: Sized { spec fn conv(self) -> T; fn err_into(self) -> (r: T) ensures r == self.conv(); }
impl ErrInto<RecvError> for RecvError { open spec fn conv(self) -> RecvError { self } fn err_into(self) -> (r: RecvError) { let e = self; assert(e == <RecvError as ErrInto<RecvError>>::conv(self)); e } }
impl ErrInto<RecvError> for LinkStateError { open spec fn conv(self) -> RecvError { RecvError::LinkStateError(self) } fn err_into(self) -> (r: RecvError) { RecvError::LinkStateError(self) } }
pub uninterp spec fn detach_err_to_state(e: DetachError) -> LinkStateError;
impl ErrInto<RecvError> for DetachError { open spec fn conv(self) -> RecvError { RecvError::LinkStateError(detach_err_to_state(self)) } #[verifier::external_body] fn err_into(self) -> (r: RecvError) { unimplemented!() } }

pub struct OnceCell { pub v: Option<SessionStopReason> }
impl OnceCell { pub fn get(&self) -> (r: Option<&SessionStopReason>) ensures (match r { Some(x) => self.v == Some(*x), None => self.v is None }) { match &self.v { Some(x) => Some(x), None => None } } }
pub struct Tx { pub sent: Ghost<Seq<(bool, Option<AmqpError>)>>, pub failures: Ghost<nat> }
pub struct Rx { pub got: Ghost<Seq<LinkFrame>> }
impl Rx {
    #[verifier::external_body]
    pub fn recv(&mut self) -> (r: Option<LinkFrame>)
        ensures (match r { Some(f) => final(self).got@ == old(self).got@.push(f), None => final(self).got@ == old(self).got@ }),
    { unimplemented!() }
}
pub open spec fn send_legal(st: LinkState, closed: bool) -> bool {
    match (st, closed) { (LinkState::Attached, _) => true, (LinkState::DetachReceived, false) => true, (LinkState::CloseReceived, true) => true, _ => false }
}
pub struct RLink { pub st: LinkState, pub has_handle: bool, pub stop: OnceCell }
impl RLink {
    pub fn session_stop_reason(&self) -> (r: &OnceCell) ensures *r == self.stop { &self.stop }
    /// contract of Link::send_detach (unit LINK)
    #[verifier::external_body]
    pub fn send_detach(&mut self, writer: &mut Tx, closed: bool, error: Option<AmqpError>) -> (r: Result<(), DetachError>)
        ensures
            final(self).stop == old(self).stop,
            !send_legal(old(self).st, closed) ==> r is Err && final(writer).sent@ == old(writer).sent@ && final(self).st == old(self).st && final(self).has_handle == old(self).has_handle,
            send_legal(old(self).st, closed) ==> final(self).st == (match (old(self).st, closed) {
                (LinkState::Attached, false) => LinkState::DetachSent, (LinkState::DetachReceived, false) => LinkState::Detached,
                (LinkState::Attached, true) => LinkState::CloseSent, _ => LinkState::Closed }),
            send_legal(old(self).st, closed) && old(self).has_handle ==> !final(self).has_handle
                && (r is Ok ==> final(writer).sent@ == old(writer).sent@.push((closed, error)) && final(writer).failures@ == old(writer).failures@)
                && (r is Err ==> final(writer).sent@ == old(writer).sent@ && final(writer).failures@ > old(writer).failures@),
            send_legal(old(self).st, closed) && !old(self).has_handle ==> r is Err && final(writer).sent@ == old(writer).sent@,
            final(writer).failures@ >= old(writer).failures@,
    { unimplemented!() }
    /// contract of Link::on_incoming_detach (unit LINK), result values abstracted
    #[verifier::external_body]
    pub fn on_incoming_detach(&mut self, detach: Detach) -> (r: Result<(), DetachError>)
        ensures
            final(self).stop == old(self).stop,
            detach.closed ==> (match old(self).st {
                LinkState::Attached | LinkState::AttachSent | LinkState::AttachReceived | LinkState::IncompleteAttachExchanged | LinkState::IncompleteAttachSent | LinkState::IncompleteAttachReceived =>
                    final(self).st is CloseReceived && final(self).has_handle == old(self).has_handle && (detach.error is Some ==> r is Err) && (detach.error is None ==> r is Ok),
                LinkState::DetachSent => final(self).st is CloseReceived && final(self).has_handle == old(self).has_handle && r is Err,
                LinkState::CloseSent => final(self).st is Closed && !final(self).has_handle && (detach.error is Some ==> r is Err) && (detach.error is None ==> r is Ok),
                _ => r is Err && final(self).st == old(self).st && final(self).has_handle == old(self).has_handle,
            }),
            !detach.closed ==> (match old(self).st {
                LinkState::Attached => final(self).st is DetachReceived && final(self).has_handle == old(self).has_handle && (detach.error is Some ==> r is Err) && (detach.error is None ==> r is Ok),
                LinkState::DetachSent => final(self).st is Detached && !final(self).has_handle && (detach.error is Some ==> r is Err) && (detach.error is None ==> r is Ok),
                _ => r is Err && final(self).st == old(self).st && final(self).has_handle == old(self).has_handle,
            }),
    { unimplemented!() }
}
pub struct ReceiverInner { pub link: RLink, pub outgoing: Tx, pub incoming: Rx }
#[verifier::external_body]
pub fn not_implemented_error() -> (r: AmqpError) { unimplemented!() }
impl ReceiverInner {
    pub fn link(&self) -> (r: &RLink) ensures *r == self.link { &self.link }
    #[verifier::external_body]
    pub fn on_incoming_transfer(&mut self, t: Transfer, p: Payload) -> (r: Result<Option<DeliveryT>, RecvError>)
        ensures final(self).outgoing.sent == old(self).outgoing.sent, final(self).incoming == old(self).incoming,     // a transfer never makes the receiver send a detach (it may send dispositions/flows on the same channel: not tracked in this unit)
    { unimplemented!() }
    #[verifier::external_body]
    pub fn close_with_error(&mut self, e: Option<AmqpError>) -> (r: Result<(), DetachError>) ensures final(self).incoming == old(self).incoming { unimplemented!() }

//@@ fn file=fe2o3-amqp/src/link/receiver.rs impl=`~impl<L>ReceiverInner<L>where` name=recv_inner
//@@ qmark
//@@ generics
//@@ nowhere
//@@ ret Result<Option<DeliveryT>, RecvError>
//@@ subst `&self.outgoing` => `&mut self.outgoing` rule=R9
//@@ subst `.map_err(Into::into)` => `.map_err(|e: DetachError| -> (o: RecvError) { e.err_into() })` rule=optional-R17
//@@ subst `LinkStateError::RemoteClosed.into()` => `LinkStateError::RemoteClosed.err_into()` rule=R16
//@@ subst `LinkStateError::RemoteDetached.into()` => `LinkStateError::RemoteDetached.err_into()` rule=R16
//@@ subst `|_v0| match closed {` => `|_v0: ()| match closed {` rule=optional-R5
//@@ subst `LinkStateError::IllegalState.into()` => `LinkStateError::IllegalState.err_into()` rule=R16
//@@ subst `definitions::Error::new( AmqpError::NotImplemented, "Transactional acquisition is not implemented".to_string(), None, )` => `not_implemented_error()` rule=R11
//@@ subst `unreachable!()` => `{ assume(false); Err(RecvError::Other) }` rule=R12
//@@ spec
    ensures
        final(self).incoming.got@.len() <= old(self).incoming.got@.len() + 1,
        // the peer detached (closing or not) while the link was attached and the channel to the session is alive
        final(self).incoming.got@.len() == old(self).incoming.got@.len() + 1 && final(self).incoming.got@.last() is Detach
            && old(self).link.st is Attached && old(self).link.has_handle && final(self).outgoing.failures@ == old(self).outgoing.failures@ ==> ({
                let d = final(self).incoming.got@.last()->Detach_0;
                &&& final(self).outgoing.sent@ == old(self).outgoing.sent@.push((d.closed, None::<AmqpError>))      // [C13.link.recv-detach-answered-in-kind] a peer's detach seen by recv() is answered at once with exactly one detach, closing iff the peer's was closing -- whether or not the peer's detach carried an error
                &&& final(self).link.st == (if d.closed { LinkState::Closed } else { LinkState::Detached })         // [C13.link.recv-detach-completes] ... and the link ends Closed / Detached with its handle released
            }),
        // the session (or its connection) is gone: the link's incoming channel is closed
        final(self).incoming.got@.len() == old(self).incoming.got@.len() ==> r == Err::<Option<DeliveryT>, RecvError>(RecvError::LinkStateError(match old(self).link.stop.v {
                Some(reason) => LinkStateError::SessionStopped(reason), None => LinkStateError::IllegalState })),          // [C14.recv.closed-channel-reports-stop-reason] a recv() that finds the channel from the session closed fails at once (it does not wait) with SessionStopped(reason): the reason the session published before it dropped the channel -- the peer's End / Close with its error, the transport failure -- so the application learns whether link, session or connection stopped
//@@ end
}

/// Result::and_then (std)
pub assume_specification<T, E, U, F: FnOnce(T) -> Result<U, E>>[ Result::<T, E>::and_then ](r: Result<T, E>, f: F) -> (o: Result<U, E>)
    requires r is Ok ==> f.requires((r->Ok_0,)),
    ensures (match r { Ok(v) => f.ensures((v,), o), Err(e) => o == Err::<U, E>(e) });

} // verus!
fn main() {}
