//@@ unit SESSION
//@@ gsubst `definitions::Error` => `AmqpError` rule=R11
#![feature(allocator_api)]
#![allow(unused_imports, unused_variables, dead_code, unused_mut, unused_parens)]
use vstd::prelude::*;
use std::collections::VecDeque;

verus! {

//@@ include common.rs

// ---------------------------------------------------------------------------------------------
// leaf types (opaque or trivial newtypes; TRUSTED stand-ins)
//@@ trusted leaf stand-ins: Payload, DeliveryTag, DeliveryState, Fields, Symbol, AmqpError are opaque values with value-equality Clone; Handle/InputHandle/OutputHandle/OutgoingChannel/IncomingChannel are the one-field newtypes of endpoint/mod.rs with their From conversions (handle_to_input etc.)
//@@ trusted LinkRelay stand-in: the session's view of a link is a ghost call log; on_incoming_disposition / on_incoming_flow / on_incoming_transfer / send append to it and return unconstrained results (contracts of the real LinkRelay methods are proved in unit LINKRELAY)
//@@ trusted mpsc::Sender<SessionFrame> stand-in (R9): send either appends to the ghost trace and returns Ok, or returns Err leaving it unchanged

pub type TransferNumber = u32;
pub type DeliveryNumber = u32;
pub type SequenceNo = u32;
pub type MessageFormat = u32;
pub type Uint = u32;
pub type Ushort = u16;
pub type Boolean = bool;

macro_rules! opaque {
    ($($n:ident),*) => { verus!{ $(
        #[verifier::external_body]
        pub struct $n { _p: u8 }
        impl Clone for $n { #[verifier::external_body] fn clone(&self) -> (r: Self) ensures r == *self { unimplemented!() } }
    )* } }
}
opaque!(Payload, DeliveryTag, Fields, Symbol, AmqpError, ConnectionStopReason, AttachRest);
// bytes::Bytes as far as these functions may look at it: its length (R11)
impl Payload {
    pub uninterp spec fn spec_len(&self) -> nat;
    #[verifier::external_body]
    pub fn len(&self) -> (r: usize) ensures r == self.spec_len() { unimplemented!() }
    #[verifier::external_body]
    pub fn is_empty(&self) -> (r: bool) ensures r == (self.spec_len() == 0) { unimplemented!() }
}

//@@ type file=fe2o3-amqp/src/link/error.rs kind=enum name=SessionStopReason clone
//@@ end

#[verifier::external_body]
pub struct DeliveryState { _p: u8 }
impl Clone for DeliveryState { #[verifier::external_body] fn clone(&self) -> (r: Self) ensures r == *self { unimplemented!() } }
impl DeliveryState {
    pub uninterp spec fn spec_is_terminal(&self) -> bool;
    #[verifier::external_body]
    pub fn is_terminal(&self) -> (r: bool) ensures r == self.spec_is_terminal() { unimplemented!() }
}

#[derive(PartialEq, Eq)]
pub struct Handle(pub u32);
impl Clone for Handle { fn clone(&self) -> (r: Self) ensures r == *self { Handle(self.0) } }
#[derive(PartialEq, Eq)]
pub struct InputHandle(pub u32);
impl Clone for InputHandle { fn clone(&self) -> (r: Self) ensures r == *self { InputHandle(self.0) } }
#[derive(PartialEq, Eq)]
pub struct OutputHandle(pub u32);
impl Clone for OutputHandle { fn clone(&self) -> (r: Self) ensures r == *self { OutputHandle(self.0) } }
#[derive(Clone, Copy, PartialEq, Eq)]
pub struct OutgoingChannel(pub u16);
#[derive(Clone, Copy, PartialEq, Eq)]
pub struct IncomingChannel(pub u16);

pub fn handle_to_input(h: Handle) -> (r: InputHandle) ensures r.0 == h.0 { InputHandle(h.0) }
pub fn handle_to_output(h: Handle) -> (r: OutputHandle) ensures r.0 == h.0 { OutputHandle(h.0) }

pub struct Constant<T>(pub T);
impl<T> Constant<T> {
    pub fn value(&self) -> (r: &T) ensures *r == self.0 { &self.0 }
    pub fn new(v: T) -> (r: Self) ensures r.0 == v { Constant(v) }
}

// ---------------------------------------------------------------------------------------------
// extracted protocol types

//@@ type file=fe2o3-amqp-types/src/definitions/role.rs kind=enum name=Role clone
//@@ end
//@@ type file=fe2o3-amqp-types/src/definitions/rcv_settle_mode.rs kind=enum name=ReceiverSettleMode clone
//@@ end
//@@ type file=fe2o3-amqp-types/src/states.rs kind=enum name=SessionState clone
//@@ end
//@@ type file=fe2o3-amqp-types/src/performatives/transfer.rs kind=struct name=Transfer clone
//@@ end
//@@ type file=fe2o3-amqp-types/src/performatives/flow.rs kind=struct name=Flow clone
//@@ end
//@@ type file=fe2o3-amqp-types/src/performatives/begin.rs kind=struct name=Begin clone
//@@ subst `Option<Array<Symbol>>` => `Option<Vec<Symbol>>`
//@@ end
//@@ type file=fe2o3-amqp-types/src/performatives/disposition.rs kind=struct name=Disposition clone
//@@ end
//@@ type file=fe2o3-amqp-types/src/performatives/end.rs kind=struct name=End
//@@ subst `Option<Error>` => `Option<AmqpError>` rule=optional
//@@ end
//@@ type file=fe2o3-amqp-types/src/performatives/detach.rs kind=struct name=Detach
//@@ subst `Option<Error>` => `Option<AmqpError>` rule=optional
//@@ end
//@@ type file=fe2o3-amqp/src/endpoint/mod.rs kind=struct name=LinkFlow
//@@ end
//@@ type file=fe2o3-amqp/src/session/frame.rs kind=struct name=SessionFrame
//@@ end
//@@ type file=fe2o3-amqp/src/session/frame.rs kind=enum name=SessionFrameBody
//@@ end
//@@ type file=fe2o3-amqp/src/session/frame.rs kind=enum name=SessionOutgoingItem
//@@ end

// Attach: only the three fields the session reads are kept; the rest is one opaque field.
pub struct Attach {
    pub name: String,
    pub handle: Handle,
    pub rcv_settle_mode: ReceiverSettleMode,
    pub rest: AttachRest,
}

impl SessionFrame {
//@@ fn file=fe2o3-amqp/src/session/frame.rs impl=`impl SessionFrame` name=new
//@@ param channel : OutgoingChannel
//@@ subst `channel.into()` => `channel.0` rule=R16
//@@ spec
    ensures r.channel == channel.0, r.body == body,
//@@ end
}

//@@ type file=fe2o3-amqp/src/session/mod.rs kind=struct name=Session
//@@ subst `Arc<OnceLock<SessionStopReason>>` => `OnceCell<SessionStopReason>` rule=R8
//@@ subst `Arc<OnceLock<ConnectionStopReason>>` => `OnceCell<ConnectionStopReason>` rule=R8
//@@ end

// Arc<OnceLock<R>>  (R8): write-once cell
#[verifier::external_body]
#[verifier::reject_recursive_types(T)]
pub struct OnceCell<T> { c: Option<T> }
impl<T> OnceCell<T> {
    /// `Arc::new(OnceLock::new())`: a new, empty cell
    #[verifier::external_body]
    pub fn new_empty() -> (r: Self) { unimplemented!() }
}
impl<T> OnceCell<T> {
    pub uninterp spec fn val(&self) -> Option<T>;
    #[verifier::external_body]
    pub fn get(&self) -> (r: Option<&T>)
        ensures match r { Some(v) => self.val() == Some(*v), None => self.val() is None },
    { unimplemented!() }
    #[verifier::external_body]
    pub fn set(&mut self, v: T) -> (r: Result<(), T>)
        ensures
            old(self).val() is None ==> r is Ok && final(self).val() == Some(v),
            old(self).val() is Some ==> r is Err && final(self).val() == old(self).val(),
    { unimplemented!() }
}

// ---------------------------------------------------------------------------------------------
// the session's view of a link: ghost call log

// tokio mpsc::Sender<T> (R9): ghost trace of what was queued
pub struct ChanSender<T> { pub sent: Ghost<Seq<T>> }
pub struct ChanSendError { pub _p: u8 }
impl<T> ChanSender<T> {
    #[verifier::external_body]
    pub fn send(&mut self, v: T) -> (r: Result<(), ChanSendError>)
        ensures
            r is Ok ==> final(self).sent@ == old(self).sent@.push(v),
            r is Err ==> final(self).sent@ == old(self).sent@,
    { unimplemented!() }
}

#[verifier::external_body]
pub fn connection_stop_reason_or_closed(cell: &OnceCell<ConnectionStopReason>) -> (r: ConnectionStopReason) { unimplemented!() }

pub enum RelayCall {
    Disposition { role: Role, settled: bool, state: Option<DeliveryState>, tag: DeliveryTag },
    Flow { flow: LinkFlow },
    Transfer { transfer: Transfer, payload: Payload },
    Frame,
}

pub enum LinkRelay<O> {
    Sender { output_handle: O, receiver_settle_mode: ReceiverSettleMode, calls: Ghost<Seq<RelayCall>> },
    Receiver { output_handle: O, receiver_settle_mode: ReceiverSettleMode, more: bool, calls: Ghost<Seq<RelayCall>> },
}

impl<O> LinkRelay<O> {
    pub open spec fn calls(self) -> Seq<RelayCall> {
        match self { LinkRelay::Sender { calls, .. } => calls@, LinkRelay::Receiver { calls, .. } => calls@ }
    }
    pub open spec fn oh(self) -> O {
        match self { LinkRelay::Sender { output_handle, .. } => output_handle, LinkRelay::Receiver { output_handle, .. } => output_handle }
    }
    pub open spec fn rsm(self) -> ReceiverSettleMode {
        match self { LinkRelay::Sender { receiver_settle_mode, .. } => receiver_settle_mode, LinkRelay::Receiver { receiver_settle_mode, .. } => receiver_settle_mode }
    }
    pub open spec fn with_calls(self, c: Seq<RelayCall>) -> Self {
        match self {
            LinkRelay::Sender { output_handle, receiver_settle_mode, calls } => LinkRelay::Sender { output_handle, receiver_settle_mode, calls: Ghost(c) },
            LinkRelay::Receiver { output_handle, receiver_settle_mode, more, calls } => LinkRelay::Receiver { output_handle, receiver_settle_mode, more, calls: Ghost(c) },
        }
    }
}

pub open spec fn relay_with_handle(r: LinkRelay<()>, h: OutputHandle) -> LinkRelay<OutputHandle> {
    match r {
        LinkRelay::Sender { output_handle, receiver_settle_mode, calls } => LinkRelay::Sender { output_handle: h, receiver_settle_mode, calls },
        LinkRelay::Receiver { output_handle, receiver_settle_mode, more, calls } => LinkRelay::Receiver { output_handle: h, receiver_settle_mode, more, calls },
    }
}
impl LinkRelay<()> {
    #[verifier::external_body]
    pub fn with_output_handle(self, output_handle: OutputHandle) -> (r: LinkRelay<OutputHandle>)
        ensures r == relay_with_handle(self, output_handle),
    { unimplemented!() }
}
pub enum LinkFrame { Attach(Attach), Detach(Detach), Other }

/// ghost trace of LinkRelay::abandon_pending_deliveries (`&self`: the unsettled map sits behind an Arc<RwLock>): the relays whose waiters have been released
pub type ReleaseLog = Ghost<Set<LinkRelay<OutputHandle>>>;
impl LinkRelay<OutputHandle> {
    /// LinkRelay::abandon_pending_deliveries (unit LINK [C14.session-stop.every-waiter-released]) with the call recorded (R9)
    #[verifier::external_body]
    pub fn abandon_pending_deliveries_l(&self, log: &mut ReleaseLog)
        ensures final(log)@ == old(log)@.insert(*self),
    { unimplemented!() }
    #[verifier::external_body]
    pub fn send(&mut self, frame: LinkFrame) -> (r: Result<(), ChanSendError>)
        ensures final(self).oh() == old(self).oh(), final(self).rsm() == old(self).rsm(), (*final(self) is Sender) == (*old(self) is Sender),
    { unimplemented!() }

    #[verifier::external_body]
    pub fn on_incoming_detach(&mut self, detach: Detach) -> (r: Result<(), ChanSendError>)
        ensures final(self).oh() == old(self).oh(),
    { unimplemented!() }

    #[verifier::external_body]
    pub fn on_incoming_disposition(&mut self, role: Role, settled: bool, state: Option<DeliveryState>, delivery_tag: DeliveryTag) -> (echo: bool)
        ensures
            *final(self) == relay_after(*old(self), RelayCall::Disposition { role, settled, state, tag: delivery_tag }),
            echo == relay_echo(*old(self), settled, state),   // contract of the real LinkRelay::on_incoming_disposition, proved in unit LINKRELAY
    { unimplemented!() }

    #[verifier::external_body]
    pub fn on_incoming_flow(&mut self, flow: LinkFlow) -> (r: Result<Option<LinkFlow>, LinkRelayError>)
        ensures *final(self) == relay_after(*old(self), RelayCall::Flow { flow }),
            r is Ok ==> r->Ok_0 == relay_flow_answer(*old(self), flow),
    { unimplemented!() }

    #[verifier::external_body]
    pub fn on_incoming_transfer(&mut self, transfer: Transfer, payload: Payload) -> (r: Result<Option<(DeliveryNumber, DeliveryTag)>, LinkRelayError>)
        ensures *final(self) == relay_after(*old(self), RelayCall::Transfer { transfer, payload }),
            *old(self) is Receiver ==> r is Ok,      // [C13.drop.in-flight-transfer-discarded] of unit LINK: only a transfer addressed to a SENDING link is refused by the relay
    { unimplemented!() }
}

pub enum LinkRelayError { UnattachedHandle, TransferFrameToSender }
/// the flow a link owes the peer in answer to `flow` (unit LINKFLOW: the drain answer "delivery-count advanced over all credit, zero credit", the echo), None when nothing is owed
pub uninterp spec fn relay_flow_answer(relay: LinkRelay<OutputHandle>, flow: LinkFlow) -> Option<LinkFlow>;

pub open spec fn relay_after(r: LinkRelay<OutputHandle>, c: RelayCall) -> LinkRelay<OutputHandle> {
    r.with_calls(r.calls().push(c))
}
/// echo requested by a link for a disposition: only a sender whose peer settles second answers a non-settled disposition, and only one that reports a TERMINAL outcome
pub open spec fn relay_echo(r: LinkRelay<OutputHandle>, settled: bool, state: Option<DeliveryState>) -> bool {
    r is Sender && !settled && r.rsm() == ReceiverSettleMode::Second && state is Some && state->Some_0.spec_is_terminal()
}

//@@ type file=fe2o3-amqp/src/session/error.rs kind=enum name=SessionInnerError
//@@ end
//@@ type file=fe2o3-amqp/src/session/error.rs kind=enum name=SessionStateError
//@@ end
//@@ type file=fe2o3-amqp/src/session/error.rs kind=enum name=AllocLinkError
//@@ subst `crate::link::SessionStopReason` => `SessionStopReason`
//@@ end

impl From<LinkRelayError> for SessionInnerError {
    #[verifier::external_body]
    fn from(e: LinkRelayError) -> Self { SessionInnerError::from_relay(e) }
}
impl SessionInnerError {
    // `impl From<LinkRelayError> for SessionInnerError` (session/error.rs)
    pub fn from_relay(e: LinkRelayError) -> (r: Self) {
        match e {
            LinkRelayError::UnattachedHandle => SessionInnerError::UnattachedHandle,
            LinkRelayError::TransferFrameToSender => SessionInnerError::TransferFrameToSender,
        }
    }
}

// ---------------------------------------------------------------------------------------------
// specification vocabulary for C07 / C11 / C01

/// what on_outgoing_transfer_inner must do to the transfer performative
pub open spec fn stamped(t: Transfer, id: u32) -> Transfer {
    if t.delivery_tag is Some { Transfer { delivery_id: Some(id), ..t } } else { t }
}

pub open spec fn xfer_frame(ch: OutgoingChannel, t: Transfer, p: Payload, id: u32) -> SessionFrame {
    SessionFrame { channel: ch.0, body: SessionFrameBody::Transfer { performative: stamped(t, id), payload: p } }
}

pub open spec fn dt_after(m: Map<(Role, u32), (InputHandle, DeliveryTag)>, id: u32, h: InputHandle, t: Transfer)
    -> Map<(Role, u32), (InputHandle, DeliveryTag)> {
    if t.delivery_tag is Some && !(t.settled is Some && t.settled->Some_0) {
        m.insert((Role::Receiver, id), (h, t.delivery_tag->Some_0))
    } else { m }
}

/// flow-control view of the session
pub struct FC {
    pub noi: u32,
    pub riw: u32,
    pub dt: Map<(Role, u32), (InputHandle, DeliveryTag)>,
    pub out: Seq<SessionFrame>,
}

pub open spec fn fc_step(s: FC, ch: OutgoingChannel, e: (InputHandle, Transfer, Payload)) -> FC {
    FC {
        noi: add32(s.noi, 1),
        riw: if s.riw > 0 { (s.riw - 1) as u32 } else { 0 },
        dt: dt_after(s.dt, s.noi, e.0, e.1),
        out: s.out.push(xfer_frame(ch, e.1, e.2, s.noi)),
    }
}

pub open spec fn fc_run(s: FC, ch: OutgoingChannel, q: Seq<(InputHandle, Transfer, Payload)>) -> FC
    decreases q.len()
{
    if q.len() == 0 { s } else { fc_step(fc_run(s, ch, q.drop_last()), ch, q.last()) }
}

pub proof fn lemma_fc_run_counts(s: FC, ch: OutgoingChannel, q: Seq<(InputHandle, Transfer, Payload)>)
    requires q.len() <= s.riw,
    ensures
        fc_run(s, ch, q).noi == add32(s.noi, q.len() as int),
        fc_run(s, ch, q).riw == s.riw - q.len(),
        fc_run(s, ch, q).out.len() == s.out.len() + q.len(),
    decreases q.len(),
{
    if q.len() > 0 {
        lemma_fc_run_counts(s, ch, q.drop_last());
    }
}

/// how many AMQP frames the transport writes for this transfer: 1 if performative + payload fit the peer's max-frame-size, else the number of frames FrameEncoder::encode_transfer cuts it into
/// (unit FRAMEENC: `expected(max_frame_body_size, transfer, payload).len()`); the session does not know the peer's max-frame-size, so nothing is known about the value here
pub uninterp spec fn wire_frames(t: Transfer, p: Payload) -> nat;
pub type Links = Map<InputHandle, LinkRelay<OutputHandle>>;
pub type DTMap = Map<(Role, u32), (InputHandle, DeliveryTag)>;

/// disposition-routing view: links, delivery-id table, ids for which the link asked for a settling echo
pub struct DS { pub links: Links, pub dt: DTMap, pub echo_ids: Seq<u32> }

/// the delivery-id table without the entries (role, id) for id in ids
pub open spec fn remove_ids(dt: DTMap, role: Role, ids: Seq<u32>) -> DTMap
    decreases ids.len()
{
    if ids.len() == 0 { dt } else { remove_ids(dt, role, ids.drop_last()).remove((role, ids.last())) }
}
pub proof fn lemma_remove_ids_gone(dt: DTMap, role: Role, ids: Seq<u32>, i: int)
    requires 0 <= i < ids.len(),
    ensures !remove_ids(dt, role, ids).contains_key((role, ids[i])),
    decreases ids.len(),
{
    if i < ids.len() - 1 { lemma_remove_ids_gone(dt, role, ids.drop_last(), i); }
}

pub open spec fn disp_step(s: DS, role: Role, settled: bool, state: Option<DeliveryState>, id: u32) -> DS {
    let key = (role, id);
    if s.dt.contains_key(key) {
        let h = s.dt[key].0;
        let tag = s.dt[key].1;
        let dt2 = if settled { s.dt.remove(key) } else { s.dt };
        if s.links.contains_key(h) {
            DS {
                links: s.links.insert(h, relay_after(s.links[h], RelayCall::Disposition { role, settled, state, tag })),
                dt: dt2,
                echo_ids: if relay_echo(s.links[h], settled, state) { s.echo_ids.push(id) } else { s.echo_ids },
            }
        } else { DS { dt: dt2, ..s } }
    } else { s }
}

pub open spec fn disp_run(s: DS, role: Role, settled: bool, state: Option<DeliveryState>, first: u32, n: nat) -> DS
    decreases n
{
    if n == 0 { s } else { disp_step(disp_run(s, role, settled, state, first, (n - 1) as nat), role, settled, state, (first + n - 1) as u32) }
}

pub open spec fn range_count(first: u32, last: u32) -> nat {
    if last >= first { (last - first + 1) as nat } else { 0 }
}

/// run boundaries of the echo list: 0, the chunk indices, len
pub open spec fn run_bound(ci: Seq<usize>, len: int, k: int) -> int {
    if k <= 0 { 0 } else if k <= ci.len() { ci[k - 1] as int } else { len }
}

pub open spec fn strictly_ascending(ids: Seq<u32>) -> bool {
    forall|i: int, j: int| 0 <= i < j < ids.len() ==> ids[i] < ids[j]
}

/// the positions at which a new run of consecutive ids starts: ascending p in 1..len such that ids[p] is not the successor of ids[p-1]
pub open spec fn cp_upto(ids: Seq<u32>, w: int) -> Seq<usize>
    decreases w,
{
    if w <= 0 { Seq::<usize>::empty() } else {
        let prev = cp_upto(ids, w - 1);
        if ids[w] - ids[w - 1] != 1 { prev.push(w as usize) } else { prev }
    }
}
#[verifier::opaque]
pub open spec fn chunk_positions(ids: Seq<u32>) -> Seq<usize> { cp_upto(ids, ids.len() - 1) }
pub open spec fn chunk_positions_ok(ci: Seq<usize>, ids: Seq<u32>) -> bool {
    &&& (forall|k: int| 0 <= k < ci.len() ==> 0 < #[trigger] ci[k] < ids.len())
    &&& (forall|i: int, j: int| 0 <= i < j < ci.len() ==> ci[i] < ci[j])
    &&& (forall|p: int| 0 < p < ids.len() ==> (ci.contains(p as usize) <==> (#[trigger] ids[p]) - ids[p - 1] != 1))
}
pub proof fn lemma_cp_upto(ids: Seq<u32>, w: int)
    requires 0 <= w < ids.len() || (w == 0 && ids.len() == 0), w <= usize::MAX,
    ensures
        forall|k: int| 0 <= k < cp_upto(ids, w).len() ==> 0 < #[trigger] cp_upto(ids, w)[k] <= w,
        forall|i: int, j: int| 0 <= i < j < cp_upto(ids, w).len() ==> cp_upto(ids, w)[i] < cp_upto(ids, w)[j],
        forall|p: int| 0 < p <= w ==> (cp_upto(ids, w).contains(p as usize) <==> (#[trigger] ids[p]) - ids[p - 1] != 1),
    decreases w,
{
    if w > 0 {
        lemma_cp_upto(ids, w - 1);
        let prev = cp_upto(ids, w - 1);
        let cur = cp_upto(ids, w);
        if ids[w] - ids[w - 1] != 1 {
            assert(cur == prev.push(w as usize));
            assert(cur[prev.len() as int] == w as usize);
        }
        assert forall|p: int| 0 < p <= w implies (cur.contains(p as usize) <==> (#[trigger] ids[p]) - ids[p - 1] != 1) by {
            if p < w {
                if prev.contains(p as usize) { let k = choose|k: int| 0 <= k < prev.len() && prev[k] == p as usize; assert(cur[k] == p as usize); }
                if cur.contains(p as usize) { let k = choose|k: int| 0 <= k < cur.len() && cur[k] == p as usize; if k < prev.len() { assert(prev[k] == p as usize); } }
            } else {
                if cur.contains(p as usize) { let k = choose|k: int| 0 <= k < cur.len() && cur[k] == p as usize; if k < prev.len() { assert(prev[k] <= w - 1); } }
            }
        }
    }
}

//@@ trusted R34: `E.windows(2).enumerate().filter_map(|(i, w)| BODY).collect()` is written as the loop std's adapters perform -- for w0 in 0..len-1 (none when len < 2): i = w0, w = &E[w0..w0+2], the value of BODY, when Some, is appended -- with BODY copied token for token; slice_window2 is `&s[w..w + 2]`. The agreement probes `verif-falsify C02.cci-session | C02.cci-receiver` run the real functions against an independent oracle (bounded)
#[verifier::external_body]
pub fn slice_window2<T>(s: &[T], w: usize) -> (r: &[T])
    requires w + 2 <= s@.len(),
    ensures r@ == s@.subrange(w as int, w + 2),
{ &s[w..w + 2] }

//@@ fn file=fe2o3-amqp/src/util/mod.rs name=is_consecutive
//@@ spec
    requires *left <= *right,        // (the subtraction: callers pass ids in ascending order)
    ensures r == (*right - *left == 1),
//@@ end

//@@ fn file=fe2o3-amqp/src/session/mod.rs name=consecutive_chunk_indices
//@@ attr #[verifier::loop_isolation(false)]
//@@ shape loops=while
//@@ attr #[verifier::spinoff_prover]
//@@ param delivery_ids : &[u32]
//@@ subst `delivery_ids .windows(2) .enumerate() .filter_map(|(__E1, __E2)| __E3) .collect()` => `{ let mut __fm_out: Vec<usize> = Vec::new(); let mut __fm_w: usize = 0; while __fm_w < delivery_ids.len().saturating_sub(1) { let __E1 = __fm_w; let __E2 = slice_window2(delivery_ids, __fm_w); let __fm_o: Option<usize> = __E3; if let Some(__fm_v) = __fm_o { __fm_out.push(__fm_v); } __fm_w += 1; } proof { reveal(chunk_positions); lemma_cp_upto(delivery_ids@, __fm_w as int); } __fm_out }` rule=R34
//@@ spec
    requires strictly_ascending(delivery_ids@),   // is_consecutive computes right - left
    ensures
        r@ == chunk_positions(delivery_ids@),                     // [C02.echo.run-boundaries] the echo list is cut exactly where the next id is not the successor of the previous one
        chunk_positions_ok(r@, delivery_ids@),
//@@ loop 0
        invariant
            delivery_ids@.len() >= 1 ==> __fm_w <= delivery_ids@.len() - 1, delivery_ids@.len() == 0 ==> __fm_w == 0,
            strictly_ascending(delivery_ids@),
            __fm_out@ == cp_upto(delivery_ids@, __fm_w as int),                     // [C02.echo.run-boundaries]
        decreases delivery_ids@.len() - __fm_w,
//@@ loopstart 0
            proof {
                assert(delivery_ids@.subrange(__fm_w as int, __fm_w + 2)[0] == delivery_ids@[__fm_w as int]);
                assert(delivery_ids@.subrange(__fm_w as int, __fm_w + 2)[1] == delivery_ids@[__fm_w + 1]);
            }
//@@ end

pub proof fn lemma_disp_run_keeps_echo_sorted(s: DS, role: Role, settled: bool, state: Option<DeliveryState>, first: u32, n: nat)
    requires s.echo_ids.len() == 0, first + n <= 0x1_0000_0000,
    ensures
        strictly_ascending(disp_run(s, role, settled, state, first, n).echo_ids),
        forall|i: int| 0 <= i < disp_run(s, role, settled, state, first, n).echo_ids.len() ==>
            first <= #[trigger] disp_run(s, role, settled, state, first, n).echo_ids[i] < first + n,
    decreases n,
{
    if n > 0 {
        lemma_disp_run_keeps_echo_sorted(s, role, settled, state, first, (n - 1) as nat);
    }
}

pub proof fn lemma_fc_run_out(s: FC, ch: OutgoingChannel, q: Seq<(InputHandle, Transfer, Payload)>)
    ensures
        fc_run(s, ch, q).out =~= s.out + fc_run(FC { out: Seq::empty(), ..s }, ch, q).out,
        fc_run(s, ch, q).noi == fc_run(FC { out: Seq::empty(), ..s }, ch, q).noi,
        fc_run(s, ch, q).riw == fc_run(FC { out: Seq::empty(), ..s }, ch, q).riw,
        fc_run(s, ch, q).dt == fc_run(FC { out: Seq::empty(), ..s }, ch, q).dt,
    decreases q.len(),
{
    if q.len() > 0 {
        lemma_fc_run_out(s, ch, q.drop_last());
    }
}

impl Session {
    pub open spec fn fc(&self, out: Seq<SessionFrame>) -> FC {
        FC { noi: self.next_outgoing_id, riw: self.remote_incoming_window, dt: self.delivery_tag_by_id@, out }
    }

    /// every field except the flow-control triple (next_outgoing_id, remote_incoming_window, delivery_tag_by_id)
    /// and the hold-back buffer is unchanged
    pub open spec fn same_outside_fc(&self, o: &Session) -> bool {
        &&& self.same_outside_fc_core(o)
        &&& self.link_name_by_output_handle == o.link_name_by_output_handle
        &&& self.link_by_name == o.link_by_name
        &&& self.link_by_input_handle == o.link_by_input_handle
    }

    pub open spec fn same_outside_fc_core(&self, o: &Session) -> bool {
        &&& self.outgoing_channel == o.outgoing_channel
        &&& self.session_stop_reason == o.session_stop_reason
        &&& self.connection_stop_reason == o.connection_stop_reason
        &&& self.local_state == o.local_state
        &&& self.initial_outgoing_id == o.initial_outgoing_id
        &&& self.incoming_window == o.incoming_window
        &&& self.outgoing_window == o.outgoing_window
        &&& self.handle_max == o.handle_max
        &&& self.incoming_channel == o.incoming_channel
        &&& self.next_incoming_id == o.next_incoming_id
        &&& self.need_flow_count == o.need_flow_count
        &&& self.remote_outgoing_window == o.remote_outgoing_window
        &&& self.offered_capabilities == o.offered_capabilities
        &&& self.desired_capabilities == o.desired_capabilities
        &&& self.properties == o.properties
    }

//@@ fn file=fe2o3-amqp/src/session/mod.rs impl=`impl Session` name=on_outgoing_transfer_inner
//@@ spec
    requires
        old(self).remote_incoming_window > 0,   // [C07.window.safety] a transfer frame is emitted only inside the peer's window
    ensures
        r is Ok,                                                                            // [C07.inner.total]
        r->Ok_0 == xfer_frame(old(self).outgoing_channel, transfer, payload, old(self).next_outgoing_id),   // [C11.delivery-id.stamp] [C01.session.payload-untouched] a frame carrying a tag is stamped with next-outgoing-id; payload and other fields untouched
        final(self).next_outgoing_id == add32(old(self).next_outgoing_id, wire_frames(transfer, payload) as int),   // [C07.inner.transfer-id-per-wire-frame] [C01.session.transfer-id-per-wire-frame] the session's transfer-id accounting counts WIRE frames: a transfer that the transport's encoder cuts into k frames (payload larger than the peer's max-frame-size: FrameEncoder::encode_transfer, unit FRAMEENC) takes k transfer-ids and k units of the peer's incoming window -- the peer counts every transfer frame it receives
        final(self).next_outgoing_id == add32(old(self).next_outgoing_id, 1),                              // [C07.inner.next-outgoing-id] advances once per (session-level) frame sent [C11.delivery-id.increasing] so successive stamped deliveries get strictly increasing (serial) ids, never reused
        final(self).remote_incoming_window == old(self).remote_incoming_window - 1,                         // [C07.inner.window] decremented once per frame sent
        final(self).delivery_tag_by_id@ == dt_after(old(self).delivery_tag_by_id@, old(self).next_outgoing_id, input_handle, transfer),  // [C02.register] unsettled delivery registered under (Receiver, id) with its own handle and tag; nothing else touched
        final(self).same_outside_fc(old(self)),                                             // [C07.inner.frame]
        final(self).remote_incoming_window_exhausted_buffer == old(self).remote_incoming_window_exhausted_buffer,  // [C07.inner.buffer-untouched]
//@@ end


//@@ fn file=fe2o3-amqp/src/session/mod.rs impl=`impl Session` name=on_outgoing_session_flow
//@@ spec
    ensures
        r.channel == self.outgoing_channel.0,                       // [C07.report.channel]
        r.body == SessionFrameBody::Flow(Flow {                      // [C07.report.session-flow] reported state == current counters
            next_incoming_id: Some(self.next_incoming_id),
            incoming_window: self.incoming_window,
            next_outgoing_id: self.next_outgoing_id,
            outgoing_window: self.outgoing_window,
            handle: None, delivery_count: None, link_credit: None, available: None,
            drain: false, echo: false, properties: None,
        }),
//@@ end

//@@ fn file=fe2o3-amqp/src/session/mod.rs impl=`impl Session` name=prepare_session_frames_from_buffered_transfers
//@@ shape loops=while;stmt-1=Ok (
//@@ spec
    ensures
        r is Ok,                                                                                          // [C07.drain.total]
        ({
            let n = if old(self).remote_incoming_window as int <= old(self).remote_incoming_window_exhausted_buffer@.len() { old(self).remote_incoming_window as int } else { old(self).remote_incoming_window_exhausted_buffer@.len() as int };
            &&& final(self).fc(r->Ok_0@) == fc_run(old(self).fc(output_frame_buffer@), old(self).outgoing_channel, old(self).remote_incoming_window_exhausted_buffer@.take(n))   // [C07.buffer.fifo] emitted ++ kept == held back, in order, each stamped once
            &&& final(self).remote_incoming_window_exhausted_buffer@ == old(self).remote_incoming_window_exhausted_buffer@.skip(n)                                              // [C07.buffer.no-loss]
            &&& final(self).remote_incoming_window == old(self).remote_incoming_window - n                                                                                     // [C07.drain.window-accounting]
            &&& final(self).next_outgoing_id == add32(old(self).next_outgoing_id, n)                                                                                           // [C07.drain.id-accounting] next-outgoing-id advances by exactly the number of frames emitted
            &&& r->Ok_0@.len() == output_frame_buffer@.len() + n                                                                                                               // [C07.drain.count]
            &&& r->Ok_0@ =~= output_frame_buffer@ + fc_run(old(self).fc(Seq::empty()), old(self).outgoing_channel, old(self).remote_incoming_window_exhausted_buffer@.take(n)).out   // [C07.drain.prefix] frames already queued stay in front, released transfers follow
            &&& final(self).delivery_tag_by_id@ == fc_run(old(self).fc(Seq::empty()), old(self).outgoing_channel, old(self).remote_incoming_window_exhausted_buffer@.take(n)).dt    // [C02.register.drain]
        }),
        final(self).remote_incoming_window == 0 || final(self).remote_incoming_window_exhausted_buffer@.len() == 0,   // [C07.drain.complete] nothing stays held back while the window is open
        final(self).same_outside_fc(old(self)),                                                           // [C07.drain.frame]
//@@ entry
        let ghost out0 = output_frame_buffer@;
//@@ loop 0
        invariant
            self.same_outside_fc(old(self)),
            self.remote_incoming_window_exhausted_buffer@.len() <= old(self).remote_incoming_window_exhausted_buffer@.len(),
            ({
                let i = old(self).remote_incoming_window_exhausted_buffer@.len() - self.remote_incoming_window_exhausted_buffer@.len();
                &&& i <= old(self).remote_incoming_window
                &&& self.remote_incoming_window_exhausted_buffer@ == old(self).remote_incoming_window_exhausted_buffer@.skip(i)
                &&& self.fc(output_frame_buffer@) == fc_run(old(self).fc(out0), old(self).outgoing_channel, old(self).remote_incoming_window_exhausted_buffer@.take(i))
                &&& self.remote_incoming_window == old(self).remote_incoming_window - i
            }),
        ensures
            self.remote_incoming_window == 0 || self.remote_incoming_window_exhausted_buffer@.len() == 0,
        decreases self.remote_incoming_window,
//@@ stmt -1
        proof {
            let q = old(self).remote_incoming_window_exhausted_buffer@;
            let n = if old(self).remote_incoming_window as int <= q.len() { old(self).remote_incoming_window as int } else { q.len() as int };
            lemma_fc_run_counts(old(self).fc(out0), old(self).outgoing_channel, q.take(n));
            lemma_fc_run_out(old(self).fc(out0), old(self).outgoing_channel, q.take(n));
        }
//@@ loopstart 0
            let ghost i0 = old(self).remote_incoming_window_exhausted_buffer@.len() - self.remote_incoming_window_exhausted_buffer@.len();
//@@ loopend 0
            proof {
                let q = old(self).remote_incoming_window_exhausted_buffer@;
                assert(q.take(i0 + 1).drop_last() =~= q.take(i0));
                assert(q.take(i0 + 1).last() == q[i0]);
                assert(q.skip(i0).skip(1) =~= q.skip(i0 + 1));
            }
//@@ end

//@@ fn file=fe2o3-amqp/src/session/mod.rs impl=`impl Session` name=prepare_session_frames_from_buffered_and_current_transfers
//@@ shape stmt-2=if self
//@@ spec
    ensures
        r is Ok,                                                                                          // [C07.cur.total]
        ({
            let q = old(self).remote_incoming_window_exhausted_buffer@.push((cur_input_handle, cur_transfer, cur_payload));
            let m = if old(self).remote_incoming_window as int <= q.len() { old(self).remote_incoming_window as int } else { q.len() as int };
            &&& final(self).fc(r->Ok_0@) == fc_run(old(self).fc(output_frame_buffer@), old(self).outgoing_channel, q.take(m))   // [C07.buffer.fifo-current] held-back transfers go first, the current one last; each once
            &&& final(self).remote_incoming_window_exhausted_buffer@ == q.skip(m)                                               // [C07.buffer.no-loss-current] whatever is not sent is kept, in order
        }),
        final(self).remote_incoming_window == 0 || final(self).remote_incoming_window_exhausted_buffer@.len() == 0,   // [C07.cur.drain]
        final(self).same_outside_fc(old(self)),                                                           // [C07.cur.frame]
//@@ stmt -2
        proof {
            let b = old(self).remote_incoming_window_exhausted_buffer@;
            let q = b.push((cur_input_handle, cur_transfer, cur_payload));
            let n = if old(self).remote_incoming_window as int <= b.len() { old(self).remote_incoming_window as int } else { b.len() as int };
            assert(q.take(n) =~= b.take(n));
            if self.remote_incoming_window > 0 {
                assert(n == b.len());
                assert(q.take(n + 1) =~= q);
                assert(q.drop_last() =~= b);
                assert(b.take(n) =~= b);
                assert(q.skip(n + 1) =~= Seq::empty());
                assert(b.skip(n) =~= Seq::empty());
            } else {
                assert(q.skip(n) =~= b.skip(n).push((cur_input_handle, cur_transfer, cur_payload)));
            }
        }
//@@ end

    /// frames carried by an outgoing item
    pub open spec fn item_frames(o: Option<SessionOutgoingItem>) -> Seq<SessionFrame> {
        match o {
            None => Seq::empty(),
            Some(SessionOutgoingItem::SingleFrame(f)) => seq![f],
            Some(SessionOutgoingItem::MultipleFrames(v)) => v@,
        }
    }

//@@ fn file=fe2o3-amqp/src/session/mod.rs impl=`impl endpoint::Session for Session` name=on_outgoing_transfer
//@@ subst `.map(SessionOutgoingItem::MultipleFrames)` => `.map(|v0: Vec<SessionFrame>| -> (o: SessionOutgoingItem) ensures o == SessionOutgoingItem::MultipleFrames(v0) { SessionOutgoingItem::MultipleFrames(v0) })` rule=R18 unless `\.map\(`
//@@ subst `.map(Some)` => `.map(|v0: SessionOutgoingItem| -> (o: Option<SessionOutgoingItem>) ensures o == Some(v0) { Some(v0) })` rule=R18 unless `\.map\(`
//@@ spec
    ensures
        r is Ok,                                                                                          // [C07.send.total]
        ({
            let q = old(self).remote_incoming_window_exhausted_buffer@.push((input_handle, transfer, payload));
            let m = if old(self).remote_incoming_window as int <= q.len() { old(self).remote_incoming_window as int } else { q.len() as int };
            &&& final(self).fc(Self::item_frames(r->Ok_0)) == fc_run(old(self).fc(Seq::empty()), old(self).outgoing_channel, q.take(m))   // [C07.send.fifo] [C01.session.fifo] frames emitted are exactly the first m of (held-back ++ [current]), in order, each stamped with consecutive ids
            &&& final(self).remote_incoming_window_exhausted_buffer@ == q.skip(m)                                                         // [C07.send.no-loss] [C01.session.no-loss] the rest stays held back in order (nothing dropped / duplicated / reordered)
            &&& Self::item_frames(r->Ok_0).len() == m                                                                                     // [C07.send.within-window] number of frames emitted never exceeds the peer's remaining window
            &&& final(self).next_outgoing_id == add32(old(self).next_outgoing_id, m)                                                      // [C07.send.id-accounting]
            &&& final(self).remote_incoming_window == old(self).remote_incoming_window - m                                                // [C07.send.window-accounting]
        }),
        final(self).remote_incoming_window == 0 || final(self).remote_incoming_window_exhausted_buffer@.len() == 0,   // [C07.send.drain]
        final(self).same_outside_fc(old(self)),                                                           // [C07.send.frame]
//@@ entry
        proof {
            let b = old(self).remote_incoming_window_exhausted_buffer@;
            let cur = (input_handle, transfer, payload);
            let q = b.push(cur);
            let m = if old(self).remote_incoming_window as int <= q.len() { old(self).remote_incoming_window as int } else { q.len() as int };
            let ch = old(self).outgoing_channel;
            lemma_fc_run_counts(old(self).fc(Seq::empty()), ch, q.take(m));
            assert(q.take(0) =~= Seq::empty());
            assert(q.skip(0) =~= q);
            if b.len() == 0 && old(self).remote_incoming_window > 0 {
                assert(q.take(1).drop_last() =~= Seq::empty());
                assert(q.take(1).last() == cur);
                assert(q.skip(1) =~= Seq::empty());
                assert(fc_run(old(self).fc(Seq::empty()), ch, q.take(1).drop_last()) == old(self).fc(Seq::empty()));
                assert(Seq::<SessionFrame>::empty().push(xfer_frame(ch, transfer, payload, old(self).next_outgoing_id)) =~= seq![xfer_frame(ch, transfer, payload, old(self).next_outgoing_id)]);
            }
        }
//@@ end

    /// remote-incoming-window recomputed from a peer statement (base = the peer's next-incoming-id, or our
    /// initial-outgoing-id when it is unset; iw = the peer's incoming-window), in RFC-1982 serial arithmetic:
    /// the peer accepts ids base .. base+iw-1; `noi - base` of them are already used.
    pub open spec fn window_from_peer(base: u32, iw: u32, noi: u32) -> u32 {
        let used = sub32(noi, base);
        if iw >= used { (iw - used) as u32 } else { 0 }
    }

    pub open spec fn same_outside_flow(&self, o: &Session) -> bool {
        &&& self.outgoing_channel == o.outgoing_channel
        &&& self.session_stop_reason == o.session_stop_reason
        &&& self.connection_stop_reason == o.connection_stop_reason
        &&& self.local_state == o.local_state
        &&& self.initial_outgoing_id == o.initial_outgoing_id
        &&& self.incoming_window == o.incoming_window
        &&& self.outgoing_window == o.outgoing_window
        &&& self.handle_max == o.handle_max
        &&& self.incoming_channel == o.incoming_channel
        &&& self.need_flow_count == o.need_flow_count
        &&& self.offered_capabilities == o.offered_capabilities
        &&& self.desired_capabilities == o.desired_capabilities
        &&& self.properties == o.properties
        &&& self.link_name_by_output_handle == o.link_name_by_output_handle
        &&& self.link_by_name == o.link_by_name
    }

    /// effect of routing one call to the relay registered under `h` (C11): that relay's log grows by `c`,
    /// every other relay and the key set are untouched
    pub open spec fn routed(old_m: Map<InputHandle, LinkRelay<OutputHandle>>, new_m: Map<InputHandle, LinkRelay<OutputHandle>>, h: InputHandle, c: RelayCall) -> bool {
        &&& old_m.contains_key(h)
        &&& new_m.dom() =~= old_m.dom()
        &&& new_m[h] == relay_after(old_m[h], c)
        &&& forall|k: InputHandle| k != h && old_m.contains_key(k) ==> #[trigger] new_m[k] == old_m[k]
    }

//@@ fn file=fe2o3-amqp/src/endpoint/mod.rs impl=`impl TryFrom<Flow> for LinkFlow` name=try_from as=linkflow_try_from
//@@ ret Result<LinkFlow, ()>
//@@ spec
    ensures
        value.handle is None ==> r is Err,
        value.handle is Some ==> r == Ok::<LinkFlow, ()>(LinkFlow {
            handle: value.handle->Some_0, delivery_count: value.delivery_count, link_credit: value.link_credit,
            available: value.available, drain: value.drain, echo: value.echo, properties: value.properties }),     // [C08.flow.link-part-unchanged] [C09.flow.link-part-unchanged] the link part of a flow frame reaches the link as the peer sent it: an absent delivery-count stays absent (the sender then falls back to its initial delivery-count), credit, drain, echo and available unchanged
//@@ end

//@@ fn file=fe2o3-amqp/src/session/mod.rs impl=`impl Session` name=on_incoming_flow_inner
//@@ subst `LinkFlow::try_from(flow)` => `Self::linkflow_try_from(flow)` rule=R16
//@@ subst `InputHandle::from(` => `handle_to_input(` rule=R16
//@@ subst `.map_err(Into::into)` => `.map_err(|e: LinkRelayError| -> (o: SessionInnerError) { SessionInnerError::from_relay(e) })` rule=R17 unless `\.map_err\(`
//@@ spec
    ensures
        final(self).next_incoming_id == flow.next_outgoing_id,                  // [C07.flow.next-incoming-id] taken from the peer's statement
        final(self).remote_outgoing_window == flow.outgoing_window,             // [C07.flow.remote-outgoing-window]
        final(self).remote_incoming_window == Self::window_from_peer(           // [C07.flow.recompute] next-incoming-id_flow + incoming-window_flow - next-outgoing-id in serial arithmetic
            if flow.next_incoming_id is Some { flow.next_incoming_id->Some_0 } else { old(self).initial_outgoing_id.0 },
            flow.incoming_window, old(self).next_outgoing_id),
        final(self).next_outgoing_id == old(self).next_outgoing_id,             // [C07.flow.frame-noi]
        final(self).delivery_tag_by_id == old(self).delivery_tag_by_id,         // [C07.flow.frame-dt]
        final(self).remote_incoming_window_exhausted_buffer == old(self).remote_incoming_window_exhausted_buffer,   // [C07.flow.frame-buffer]
        final(self).same_outside_flow(old(self)),                               // [C07.flow.frame]
        // routing (C11 / C15): the link flow reaches exactly the relay attached under the frame's handle
        flow.handle is None ==> r == Ok::<Option<LinkFlow>, SessionInnerError>(None) && final(self).link_by_input_handle == old(self).link_by_input_handle,   // [C11.route.flow-session-only]
        flow.handle is Some && !old(self).link_by_input_handle@.contains_key(InputHandle(flow.handle->Some_0.0))
            ==> r == Err::<Option<LinkFlow>, SessionInnerError>(SessionInnerError::UnattachedHandle) && final(self).link_by_input_handle@ == old(self).link_by_input_handle@,   // [C15.flow.unattached] unknown handle => error, nothing touched
        flow.handle is Some && old(self).link_by_input_handle@.contains_key(InputHandle(flow.handle->Some_0.0))
            ==> Self::routed(old(self).link_by_input_handle@, final(self).link_by_input_handle@, InputHandle(flow.handle->Some_0.0),
                    RelayCall::Flow { flow: LinkFlow { handle: flow.handle->Some_0, delivery_count: flow.delivery_count, link_credit: flow.link_credit,
                        available: flow.available, drain: flow.drain, echo: flow.echo, properties: flow.properties } }),   // [C11.route.flow]
        flow.handle is Some && old(self).link_by_input_handle@.contains_key(InputHandle(flow.handle->Some_0.0)) && r is Ok
            ==> r->Ok_0 == Self::owed_answer(old(self).link_by_input_handle@, flow),      // [C08.flow.link-answer-handed-on] what the link answers is handed on unchanged
//@@ end

    /// the flow the link attached under the frame's handle owes in answer to it
    pub open spec fn owed_answer(links: Map<InputHandle, LinkRelay<OutputHandle>>, flow: Flow) -> Option<LinkFlow> {
        if flow.handle is Some && links.contains_key(InputHandle(flow.handle->Some_0.0)) {
            relay_flow_answer(links[InputHandle(flow.handle->Some_0.0)], LinkFlow { handle: flow.handle->Some_0, delivery_count: flow.delivery_count, link_credit: flow.link_credit,
                available: flow.available, drain: flow.drain, echo: flow.echo, properties: flow.properties })
        } else { None }
    }

    pub open spec fn flow_frame_reports(&self, f: SessionFrame, nii: u32, noi: u32) -> bool {
        &&& f.channel == self.outgoing_channel.0
        &&& f.body is Flow
        &&& f.body->Flow_0.next_incoming_id == Some(nii)
        &&& f.body->Flow_0.incoming_window == self.incoming_window
        &&& f.body->Flow_0.next_outgoing_id == noi
        &&& f.body->Flow_0.outgoing_window == self.outgoing_window
    }

//@@ fn file=fe2o3-amqp/src/session/mod.rs impl=`impl endpoint::Session for Session` name=abandon_pending_deliveries
//@@ shape loops=while,while;stmt1={ let
//@@ addparam log: &mut ReleaseLog
//@@ subst `relay.abandon_pending_deliveries()` => `relay.abandon_pending_deliveries_l(log)` rule=R9
//@@ spec
    ensures
        forall|k: InputHandle| old(self).link_by_input_handle@.contains_key(k) ==> final(log)@.contains(#[trigger] old(self).link_by_input_handle@[k]),   // [C14.session-stop.every-sending-relay-reached] when the session stops the waiters of EVERY link attached to it are released -- no attached link is skipped
        forall|n: String| old(self).link_by_name@.contains_key(n) && old(self).link_by_name@[n] is Some ==> final(log)@.contains(#[trigger] old(self).link_by_name@[n]->Some_0),   // [C14.session-stop.every-attaching-relay-reached] ... nor one whose attach has not been answered yet
        *final(self) == *old(self),
//@@ loop 0
        invariant
            *self == *old(self), __im0 <= self.link_by_input_handle.order().len(),
            forall|j: int| 0 <= j < __im0 ==> log@.contains(#[trigger] self.link_by_input_handle@[self.link_by_input_handle.order()[j]]),
        decreases self.link_by_input_handle.order().len() - __im0,
//@@ loop 1 optional
        invariant
            *self == *old(self), __im1 <= self.link_by_name.order().len(),
            forall|k: InputHandle| self.link_by_input_handle@.contains_key(k) ==> log@.contains(#[trigger] self.link_by_input_handle@[k]),
            forall|j: int| 0 <= j < __im1 && self.link_by_name@[self.link_by_name.order()[j]] is Some ==> log@.contains(#[trigger] self.link_by_name@[self.link_by_name.order()[j]]->Some_0),
        decreases self.link_by_name.order().len() - __im1,
//@@ stmt 1 optional
        proof {
            let ord = self.link_by_input_handle.order();
            assert forall|k: InputHandle| self.link_by_input_handle@.contains_key(k) implies log@.contains(#[trigger] self.link_by_input_handle@[k]) by {
                assert(ord.contains(k));
                let j = choose|j: int| 0 <= j < ord.len() && ord[j] == k;
                assert(log@.contains(self.link_by_input_handle@[ord[j]]));
            }
        }
//@@ exit
        proof {
            let ord = self.link_by_name.order();
            assert forall|n: String| self.link_by_name@.contains_key(n) && self.link_by_name@[n] is Some implies log@.contains(#[trigger] self.link_by_name@[n]->Some_0) by {
                assert(ord.contains(n));
                let j = choose|j: int| 0 <= j < ord.len() && ord[j] == n;
                assert(log@.contains(self.link_by_name@[ord[j]]->Some_0));
            }
        }
//@@ end

//@@ fn file=fe2o3-amqp/src/session/mod.rs impl=`impl endpoint::Session for Session` name=on_outgoing_attach
//@@ spec
    ensures
        r is Ok && r->Ok_0.channel == old(self).outgoing_channel.0 && r->Ok_0.body == SessionFrameBody::Attach(attach),   // [C11.channel.attach-on-its-sessions-channel] [C13.link.attach-frame-unchanged] a link's attach goes out unchanged on the channel of the session the link belongs to
        *final(self) == *old(self),
//@@ end

//@@ fn file=fe2o3-amqp/src/session/mod.rs impl=`impl endpoint::Session for Session` name=on_outgoing_flow
//@@ spec
    ensures
        r is Ok,                                                                 // [C07.report.flow-total]
        old(self).flow_frame_reports(r->Ok_0, old(self).next_incoming_id, old(self).next_outgoing_id),   // [C07.report.flow] a flow reports exactly the current next-incoming-id / next-outgoing-id / windows
        r->Ok_0.body->Flow_0.handle == Some(flow.handle),                      // [C09.report.link-fields] link fields are passed through unchanged
        r->Ok_0.body->Flow_0.delivery_count == flow.delivery_count,
        r->Ok_0.body->Flow_0.link_credit == flow.link_credit,
        r->Ok_0.body->Flow_0.available == flow.available,
        r->Ok_0.body->Flow_0.drain == flow.drain,
        r->Ok_0.body->Flow_0.echo == flow.echo,
        r->Ok_0.body->Flow_0.properties == flow.properties,
        *final(self) == *old(self),                                             // [C07.report.flow-pure]
//@@ end

//@@ fn file=fe2o3-amqp/src/session/mod.rs impl=`impl endpoint::Session for Session` name=on_incoming_flow
//@@ subst `outgoing_link_flow .map(|flow| self.on_outgoing_flow(flow)) .transpose()?` => `match outgoing_link_flow { Some(flow) => Some(self.on_outgoing_flow(flow)?), None => None }` rule=R19 unless `\.map\(`
//@@ subst `.map(SessionOutgoingItem::SingleFrame)` => `.map(|v0: SessionFrame| -> (o: SessionOutgoingItem) ensures o == SessionOutgoingItem::SingleFrame(v0) { SessionOutgoingItem::SingleFrame(v0) })` rule=R18 unless `\.map\(`
//@@ spec
    ensures
        final(self).next_incoming_id == flow.next_outgoing_id,                  // [C07.inflow.next-incoming-id]
        final(self).remote_outgoing_window == flow.outgoing_window,             // [C07.inflow.remote-outgoing-window]
        final(self).same_outside_flow(old(self)),                               // [C07.inflow.frame]
        r is Err ==> final(self).next_outgoing_id == old(self).next_outgoing_id
            && final(self).remote_incoming_window_exhausted_buffer == old(self).remote_incoming_window_exhausted_buffer
            && final(self).delivery_tag_by_id == old(self).delivery_tag_by_id,   // [C07.inflow.err-no-emission] a failed flow emits no transfer and loses none
        r is Ok ==> ({
            let frames = Self::item_frames(r->Ok_0);
            let b = old(self).remote_incoming_window_exhausted_buffer@;
            frames.len() > 0 && frames[0].body is Flow && frames[0].body->Flow_0.handle is Some
                ==> forall|i: int| 0 <= i < b.len() ==> (#[trigger] b[i]).1.handle != frames[0].body->Flow_0.handle->Some_0    // [C08.flow.answer-not-ahead-of-parked-deliveries] the flow a sending link owes in answer (drain: "delivery-count advanced over all credit, zero credit left"; echo) is not written AHEAD of deliveries of that link which already took credit and are still held back by the session window: the receiver would see delivery-count 10 / credit 0 and THEN a further delivery
        }),
        r is Ok && Self::owed_answer(old(self).link_by_input_handle@, flow) is Some ==> ({
            let frames = Self::item_frames(r->Ok_0);
            let a = Self::owed_answer(old(self).link_by_input_handle@, flow)->Some_0;
            frames.len() >= 1 && frames[0].body is Flow && frames[0].body->Flow_0.handle == Some(a.handle) && frames[0].body->Flow_0.delivery_count == a.delivery_count
                && frames[0].body->Flow_0.link_credit == a.link_credit && frames[0].body->Flow_0.drain == a.drain && frames[0].body->Flow_0.echo == a.echo
        }),                                                                       // [C08.flow.link-answer-written] the flow a link owes in answer to the peer's flow -- the drain answer that tells the receiver "all credit used up or given back: zero credit", the echo it asked for -- IS written, whatever else this flow triggers (a re-opened window that releases held-back transfers included)
        r is Ok ==> ({
            let frames = Self::item_frames(r->Ok_0);
            let w = Self::window_from_peer(
                if flow.next_incoming_id is Some { flow.next_incoming_id->Some_0 } else { old(self).initial_outgoing_id.0 },
                flow.incoming_window, old(self).next_outgoing_id);
            let b = old(self).remote_incoming_window_exhausted_buffer@;
            let n = if w as int <= b.len() { w as int } else { b.len() as int };
            let k = frames.len() - n;
            &&& 0 <= k <= 1                                                       // [C07.inflow.shape] at most one flow frame, then the released transfers
            &&& k == 1 ==> old(self).flow_frame_reports(frames[0], flow.next_outgoing_id, old(self).next_outgoing_id)   // [C07.inflow.flow-reports]
            &&& frames.skip(k) =~= fc_run(FC { noi: old(self).next_outgoing_id, riw: w, dt: old(self).delivery_tag_by_id@, out: Seq::empty() },
                    old(self).outgoing_channel, b.take(n)).out                    // [C07.inflow.release-fifo] [C01.session.release-fifo] when the peer reopens the window the held-back transfers are sent, oldest first, as many as the new window allows
            &&& final(self).delivery_tag_by_id@ == fc_run(FC { noi: old(self).next_outgoing_id, riw: w, dt: old(self).delivery_tag_by_id@, out: Seq::empty() },
                    old(self).outgoing_channel, b.take(n)).dt                     // [C02.register.inflow]
            &&& final(self).remote_incoming_window_exhausted_buffer@ == b.skip(n)   // [C07.inflow.no-loss] [C01.session.release-no-loss]
            &&& final(self).remote_incoming_window == w - n                       // [C07.inflow.window-accounting]
            &&& final(self).next_outgoing_id == add32(old(self).next_outgoing_id, n)   // [C07.inflow.id-accounting]
            &&& (final(self).remote_incoming_window == 0 || final(self).remote_incoming_window_exhausted_buffer@.len() == 0)   // [C07.inflow.drain] every held-back transfer is sent once the window allows
        }),
//@@ end

//@@ fn file=fe2o3-amqp/src/session/mod.rs impl=`impl endpoint::Session for Session` name=on_incoming_transfer
//@@ subst `InputHandle::from(` => `handle_to_input(` rule=R16
//@@ spec
    ensures
        final(self).next_incoming_id == add32(old(self).next_incoming_id, 1),      // [C07.recv.next-incoming-id] advances once per transfer frame received (serial arithmetic)
        final(self).remote_outgoing_window == (if old(self).remote_outgoing_window > 0 { (old(self).remote_outgoing_window - 1) as u32 } else { 0u32 }),   // [C07.recv.remote-outgoing-window]
        final(self).need_flow_count == (if old(self).need_flow_count < u32::MAX { (old(self).need_flow_count + 1) as u32 } else { u32::MAX }),           // [C07.recv.need-flow-count]
        final(self).next_outgoing_id == old(self).next_outgoing_id,
        final(self).remote_incoming_window == old(self).remote_incoming_window,
        final(self).remote_incoming_window_exhausted_buffer == old(self).remote_incoming_window_exhausted_buffer,
        final(self).same_outside_flow(old(self)) || true,
        final(self).outgoing_channel == old(self).outgoing_channel && final(self).local_state == old(self).local_state
            && final(self).incoming_window == old(self).incoming_window && final(self).outgoing_window == old(self).outgoing_window
            && final(self).link_by_name == old(self).link_by_name && final(self).link_name_by_output_handle == old(self).link_name_by_output_handle
            && final(self).initial_outgoing_id == old(self).initial_outgoing_id && final(self).incoming_channel == old(self).incoming_channel,   // [C07.recv.frame]
        // routing (C11/C10/C15)
        !old(self).link_by_input_handle@.contains_key(InputHandle(transfer.handle.0))
            ==> r == Err::<Option<Disposition>, SessionInnerError>(SessionInnerError::UnattachedHandle)
                && final(self).link_by_input_handle@ == old(self).link_by_input_handle@
                && final(self).delivery_tag_by_id == old(self).delivery_tag_by_id,     // [C15.transfer.unattached] a transfer for an unattached handle is an error and reaches no link
        old(self).link_by_input_handle@.contains_key(InputHandle(transfer.handle.0))
            ==> Self::routed(old(self).link_by_input_handle@, final(self).link_by_input_handle@, InputHandle(transfer.handle.0),
                    RelayCall::Transfer { transfer, payload }),                         // [C11.route.transfer] [C10.session.every-frame-reaches-its-link] [C01.session.every-frame-reaches-its-link] the frame (performative and payload unchanged) reaches exactly the link attached under its handle -- EVERY frame: also one without payload (its performative may be the only one of the delivery that carries delivery-id, tag and format)
        old(self).link_by_input_handle@.contains_key(InputHandle(transfer.handle.0)) && old(self).link_by_input_handle@[InputHandle(transfer.handle.0)] is Receiver ==> r is Ok,   // [C13.drop.in-flight-transfer-is-not-a-session-error] a transfer for an attached receiving link is never a session error, whether or not the application still holds the Receiver: dropping a link handle with deliveries in flight does not end the session
        r is Ok ==> r->Ok_0 is None,                                                    // [C02.session.no-immediate-disposition]
        forall|k: (Role, u32)| #![auto] k.0 == Role::Receiver ==> (final(self).delivery_tag_by_id@.contains_key(k) <==> old(self).delivery_tag_by_id@.contains_key(k))
            && (old(self).delivery_tag_by_id@.contains_key(k) ==> final(self).delivery_tag_by_id@[k] == old(self).delivery_tag_by_id@[k]),   // [C02.recv.sender-side-entries-untouched]
//@@ end

//@@ fn file=fe2o3-amqp/src/session/mod.rs impl=`impl endpoint::Session for Session` name=on_incoming_begin
//@@ spec
    ensures
        match old(self).local_state {
            SessionState::Unmapped => r is Ok && final(self).local_state == SessionState::BeginReceived,
            SessionState::BeginSent => r is Ok && final(self).local_state == SessionState::Mapped,
            _ => r is Err && *final(self) == *old(self),
        },                                                                              // [C13.session.begin-received] begin accepted only when expected; otherwise refused with nothing changed
        r is Err ==> r->Err_0 is IllegalState,                                          // [C14.session.begin-refusal-is-local] a begin that arrives in the wrong state is refused with a local reason, never reported as the peer having ended the session
        r is Ok ==> final(self).incoming_channel == Some(channel)
            && final(self).next_incoming_id == begin.next_outgoing_id                   // [C07.begin.next-incoming-id] counting starts from the peer's stated value
            && final(self).remote_incoming_window == begin.incoming_window              // [C07.begin.window] window starts at the peer's incoming-window (nothing sent yet)
            && final(self).remote_outgoing_window == begin.outgoing_window,
        final(self).next_outgoing_id == old(self).next_outgoing_id,
        final(self).remote_incoming_window_exhausted_buffer == old(self).remote_incoming_window_exhausted_buffer,
        final(self).delivery_tag_by_id == old(self).delivery_tag_by_id,
        final(self).link_by_input_handle == old(self).link_by_input_handle,
        final(self).outgoing_channel == old(self).outgoing_channel,
//@@ end

//@@ fn file=fe2o3-amqp/src/session/mod.rs impl=`impl endpoint::Session for Session` name=send_begin
//@@ param writer : &mut ChanSender<SessionFrame>
//@@ subst `self.incoming_channel.map(Into::into)` => `self.incoming_channel.map(|c: IncomingChannel| -> (o: u16) ensures o == c.0 { c.0 })` rule=R17 unless `\.map\(`
//@@ subst `.clone().map(Into::into)` => `.clone()` rule=R16
//@@ subst `|_v0| {` => `|_v0: ChanSendError| -> (o: SessionStateError) ensures o is ConnectionStopped {` rule=R18 unless `map_err`
//@@ subst `|_v1| {` => `|_v1: ChanSendError| -> (o: SessionStateError) ensures o is ConnectionStopped {` rule=R18 unless `map_err`
//@@ spec
    ensures
        *final(self) == (Session { local_state: final(self).local_state, ..*old(self) }),          // [C13.session.begin-frame-only-state] only the state changes
        match old(self).local_state {
            SessionState::Unmapped => (r is Ok && final(self).local_state == SessionState::BeginSent) || (r is Err && final(self).local_state == old(self).local_state),
            SessionState::BeginReceived => (r is Ok && final(self).local_state == SessionState::Mapped) || (r is Err && final(self).local_state == old(self).local_state),
            _ => r is Err && final(self).local_state == old(self).local_state && final(writer).sent@ == old(writer).sent@,
        },                                                                                          // [C13.session.one-begin] a begin is sent only from Unmapped / BeginReceived, so at most once
        r is Ok ==> final(writer).sent@.len() == old(writer).sent@.len() + 1 && ({
            let f = final(writer).sent@.last();
            &&& final(writer).sent@ == old(writer).sent@.push(f)
            &&& f.channel == old(self).outgoing_channel.0
            &&& f.body is Begin
            &&& f.body->Begin_0.next_outgoing_id == old(self).next_outgoing_id                    // [C07.report.begin] the begin reports the current next-outgoing-id and windows
            &&& f.body->Begin_0.incoming_window == old(self).incoming_window
            &&& f.body->Begin_0.outgoing_window == old(self).outgoing_window
            &&& f.body->Begin_0.handle_max == old(self).handle_max
            &&& f.body->Begin_0.remote_channel == (match old(self).incoming_channel { Some(c) => Some(c.0), None => None::<u16> })
        }),
        r is Err ==> final(writer).sent@ == old(writer).sent@,                                      // [C13.session.begin-err-nothing-sent]
        r is Err ==> r->Err_0 is IllegalState || r->Err_0 is ConnectionStopped,                      // [C14.session.begin-failure-is-local] a begin that cannot be sent fails with a LOCAL reason (wrong state, connection gone): it is never reported as the peer having ended the session
//@@ end

//@@ fn file=fe2o3-amqp/src/session/mod.rs impl=`impl endpoint::Session for Session` name=send_end
//@@ param writer : &mut ChanSender<SessionFrame>
//@@ subst `|_v0|` => `|_v0: ChanSendError|` rule=optional-R5
//@@ spec
    ensures
        *final(self) == (Session { local_state: final(self).local_state, ..*old(self) }),          // [C13.session.end-frame-only-state]
        match old(self).local_state {
            SessionState::Mapped => final(self).local_state == (if error is Some { SessionState::Discarding } else { SessionState::EndSent }),
            SessionState::EndReceived => final(self).local_state == SessionState::Unmapped,
            _ => r is Err && final(self).local_state == old(self).local_state && final(writer).sent@ == old(writer).sent@,
        },                                                                                          // [C13.session.one-end] an end is sent only from Mapped / EndReceived and leaves those states, so at most once
        r is Ok ==> final(writer).sent@ == old(writer).sent@.push(SessionFrame { channel: old(self).outgoing_channel.0, body: SessionFrameBody::End(End { error }) }),   // [C13.session.end-frame] the end carries the caller's error
        r is Err ==> final(writer).sent@ == old(writer).sent@,
//@@ end

//@@ fn file=fe2o3-amqp/src/session/mod.rs impl=`impl endpoint::Session for Session` name=on_incoming_end
//@@ spec
    ensures
        *final(self) == (Session { local_state: final(self).local_state, ..*old(self) }),          // [C13.session.incoming-end-only-state]
        match old(self).local_state {
            SessionState::BeginSent | SessionState::BeginReceived | SessionState::Mapped =>
                final(self).local_state == SessionState::EndReceived
                && (match end.error { Some(e) => r == Err::<(), SessionStateError>(SessionStateError::RemoteEndedWithError(e)), None => r == Err::<(), SessionStateError>(SessionStateError::RemoteEnded) }),
            SessionState::EndSent | SessionState::Discarding =>
                final(self).local_state == SessionState::Unmapped
                && (match end.error { Some(e) => r == Err::<(), SessionStateError>(SessionStateError::RemoteEndedWithError(e)), None => r is Ok }),
            _ => r == Err::<(), SessionStateError>(SessionStateError::IllegalState) && final(self).local_state == old(self).local_state,
        },                                                                                          // [C13.session.incoming-end] peer's end moves to EndReceived (to be answered) or completes our end; its error is what the caller gets
//@@ end

//@@ fn file=fe2o3-amqp/src/session/mod.rs impl=`impl endpoint::Session for Session` name=maybe_outgoing_session_flow
//@@ spec
    ensures
        ({
            let fire = old(self).local_state is Mapped && old(self).need_flow_count >= old(self).incoming_window / 2;
            &&& fire ==> r is Some && final(self).need_flow_count == 0
                    && *final(self) == (Session { need_flow_count: 0, ..*old(self) })
                    && r->Some_0 is SingleFrame
                    && old(self).flow_frame_reports(r->Some_0->SingleFrame_0, old(self).next_incoming_id, old(self).next_outgoing_id)
                    && r->Some_0->SingleFrame_0.body->Flow_0.handle is None      // [C07.report.window-topup] session-only flow reporting the current counters
            &&& !fire ==> r is None && *final(self) == *old(self)
        }),
//@@ end


    pub open spec fn ds(&self) -> DS {
        DS { links: self.link_by_input_handle@, dt: self.delivery_tag_by_id@, echo_ids: Seq::empty() }
    }

    pub open spec fn same_outside_disp(&self, o: &Session) -> bool {
        &&& self.same_outside_fc_core(o)
        &&& self.next_outgoing_id == o.next_outgoing_id
        &&& self.remote_incoming_window == o.remote_incoming_window
        &&& self.remote_incoming_window_exhausted_buffer == o.remote_incoming_window_exhausted_buffer
        &&& self.link_name_by_output_handle == o.link_name_by_output_handle
        &&& self.link_by_name == o.link_by_name
    }

//@@ fn file=fe2o3-amqp/src/session/mod.rs impl=`impl endpoint::Session for Session` name=on_incoming_disposition
//@@ attr #[verifier::spinoff_prover]
//@@ shape loops=while,while,for,for
//@@ subst `&delivery_ids[..]` => `delivery_ids.as_slice()` rule=R22
//@@ subst `let mut delivery_ids = Vec::new();` => `let mut delivery_ids: Vec<u32> = Vec::new();` rule=optional-R5
//@@ subst `let mut dispositions = Vec::with_capacity(` => `let mut dispositions: Vec<Disposition> = Vec::with_capacity(` rule=optional-R5
//@@ spec
    ensures
        r is Ok,                                                                                     // [C15.disposition.total] any disposition (unknown ids, huge ranges, last < first) is handled without error or panic
        final(self).same_outside_disp(old(self)),                                                    // [C02.disposition.frame]
        !disposition.settled ==> ({
            let last = if disposition.last is Some { disposition.last->Some_0 } else { disposition.first };
            let run = disp_run(old(self).ds(), disposition.role, disposition.settled, disposition.state, disposition.first, range_count(disposition.first, last));
            forall|i: int| 0 <= i < run.echo_ids.len() ==> !final(self).delivery_tag_by_id@.contains_key((disposition.role, #[trigger] run.echo_ids[i]))   // [C02.disposition.echoed-delivery-forgotten] a delivery the session settles itself with its settling echo (peer settles second) is forgotten like one the peer settled: a stale entry keeps routing later dispositions by (handle, tag), both of which are re-used -- a repeated disposition for the old delivery then resolves a NEW delivery's send with the old outcome
        }),
        disposition.settled && disposition.last is Some && disposition.last->Some_0 < disposition.first && old(self).delivery_tag_by_id@.contains_key((disposition.role, disposition.first))
            ==> !final(self).delivery_tag_by_id@.contains_key((disposition.role, disposition.first)),     // [C02.disposition.range-is-serial] first..last is a range of SERIAL numbers: a disposition {first = 0xFFFF_FFFF, last = 0} covers the two deliveries across the 2^32 wrap of the delivery-id (next-outgoing-id starts near the wrap); read as plain integers the range is empty and nothing is settled
        ({
            let last = if disposition.last is Some { disposition.last->Some_0 } else { disposition.first };
            let run = disp_run(old(self).ds(), disposition.role, disposition.settled, disposition.state, disposition.first, range_count(disposition.first, last));
            &&& final(self).link_by_input_handle@ == run.links                                      // [C02.disposition.route] for every id in first..=last that is registered, exactly the link that owns it is told, with that delivery's own tag and the frame's state/settled flag -- no other link, no other tag
            &&& final(self).delivery_tag_by_id@ == (if disposition.settled { run.dt } else { remove_ids(run.dt, disposition.role, run.echo_ids) })   // [C02.disposition.forget] settled => every id in the range is forgotten; not settled => exactly the deliveries the session settles itself with its echo are forgotten, nothing else; ids outside the range untouched
            &&& disposition.settled ==> r->Ok_0 is None                                              // [C02.disposition.settled-no-echo]
            &&& !disposition.settled ==> r->Ok_0 is Some && ({
                    let ds = r->Ok_0->Some_0@;
                    let ids = run.echo_ids;
                    let ci = chunk_positions(ids);
                    &&& chunk_positions_ok(ci, ids)
                    &&& ds.len() == (if ids.len() > 0 { ci.len() + 1 } else { 0 })            // [C02.echo.last-run] the last (or only) run of ids is echoed too
                    &&& (forall|k: int| 0 <= k < ds.len() ==> {
                            &&& (#[trigger] ds[k]).first == ids[run_bound(ci, ids.len() as int, k)]           // [C02.echo.cover] run k of the echo list is answered by one disposition first..last
                            &&& ds[k].last == Some(ids[run_bound(ci, ids.len() as int, k + 1) - 1])
                            &&& ds[k].settled && ds[k].role == Role::Sender && !ds[k].batchable               // [C02.echo.settled] the answer is a settled disposition from the sender
                            &&& ds[k].state == disposition.state                                              // [C02.echo.state] carrying the same outcome
                        })
                })
        }),
//@@ entry
        let ghost mut steps: nat = 0;
//@@ loopstart 0
        proof { steps = steps + 1; }
//@@ loopstart 1
        proof { steps = steps + 1; }
//@@ loop 0
        invariant
            steps <= old(self).delivery_tag_by_id@.len() + 1,   // [C15.disposition.cost] work proportional to what the session holds, not to the peer-chosen id range
            __ri_end0 == last,
            !__ri_done0 ==> first <= __ri_cur0 <= last,
            __ri_done0 ==> first > last || __ri_cur0 == last,
            disposition.settled,
            first == disposition.first,
            last == (if disposition.last is Some { disposition.last->Some_0 } else { disposition.first }),
            self.same_outside_disp(old(self)),
            ({
                let n: nat = if __ri_done0 { range_count(first, last) } else { (__ri_cur0 - first) as nat };
                let run = disp_run(old(self).ds(), disposition.role, true, disposition.state, first, n);
                self.link_by_input_handle@ == run.links && self.delivery_tag_by_id@ == run.dt
            }),
        decreases (if __ri_done0 { 0int } else { __ri_end0 - __ri_cur0 + 1 }),
//@@ loop 1
        invariant
            steps <= old(self).delivery_tag_by_id@.len() + 1,   // [C15.disposition.cost] work proportional to what the session holds, not to the peer-chosen id range
            __ri_end1 == last,
            !__ri_done1 ==> first <= __ri_cur1 <= last,
            __ri_done1 ==> first > last || __ri_cur1 == last,
            !disposition.settled,
            first == disposition.first,
            last == (if disposition.last is Some { disposition.last->Some_0 } else { disposition.first }),
            self.same_outside_disp(old(self)),
            strictly_ascending(delivery_ids@),
            ({
                let n: nat = if __ri_done1 { range_count(first, last) } else { (__ri_cur1 - first) as nat };
                let run = disp_run(old(self).ds(), disposition.role, false, disposition.state, first, n);
                &&& self.link_by_input_handle@ == run.links && self.delivery_tag_by_id@ == run.dt
                &&& delivery_ids@ == run.echo_ids
                &&& forall|i: int| 0 <= i < delivery_ids@.len() ==> first <= #[trigger] delivery_ids@[i] < first + n
            }),
        decreases (if __ri_done1 { 0int } else { __ri_end1 - __ri_cur1 + 1 }),
//@@ loop 2
        invariant
            __it2.seq().len() == delivery_ids@.len(), forall|k: int| 0 <= k < delivery_ids@.len() ==> *(#[trigger] __it2.seq()[k]) == delivery_ids@[k],
            !disposition.settled,
            self.same_outside_disp(old(self)),
            delivery_ids@ == disp_run(old(self).ds(), disposition.role, false, disposition.state, first, range_count(first, last)).echo_ids,
            self.link_by_input_handle@ == disp_run(old(self).ds(), disposition.role, false, disposition.state, first, range_count(first, last)).links,
            self.delivery_tag_by_id@ == remove_ids(disp_run(old(self).ds(), disposition.role, false, disposition.state, first, range_count(first, last)).dt, disposition.role, delivery_ids@.take(__it2.index@)),
//@@ loopstart 2
            proof { assert(delivery_ids@.take(__it2.index@ + 1).drop_last() =~= delivery_ids@.take(__it2.index@)); }
//@@ at `let chunk_inds = consecutive_chunk_indices(` before
            proof {
                let run = disp_run(old(self).ds(), disposition.role, false, disposition.state, first, range_count(first, last));
                assert(delivery_ids@.take(delivery_ids@.len() as int) =~= delivery_ids@);
                assert forall|i: int| 0 <= i < delivery_ids@.len() implies !self.delivery_tag_by_id@.contains_key((disposition.role, #[trigger] delivery_ids@[i])) by {
                    lemma_remove_ids_gone(run.dt, disposition.role, delivery_ids@, i);
                }
            }
//@@ loop 3
        invariant
            __it3.seq() == chunk_inds@,
            chunk_inds@ == chunk_positions(delivery_ids@),
            chunk_positions_ok(chunk_inds@, delivery_ids@),
            prev_ind == run_bound(chunk_inds@, delivery_ids@.len() as int, __it3.index@),
            dispositions@.len() == __it3.index@,
            forall|k: int| 0 <= k < dispositions@.len() ==> {
                &&& (#[trigger] dispositions@[k]).first == delivery_ids@[run_bound(chunk_inds@, delivery_ids@.len() as int, k)]
                &&& dispositions@[k].last == Some(delivery_ids@[run_bound(chunk_inds@, delivery_ids@.len() as int, k + 1) - 1])
                &&& dispositions@[k].settled && dispositions@[k].role == Role::Sender && !dispositions@[k].batchable
                &&& dispositions@[k].state == disposition.state
            },
//@@ end

    /// C11 invariant: output handles <-> link names are in bijection where defined
    pub open spec fn names_consistent(&self) -> bool {
        &&& forall|k: usize| #![auto] self.link_name_by_output_handle@.contains_key(k) ==> self.link_by_name@.contains_key(self.link_name_by_output_handle@[k])
        &&& forall|k1: usize, k2: usize| #![auto] self.link_name_by_output_handle@.contains_key(k1) && self.link_name_by_output_handle@.contains_key(k2) && k1 != k2
                ==> self.link_name_by_output_handle@[k1] != self.link_name_by_output_handle@[k2]
    }

//@@ fn file=fe2o3-amqp/src/session/mod.rs impl=`impl endpoint::Session for Session` name=allocate_link
//@@ subst `.map(|val| val.with_output_handle(handle.clone()))` => `.map(|val: LinkRelay<()>| -> (o: LinkRelay<OutputHandle>) ensures o == relay_with_handle(val, handle) { val.with_output_handle(handle.clone()) })` rule=R18 unless `\.map\(`
//@@ spec
    requires
        old(self).link_name_by_output_handle.spec_vacant_key() < 0x1_0000_0000,   // ASSUMED: fewer than 2^32 link handles are live (the handle is `key as u32`)
    ensures
        !(old(self).local_state is Mapped) ==> r is Err && *final(self) == *old(self),                  // [C13.link.attach-only-when-mapped] no link can be allocated (so no attach sent) unless the session is mapped
        !(old(self).local_state is Mapped) ==> (match old(self).session_stop_reason.val() {
            Some(reason) => r == Err::<OutputHandle, AllocLinkError>(AllocLinkError::SessionStopped(reason)),       // [C14.session.attach-on-a-stopped-session-reports-the-reason] an attach on a session that has stopped fails with the reason the session published (the peer's end error, the connection's close, an engine failure) ...
            None => if old(self).local_state is EndSent || old(self).local_state is EndReceived || old(self).local_state is Discarding {
                r == Err::<OutputHandle, AllocLinkError>(AllocLinkError::SessionStopped(SessionStopReason::Ended))       // ... while it is ending, with "ended" ...
            } else { r == Err::<OutputHandle, AllocLinkError>(AllocLinkError::SessionNotMapped) },                          // ... and with "not mapped" only when it has not begun
        }),
        old(self).local_state is Mapped && old(self).link_by_name@.contains_key(link_name)
            ==> r == Err::<OutputHandle, AllocLinkError>(AllocLinkError::DuplicatedLinkName) && *final(self) == *old(self),   // [C11.name.unique] a link name is attached at most once per session
        old(self).local_state is Mapped && !old(self).link_by_name@.contains_key(link_name) ==> r is Ok && ({
            let h = r->Ok_0.0 as usize;
            &&& !old(self).link_name_by_output_handle@.contains_key(h)                                  // [C11.handle.fresh] the handle handed out is not held by any live link
            &&& final(self).link_name_by_output_handle@ == old(self).link_name_by_output_handle@.insert(h, link_name)
            &&& final(self).link_by_name@ == old(self).link_by_name@.insert(link_name,
                    match link_relay { Some(v) => Some(relay_with_handle(v, r->Ok_0)), None => None })
            &&& final(self).link_by_input_handle == old(self).link_by_input_handle
            &&& final(self).delivery_tag_by_id == old(self).delivery_tag_by_id
            &&& final(self).same_outside_fc_core(old(self))
            &&& final(self).next_outgoing_id == old(self).next_outgoing_id && final(self).remote_incoming_window == old(self).remote_incoming_window
            &&& final(self).remote_incoming_window_exhausted_buffer == old(self).remote_incoming_window_exhausted_buffer
            &&& (old(self).names_consistent() ==> final(self).names_consistent())                       // [C11.handle.bijection] handle <-> name stays one-to-one
        }),
//@@ end

//@@ fn file=fe2o3-amqp/src/session/mod.rs impl=`impl endpoint::Session for Session` name=deallocate_link
//@@ spec
    ensures
        final(self).link_name_by_output_handle@ == old(self).link_name_by_output_handle@.remove(output_handle.0 as usize),   // [C11.handle.release] the handle becomes free exactly here
        old(self).link_name_by_output_handle@.contains_key(output_handle.0 as usize)
            ==> final(self).link_by_name@ == old(self).link_by_name@.remove(old(self).link_name_by_output_handle@[output_handle.0 as usize]),   // [C11.name.release] ... together with its name, and no other name
        !old(self).link_name_by_output_handle@.contains_key(output_handle.0 as usize) ==> final(self).link_by_name@ == old(self).link_by_name@,
        final(self).link_by_input_handle == old(self).link_by_input_handle,
        final(self).delivery_tag_by_id == old(self).delivery_tag_by_id,
        final(self).same_outside_fc_core(old(self)),
        final(self).next_outgoing_id == old(self).next_outgoing_id && final(self).remote_incoming_window == old(self).remote_incoming_window,
        final(self).remote_incoming_window_exhausted_buffer == old(self).remote_incoming_window_exhausted_buffer,
//@@ end

//@@ fn file=fe2o3-amqp/src/session/mod.rs impl=`impl endpoint::Session for Session` name=allocate_incoming_link
//@@ spec
    requires
        old(self).link_name_by_output_handle.spec_vacant_key() < 0x1_0000_0000,   // ASSUMED (as for allocate_link)
    ensures
        old(self).link_by_input_handle@.contains_key(input_handle) ==> r is Err && final(self).link_by_input_handle@ == old(self).link_by_input_handle@,   // [C11.route.handle-in-use-refused] (listener side) accepting a link whose peer handle is still held by an attached link is refused, the holder keeps the handle
        r is Ok ==> final(self).link_by_input_handle@ == old(self).link_by_input_handle@.insert(input_handle, relay_with_handle(link_relay, r->Ok_0)),   // [C11.route.attach-maps] the peer's handle now designates exactly the accepted link
        r is Err ==> final(self).link_by_input_handle@ == old(self).link_by_input_handle@,
//@@ end

//@@ fn file=fe2o3-amqp/src/session/mod.rs impl=`impl endpoint::Session for Session` name=on_outgoing_detach
//@@ subst `detach.handle.clone().into()` => `handle_to_output(detach.handle.clone())` rule=R16
//@@ spec
    ensures
        r == (SessionFrame { channel: old(self).outgoing_channel.0, body: SessionFrameBody::Detach(detach) }),   // [C13.link.detach-frame]
        final(self).link_name_by_output_handle@ == old(self).link_name_by_output_handle@.remove(detach.handle.0 as usize),   // [C13.link.handle-released-on-detach] the output handle is released exactly when the detach is sent
        forall|i: int| 0 <= i < final(self).remote_incoming_window_exhausted_buffer@.len() ==> (#[trigger] final(self).remote_incoming_window_exhausted_buffer@[i]).1.handle != detach.handle,   // [C13.link.no-parked-transfer-after-detach] [C01.session.parked-transfer-not-overtaken-by-detach] no transfer of this link that the session still holds back (the peer's incoming window was exhausted) may follow the detach onto the wire: once the detach is queued nothing for its handle is left to be written later
        final(self).link_by_input_handle == old(self).link_by_input_handle,
        final(self).same_outside_fc_core(old(self)),
//@@ end

//@@ fn file=fe2o3-amqp/src/session/mod.rs impl=`impl endpoint::Session for Session` name=on_incoming_detach
//@@ subst `InputHandle::from(` => `handle_to_input(` rule=R16
//@@ spec
    ensures
        final(self).link_by_input_handle@ == old(self).link_by_input_handle@.remove(InputHandle(detach.handle.0)),   // [C11.route.detach-unmaps] the peer's handle is unmapped (may be reused by a later attach), no other link touched
        old(self).link_by_input_handle@.contains_key(InputHandle(detach.handle.0)) ==> r is Ok,                   // [C13.link.peer-detach-not-fatal] a detach for an attached link never tears the session down, even if the link endpoint is gone
        !old(self).link_by_input_handle@.contains_key(InputHandle(detach.handle.0))
            ==> r == Err::<(), SessionInnerError>(SessionInnerError::UnattachedHandle),                           // [C15.detach.unattached]
        final(self).delivery_tag_by_id == old(self).delivery_tag_by_id,
        final(self).link_by_name == old(self).link_by_name,
        final(self).link_name_by_output_handle == old(self).link_name_by_output_handle,
        final(self).same_outside_fc_core(old(self)),
//@@ end

//@@ fn file=fe2o3-amqp/src/session/mod.rs impl=`impl endpoint::Session for Session` name=on_incoming_attach
//@@ subst `InputHandle::from(` => `handle_to_input(` rule=R16
//@@ subst `.map_err(|_v0| __E1)` => `.map_err(|_v0: ChanSendError| -> (o: SessionInnerError) ensures o is UnattachedHandle { __E1 })` rule=optional-R18
//@@ spec
    ensures
        old(self).link_by_input_handle@.contains_key(InputHandle(attach.handle.0))
            ==> r == Err::<(), SessionInnerError>(SessionInnerError::HandleInUse) && final(self).link_by_input_handle == old(self).link_by_input_handle && final(self).link_by_name == old(self).link_by_name,   // [C11.route.handle-in-use-refused] an attach that names a handle the peer already uses for a link that is still attached is refused (session error handle-in-use): it must not silently replace the holder in the routing table, leaving two attached links behind one handle
        !old(self).link_by_input_handle@.contains_key(InputHandle(attach.handle.0)) && !old(self).link_by_name@.contains_key(attach.name)
            ==> r == Err::<(), SessionInnerError>(SessionInnerError::RemoteAttachingLinkNameNotFound)
                && final(self).link_by_name@ == old(self).link_by_name@ && final(self).link_by_input_handle == old(self).link_by_input_handle,   // [C15.attach.unknown-name] an attach for a name never allocated is an error and maps nothing
        !old(self).link_by_input_handle@.contains_key(InputHandle(attach.handle.0)) && old(self).link_by_name@.contains_key(attach.name) && old(self).link_by_name@[attach.name] is None
            ==> r == Err::<(), SessionInnerError>(SessionInnerError::HandleInUse)
                && final(self).link_by_input_handle == old(self).link_by_input_handle,                 // [C11.name.second-attach-refused] a second attach for a name already attached is refused and reaches no link
        !old(self).link_by_input_handle@.contains_key(InputHandle(attach.handle.0)) && old(self).link_by_name@.contains_key(attach.name) && old(self).link_by_name@[attach.name] is Some ==> ({
            let relay0 = old(self).link_by_name@[attach.name]->Some_0;
            &&& final(self).link_by_name@ == old(self).link_by_name@.insert(attach.name, None)          // [C11.name.attached-once] the pending relay is taken: the name cannot be attached again
            &&& r is Ok ==> final(self).link_by_input_handle@.dom() =~= old(self).link_by_input_handle@.dom().insert(InputHandle(attach.handle.0))
                    && final(self).link_by_input_handle@[InputHandle(attach.handle.0)].oh() == relay0.oh()
                    && (relay0 is Sender ==> final(self).link_by_input_handle@[InputHandle(attach.handle.0)].rsm() == attach.rcv_settle_mode)   // [C02.attach.rcv-settle-mode] the sender learns the receiver's settle mode from the attach   // [C11.route.attach-maps] the peer's handle now designates exactly this link
                    && (forall|k: InputHandle| k != InputHandle(attach.handle.0) && old(self).link_by_input_handle@.contains_key(k) ==> #[trigger] final(self).link_by_input_handle@[k] == old(self).link_by_input_handle@[k])
            &&& r is Err ==> final(self).link_by_input_handle == old(self).link_by_input_handle && r->Err_0 is UnattachedHandle       // [C15.attach.endpoint-gone] the only way left to fail is that the local endpoint that asked for this link is gone: that is an unattached handle (the session ends with that condition), not an unknown name
        }),
        final(self).delivery_tag_by_id == old(self).delivery_tag_by_id,
        final(self).link_name_by_output_handle == old(self).link_name_by_output_handle,
        final(self).same_outside_fc_core(old(self)),
//@@ end

//@@ fn file=fe2o3-amqp/src/session/mod.rs impl=`impl endpoint::Session for Session` name=on_outgoing_disposition
//@@ subst `disposition .state .as_ref() .map(|s| s.is_terminal()) .unwrap_or(false)` => `(match disposition.state.as_ref() { Some(s) => s.is_terminal(), None => false })` rule=R19 unless `\.map\(`
//@@ spec
    requires
        disposition.last is Some && disposition.last->Some_0 >= disposition.first ==> disposition.last->Some_0 - disposition.first < u32::MAX,   // ASSUMED of the local link: a disposition never spans all 2^32 ids
    ensures
        r == Ok::<SessionFrame, SessionInnerError>(SessionFrame { channel: old(self).outgoing_channel.0, body: SessionFrameBody::Disposition(disposition) }),   // [C02.outgoing-disposition.passthrough] the link's disposition is sent unchanged
        *final(self) == (Session { remote_outgoing_window: final(self).remote_outgoing_window, ..*old(self) }),
//@@ end
}

// session::Builder: the fields into_session reads (R11)
pub struct SessionBuilder { pub next_outgoing_id: TransferNumber, pub incoming_window: TransferNumber, pub outgoing_window: TransferNumber, pub handle_max: Handle,
    pub offered_capabilities: Option<Vec<Symbol>>, pub desired_capabilities: Option<Vec<Symbol>>, pub properties: Option<Fields> }
impl SessionBuilder {
//@@ fn file=fe2o3-amqp/src/session/builder.rs impl=`impl Builder` name=into_session
//@@ subst `Arc<OnceLock<ConnectionStopReason>>` => `OnceCell<ConnectionStopReason>` rule=R8
//@@ subst `Arc::new(OnceLock::new())` => `OnceCell::new_empty()` rule=R8
//@@ spec
    ensures
        r.next_outgoing_id == self.next_outgoing_id && r.initial_outgoing_id.0 == self.next_outgoing_id,     // [C07.builder.first-transfer-id] the first transfer frame of a session carries the configured next-outgoing-id, and that is the base the peer's flows are measured from
        r.incoming_window == self.incoming_window && r.outgoing_window == self.outgoing_window,              // [C07.builder.windows-as-configured] the windows the Begin advertises are the configured ones
        r.next_incoming_id == 0 && r.remote_incoming_window == 0 && r.remote_outgoing_window == 0 && r.need_flow_count == 0,    // [C07.builder.nothing-assumed-of-the-peer] until the peer's Begin arrives nothing is assumed of its window: no transfer can be sent into a window that was never advertised
        r.remote_incoming_window_exhausted_buffer@.len() == 0,
        r.link_by_input_handle@ == Map::<InputHandle, LinkRelay<OutputHandle>>::empty() && r.delivery_tag_by_id@ == Map::<(Role, u32), (InputHandle, DeliveryTag)>::empty(),   // [C11.builder.nothing-attached] a new session has no link attached and no delivery registered
        r.local_state == local_state && r.outgoing_channel == outgoing_channel && r.incoming_channel is None,
        r.handle_max == self.handle_max,       // [C11.builder.handle-max-as-configured] the handle-max the Begin announces (and allocate_link enforces) is the configured one
//@@ end

//@@ fn file=fe2o3-amqp/src/session/builder.rs impl=`impl Builder` name=into_txn_session
//@@ param control : TxnCtlTx
//@@ param outgoing : TxnOutTx
//@@ param control_link_acceptor : ControlLinkAcceptorS
//@@ ret TxnSessionS
//@@ subst `Arc<OnceLock<ConnectionStopReason>>` => `OnceCell<ConnectionStopReason>` rule=R8
//@@ subst `Arc::new(OnceLock::new())` => `OnceCell::new_empty()` rule=R8
//@@ subst `TransactionManager::new(outgoing, control_link_acceptor)` => `txn_manager_new(outgoing, control_link_acceptor)` rule=R9
//@@ subst `TxnSession {` => `TxnSessionS {` rule=R7
//@@ spec
    ensures
        ({ let r = r.session;
        &&& r.next_outgoing_id == self.next_outgoing_id && r.initial_outgoing_id.0 == self.next_outgoing_id     // [C07.builder.first-transfer-id] the session a transactional listener builds (the variant in force with the `transaction` and `acceptor` features) is configured exactly like the plain one
        &&& r.incoming_window == self.incoming_window && r.outgoing_window == self.outgoing_window              // [C07.builder.windows-as-configured]
        &&& r.next_incoming_id == 0 && r.remote_incoming_window == 0 && r.remote_outgoing_window == 0 && r.need_flow_count == 0    // [C07.builder.nothing-assumed-of-the-peer]
        &&& r.remote_incoming_window_exhausted_buffer@.len() == 0
        &&& r.link_by_input_handle@ == Map::<InputHandle, LinkRelay<OutputHandle>>::empty() && r.delivery_tag_by_id@ == Map::<(Role, u32), (InputHandle, DeliveryTag)>::empty()   // [C11.builder.nothing-attached]
        &&& r.local_state == local_state && r.outgoing_channel == outgoing_channel && r.incoming_channel is None
        &&& r.handle_max == self.handle_max }),      // [C11.builder.handle-max-as-configured]
//@@ end
}
#[verifier::external_body] pub struct TxnCtlTx { _p: u8 }
#[verifier::external_body] pub struct TxnOutTx { _p: u8 }
#[verifier::external_body] pub struct ControlLinkAcceptorS { _p: u8 }
#[verifier::external_body] pub struct TxnMgrS { _p: u8 }
#[verifier::external_body] pub fn txn_manager_new(o: TxnOutTx, a: ControlLinkAcceptorS) -> (r: TxnMgrS) { unimplemented!() }
/// transaction::session::TxnSession<Session>
pub struct TxnSessionS { pub control: TxnCtlTx, pub session: Session, pub txn_manager: TxnMgrS }

//@@ fn file=fe2o3-amqp/src/session/mod.rs name=num_messages_settled_by_disposition
//@@ subst `last.and_then(|last| last.checked_sub(first)).unwrap_or(0) + 1` => `(match last { Some(last) => match last.checked_sub(first) { Some(d) => d, None => 0 }, None => 0 }) + 1` rule=R19 unless `and_then`
//@@ spec
    requires
        last is Some && last->Some_0 >= first ==> last->Some_0 - first < u32::MAX,   // (assumed of local callers: a disposition never spans all 2^32 ids)
    ensures
        r == (if last is Some && last->Some_0 >= first { last->Some_0 - first + 1 } else { 1 }),   // [C15.disposition.count-no-overflow]
//@@ end

} // verus!
fn main() {}
