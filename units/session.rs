//@@ unit SESSION
#![feature(allocator_api)]
#![allow(unused_imports, unused_variables, dead_code, unused_mut, unused_parens)]
use vstd::prelude::*;
use std::collections::VecDeque;

verus! {

//@@ include common.rs

// ---------------------------------------------------------------------------------------------
// leaf types (opaque or trivial newtypes; TRUSTED stand-ins)
//@@ trusted leaf stand-ins: Payload, DeliveryTag, DeliveryState, Fields, Symbol, AmqpError are opaque values with value-equality Clone; Handle/InputHandle/OutputHandle/OutgoingChannel/IncomingChannel are the one-field newtypes of endpoint/mod.rs with their From conversions (handle_to_input etc.)
//@@ trusted LinkRelay stand-in: the session's view of a link is a ghost call log; on_incoming_disposition / on_incoming_flow / on_incoming_transfer / send append to it and return unconstrained results (contracts of the real LinkRelay methods are proved in unit LINKRELAY)
//@@ trusted mpsc::Sender<SessionFrame> stand-in (R9): send either appends to the ghost trace and returns Ok, or returns Err leaving it unchanged

pub type TransferNumber = u32;
pub type DeliveryNumber = u32;
pub type SequenceNo = u32;
pub type MessageFormat = u32;
pub type Uint = u32;
pub type Ushort = u16;
pub type Boolean = bool;

macro_rules! opaque {
    ($($n:ident),*) => { verus!{ $(
        #[verifier::external_body]
        pub struct $n { _p: u8 }
        impl Clone for $n { #[verifier::external_body] fn clone(&self) -> (r: Self) ensures r == *self { unimplemented!() } }
    )* } }
}
opaque!(Payload, DeliveryTag, Fields, Symbol, AmqpError, SessionStopReason, ConnectionStopReason, AttachRest);

#[verifier::external_body]
pub struct DeliveryState { _p: u8 }
impl Clone for DeliveryState { #[verifier::external_body] fn clone(&self) -> (r: Self) ensures r == *self { unimplemented!() } }
impl DeliveryState {
    pub uninterp spec fn spec_is_terminal(&self) -> bool;
    #[verifier::external_body]
    pub fn is_terminal(&self) -> (r: bool) ensures r == self.spec_is_terminal() { unimplemented!() }
}

#[derive(PartialEq, Eq)]
pub struct Handle(pub u32);
impl Clone for Handle { fn clone(&self) -> (r: Self) ensures r == *self { Handle(self.0) } }
#[derive(PartialEq, Eq)]
pub struct InputHandle(pub u32);
impl Clone for InputHandle { fn clone(&self) -> (r: Self) ensures r == *self { InputHandle(self.0) } }
#[derive(PartialEq, Eq)]
pub struct OutputHandle(pub u32);
impl Clone for OutputHandle { fn clone(&self) -> (r: Self) ensures r == *self { OutputHandle(self.0) } }
#[derive(Clone, Copy, PartialEq, Eq)]
pub struct OutgoingChannel(pub u16);
#[derive(Clone, Copy, PartialEq, Eq)]
pub struct IncomingChannel(pub u16);

pub fn handle_to_input(h: Handle) -> (r: InputHandle) ensures r.0 == h.0 { InputHandle(h.0) }
pub fn handle_to_output(h: Handle) -> (r: OutputHandle) ensures r.0 == h.0 { OutputHandle(h.0) }

pub struct Constant<T>(pub T);
impl<T> Constant<T> {
    pub fn value(&self) -> (r: &T) ensures *r == self.0 { &self.0 }
}

// ---------------------------------------------------------------------------------------------
// extracted protocol types

//@@ type file=fe2o3-amqp-types/src/definitions/role.rs kind=enum name=Role clone
//@@ end
//@@ type file=fe2o3-amqp-types/src/definitions/rcv_settle_mode.rs kind=enum name=ReceiverSettleMode clone
//@@ end
//@@ type file=fe2o3-amqp-types/src/states.rs kind=enum name=SessionState clone
//@@ end
//@@ type file=fe2o3-amqp-types/src/performatives/transfer.rs kind=struct name=Transfer clone
//@@ end
//@@ type file=fe2o3-amqp-types/src/performatives/flow.rs kind=struct name=Flow clone
//@@ end
//@@ type file=fe2o3-amqp-types/src/performatives/begin.rs kind=struct name=Begin clone
//@@ subst `Option<Array<Symbol>>` => `Option<Vec<Symbol>>`
//@@ end
//@@ type file=fe2o3-amqp-types/src/performatives/disposition.rs kind=struct name=Disposition clone
//@@ end
//@@ type file=fe2o3-amqp-types/src/performatives/end.rs kind=struct name=End
//@@ subst `definitions::Error` => `AmqpError` rule=optional
//@@ subst `Option<Error>` => `Option<AmqpError>` rule=optional
//@@ end
//@@ type file=fe2o3-amqp-types/src/performatives/detach.rs kind=struct name=Detach
//@@ subst `definitions::Error` => `AmqpError` rule=optional
//@@ subst `Option<Error>` => `Option<AmqpError>` rule=optional
//@@ end
//@@ type file=fe2o3-amqp/src/endpoint/mod.rs kind=struct name=LinkFlow
//@@ end
//@@ type file=fe2o3-amqp/src/session/frame.rs kind=struct name=SessionFrame
//@@ end
//@@ type file=fe2o3-amqp/src/session/frame.rs kind=enum name=SessionFrameBody
//@@ end
//@@ type file=fe2o3-amqp/src/session/frame.rs kind=enum name=SessionOutgoingItem
//@@ end

// Attach: only the three fields the session reads are kept; the rest is one opaque field.
pub struct Attach {
    pub name: String,
    pub handle: Handle,
    pub rcv_settle_mode: ReceiverSettleMode,
    pub rest: AttachRest,
}

impl SessionFrame {
//@@ fn file=fe2o3-amqp/src/session/frame.rs impl=`impl SessionFrame` name=new
//@@ param channel : OutgoingChannel
//@@ subst `channel.into()` => `channel.0` rule=R16
//@@ spec
    ensures r.channel == channel.0, r.body == body,
//@@ end
}

//@@ type file=fe2o3-amqp/src/session/mod.rs kind=struct name=Session
//@@ subst `Arc<OnceLock<SessionStopReason>>` => `OnceCell<SessionStopReason>` rule=R8
//@@ subst `Arc<OnceLock<ConnectionStopReason>>` => `OnceCell<ConnectionStopReason>` rule=R8
//@@ end

// Arc<OnceLock<R>>  (R8): write-once cell
#[verifier::external_body]
#[verifier::reject_recursive_types(T)]
pub struct OnceCell<T> { c: Option<T> }
impl<T> OnceCell<T> {
    pub uninterp spec fn val(&self) -> Option<T>;
    #[verifier::external_body]
    pub fn get(&self) -> (r: Option<&T>)
        ensures match r { Some(v) => self.val() == Some(*v), None => self.val() is None },
    { unimplemented!() }
    #[verifier::external_body]
    pub fn set(&mut self, v: T) -> (r: Result<(), T>)
        ensures
            old(self).val() is None ==> r is Ok && final(self).val() == Some(v),
            old(self).val() is Some ==> r is Err && final(self).val() == old(self).val(),
    { unimplemented!() }
}

// ---------------------------------------------------------------------------------------------
// the session's view of a link: ghost call log

pub enum RelayCall {
    Disposition { role: Role, settled: bool, state: Option<DeliveryState>, tag: DeliveryTag, echo: bool },
    Flow { flow: LinkFlow },
    Transfer { transfer: Transfer, payload: Payload },
    Frame,
}

pub struct LinkRelay<O> {
    pub output_handle: O,
    pub is_sender: bool,
    pub receiver_settle_mode: ReceiverSettleMode,
    pub calls: Ghost<Seq<RelayCall>>,
}

pub enum LinkRelayError { UnattachedHandle, TransferFrameToSender }

impl LinkRelay<OutputHandle> {
    #[verifier::external_body]
    pub fn on_incoming_disposition(&mut self, role: Role, settled: bool, state: Option<DeliveryState>, delivery_tag: DeliveryTag) -> (echo: bool)
        ensures
            final(self).calls@ == old(self).calls@.push(RelayCall::Disposition { role, settled, state, tag: delivery_tag, echo }),
            final(self).output_handle == old(self).output_handle,
            final(self).is_sender == old(self).is_sender,
            final(self).receiver_settle_mode == old(self).receiver_settle_mode,
    { unimplemented!() }

    #[verifier::external_body]
    pub fn on_incoming_flow(&mut self, flow: LinkFlow) -> (r: Result<Option<LinkFlow>, LinkRelayError>)
        ensures
            final(self).calls@ == old(self).calls@.push(RelayCall::Flow { flow }),
            final(self).output_handle == old(self).output_handle,
            final(self).is_sender == old(self).is_sender,
            final(self).receiver_settle_mode == old(self).receiver_settle_mode,
    { unimplemented!() }

    #[verifier::external_body]
    pub fn on_incoming_transfer(&mut self, transfer: Transfer, payload: Payload) -> (r: Result<Option<(DeliveryNumber, DeliveryTag)>, LinkRelayError>)
        ensures
            final(self).calls@ == old(self).calls@.push(RelayCall::Transfer { transfer, payload }),
            final(self).output_handle == old(self).output_handle,
            final(self).is_sender == old(self).is_sender,
            final(self).receiver_settle_mode == old(self).receiver_settle_mode,
    { unimplemented!() }
}

//@@ type file=fe2o3-amqp/src/session/error.rs kind=enum name=SessionInnerError
//@@ subst `definitions::Error` => `AmqpError`
//@@ end
//@@ type file=fe2o3-amqp/src/session/error.rs kind=enum name=SessionStateError
//@@ subst `definitions::Error` => `AmqpError`
//@@ end
//@@ type file=fe2o3-amqp/src/session/error.rs kind=enum name=AllocLinkError
//@@ subst `crate::link::SessionStopReason` => `SessionStopReason`
//@@ end

impl SessionInnerError {
    // `impl From<LinkRelayError> for SessionInnerError` (session/error.rs)
    pub fn from_relay(e: LinkRelayError) -> (r: Self) {
        match e {
            LinkRelayError::UnattachedHandle => SessionInnerError::UnattachedHandle,
            LinkRelayError::TransferFrameToSender => SessionInnerError::TransferFrameToSender,
        }
    }
}

// ---------------------------------------------------------------------------------------------
// specification vocabulary for C07 / C11 / C01

/// what on_outgoing_transfer_inner must do to the transfer performative
pub open spec fn stamped(t: Transfer, id: u32) -> Transfer {
    if t.delivery_tag is Some { Transfer { delivery_id: Some(id), ..t } } else { t }
}

pub open spec fn xfer_frame(ch: OutgoingChannel, t: Transfer, p: Payload, id: u32) -> SessionFrame {
    SessionFrame { channel: ch.0, body: SessionFrameBody::Transfer { performative: stamped(t, id), payload: p } }
}

pub open spec fn dt_after(m: Map<(Role, u32), (InputHandle, DeliveryTag)>, id: u32, h: InputHandle, t: Transfer)
    -> Map<(Role, u32), (InputHandle, DeliveryTag)> {
    if t.delivery_tag is Some && !(t.settled is Some && t.settled->Some_0) {
        m.insert((Role::Receiver, id), (h, t.delivery_tag->Some_0))
    } else { m }
}

/// flow-control view of the session
pub struct FC {
    pub noi: u32,
    pub riw: u32,
    pub dt: Map<(Role, u32), (InputHandle, DeliveryTag)>,
    pub out: Seq<SessionFrame>,
}

pub open spec fn fc_step(s: FC, ch: OutgoingChannel, e: (InputHandle, Transfer, Payload)) -> FC {
    FC {
        noi: add32(s.noi, 1),
        riw: if s.riw > 0 { (s.riw - 1) as u32 } else { 0 },
        dt: dt_after(s.dt, s.noi, e.0, e.1),
        out: s.out.push(xfer_frame(ch, e.1, e.2, s.noi)),
    }
}

pub open spec fn fc_run(s: FC, ch: OutgoingChannel, q: Seq<(InputHandle, Transfer, Payload)>) -> FC
    decreases q.len()
{
    if q.len() == 0 { s } else { fc_step(fc_run(s, ch, q.drop_last()), ch, q.last()) }
}

pub proof fn lemma_fc_run_counts(s: FC, ch: OutgoingChannel, q: Seq<(InputHandle, Transfer, Payload)>)
    requires q.len() <= s.riw,
    ensures
        fc_run(s, ch, q).noi == add32(s.noi, q.len() as int),
        fc_run(s, ch, q).riw == s.riw - q.len(),
        fc_run(s, ch, q).out.len() == s.out.len() + q.len(),
    decreases q.len(),
{
    if q.len() > 0 {
        lemma_fc_run_counts(s, ch, q.drop_last());
    }
}

impl Session {
    pub open spec fn fc(&self, out: Seq<SessionFrame>) -> FC {
        FC { noi: self.next_outgoing_id, riw: self.remote_incoming_window, dt: self.delivery_tag_by_id@, out }
    }

    /// every field except the flow-control triple (next_outgoing_id, remote_incoming_window, delivery_tag_by_id)
    /// and the hold-back buffer is unchanged
    pub open spec fn same_outside_fc(&self, o: &Session) -> bool {
        &&& self.outgoing_channel == o.outgoing_channel
        &&& self.session_stop_reason == o.session_stop_reason
        &&& self.connection_stop_reason == o.connection_stop_reason
        &&& self.local_state == o.local_state
        &&& self.initial_outgoing_id == o.initial_outgoing_id
        &&& self.incoming_window == o.incoming_window
        &&& self.outgoing_window == o.outgoing_window
        &&& self.handle_max == o.handle_max
        &&& self.incoming_channel == o.incoming_channel
        &&& self.next_incoming_id == o.next_incoming_id
        &&& self.need_flow_count == o.need_flow_count
        &&& self.remote_outgoing_window == o.remote_outgoing_window
        &&& self.offered_capabilities == o.offered_capabilities
        &&& self.desired_capabilities == o.desired_capabilities
        &&& self.properties == o.properties
        &&& self.link_name_by_output_handle == o.link_name_by_output_handle
        &&& self.link_by_name == o.link_by_name
        &&& self.link_by_input_handle == o.link_by_input_handle
    }

//@@ fn file=fe2o3-amqp/src/session/mod.rs impl=`impl Session` name=on_outgoing_transfer_inner
//@@ spec
    requires
        old(self).remote_incoming_window > 0,   // [C07.window.safety] a transfer frame is emitted only inside the peer's window
    ensures
        r is Ok,                                                                            // [C07.inner.total]
        r->Ok_0 == xfer_frame(old(self).outgoing_channel, transfer, payload, old(self).next_outgoing_id),   // [C11.delivery-id.stamp] a frame carrying a tag is stamped with next-outgoing-id; payload and other fields untouched
        final(self).next_outgoing_id == add32(old(self).next_outgoing_id, 1),                              // [C07.inner.next-outgoing-id] advances once per frame sent
        final(self).remote_incoming_window == old(self).remote_incoming_window - 1,                         // [C07.inner.window] decremented once per frame sent
        final(self).delivery_tag_by_id@ == dt_after(old(self).delivery_tag_by_id@, old(self).next_outgoing_id, input_handle, transfer),  // [C02.register] unsettled delivery registered under (Receiver, id) with its own handle and tag; nothing else touched
        final(self).same_outside_fc(old(self)),                                             // [C07.inner.frame]
        final(self).remote_incoming_window_exhausted_buffer == old(self).remote_incoming_window_exhausted_buffer,  // [C07.inner.buffer-untouched]
//@@ end


//@@ fn file=fe2o3-amqp/src/session/mod.rs impl=`impl Session` name=on_outgoing_session_flow
//@@ spec
    ensures
        r.channel == self.outgoing_channel.0,                       // [C07.report.channel]
        r.body == SessionFrameBody::Flow(Flow {                      // [C07.report.session-flow] reported state == current counters
            next_incoming_id: Some(self.next_incoming_id),
            incoming_window: self.incoming_window,
            next_outgoing_id: self.next_outgoing_id,
            outgoing_window: self.outgoing_window,
            handle: None, delivery_count: None, link_credit: None, available: None,
            drain: false, echo: false, properties: None,
        }),
//@@ end

//@@ fn file=fe2o3-amqp/src/session/mod.rs impl=`impl Session` name=prepare_session_frames_from_buffered_transfers
//@@ spec
    ensures
        r is Ok,                                                                                          // [C07.drain.total]
        ({
            let n = if old(self).remote_incoming_window as int <= old(self).remote_incoming_window_exhausted_buffer@.len() { old(self).remote_incoming_window as int } else { old(self).remote_incoming_window_exhausted_buffer@.len() as int };
            &&& final(self).fc(r->Ok_0@) == fc_run(old(self).fc(output_frame_buffer@), old(self).outgoing_channel, old(self).remote_incoming_window_exhausted_buffer@.take(n))   // [C07.buffer.fifo] emitted ++ kept == held back, in order, each stamped once
            &&& final(self).remote_incoming_window_exhausted_buffer@ == old(self).remote_incoming_window_exhausted_buffer@.skip(n)                                              // [C07.buffer.no-loss]
            &&& final(self).remote_incoming_window == old(self).remote_incoming_window - n                                                                                     // [C07.drain.window-accounting]
            &&& final(self).next_outgoing_id == add32(old(self).next_outgoing_id, n)                                                                                           // [C07.drain.id-accounting] next-outgoing-id advances by exactly the number of frames emitted
            &&& r->Ok_0@.len() == output_frame_buffer@.len() + n                                                                                                               // [C07.drain.count]
        }),
        final(self).remote_incoming_window == 0 || final(self).remote_incoming_window_exhausted_buffer@.len() == 0,   // [C07.drain.complete] nothing stays held back while the window is open
        final(self).same_outside_fc(old(self)),                                                           // [C07.drain.frame]
//@@ entry
        let ghost out0 = output_frame_buffer@;
//@@ loop 0
        invariant
            self.same_outside_fc(old(self)),
            self.remote_incoming_window_exhausted_buffer@.len() <= old(self).remote_incoming_window_exhausted_buffer@.len(),
            ({
                let i = old(self).remote_incoming_window_exhausted_buffer@.len() - self.remote_incoming_window_exhausted_buffer@.len();
                &&& i <= old(self).remote_incoming_window
                &&& self.remote_incoming_window_exhausted_buffer@ == old(self).remote_incoming_window_exhausted_buffer@.skip(i)
                &&& self.fc(output_frame_buffer@) == fc_run(old(self).fc(out0), old(self).outgoing_channel, old(self).remote_incoming_window_exhausted_buffer@.take(i))
                &&& self.remote_incoming_window == old(self).remote_incoming_window - i
            }),
        ensures
            self.remote_incoming_window == 0 || self.remote_incoming_window_exhausted_buffer@.len() == 0,
        decreases self.remote_incoming_window,
//@@ stmt -1
        proof {
            let q = old(self).remote_incoming_window_exhausted_buffer@;
            let n = if old(self).remote_incoming_window as int <= q.len() { old(self).remote_incoming_window as int } else { q.len() as int };
            lemma_fc_run_counts(old(self).fc(out0), old(self).outgoing_channel, q.take(n));
        }
//@@ loopstart 0
            let ghost i0 = old(self).remote_incoming_window_exhausted_buffer@.len() - self.remote_incoming_window_exhausted_buffer@.len();
//@@ loopend 0
            proof {
                let q = old(self).remote_incoming_window_exhausted_buffer@;
                assert(q.take(i0 + 1).drop_last() =~= q.take(i0));
                assert(q.take(i0 + 1).last() == q[i0]);
                assert(q.skip(i0).skip(1) =~= q.skip(i0 + 1));
            }
//@@ end

//@@ fn file=fe2o3-amqp/src/session/mod.rs impl=`impl Session` name=prepare_session_frames_from_buffered_and_current_transfers
//@@ spec
    ensures
        r is Ok,                                                                                          // [C07.cur.total]
        ({
            let q = old(self).remote_incoming_window_exhausted_buffer@.push((cur_input_handle, cur_transfer, cur_payload));
            let m = if old(self).remote_incoming_window as int <= q.len() { old(self).remote_incoming_window as int } else { q.len() as int };
            &&& final(self).fc(r->Ok_0@) == fc_run(old(self).fc(output_frame_buffer@), old(self).outgoing_channel, q.take(m))   // [C07.buffer.fifo-current] held-back transfers go first, the current one last; each once
            &&& final(self).remote_incoming_window_exhausted_buffer@ == q.skip(m)                                               // [C07.buffer.no-loss-current] whatever is not sent is kept, in order
        }),
        final(self).remote_incoming_window == 0 || final(self).remote_incoming_window_exhausted_buffer@.len() == 0,   // [C07.cur.drain]
        final(self).same_outside_fc(old(self)),                                                           // [C07.cur.frame]
//@@ stmt -2
        proof {
            let b = old(self).remote_incoming_window_exhausted_buffer@;
            let q = b.push((cur_input_handle, cur_transfer, cur_payload));
            let n = if old(self).remote_incoming_window as int <= b.len() { old(self).remote_incoming_window as int } else { b.len() as int };
            assert(q.take(n) =~= b.take(n));
            if self.remote_incoming_window > 0 {
                assert(n == b.len());
                assert(q.take(n + 1) =~= q);
                assert(q.drop_last() =~= b);
                assert(b.take(n) =~= b);
                assert(q.skip(n + 1) =~= Seq::empty());
                assert(b.skip(n) =~= Seq::empty());
            } else {
                assert(q.skip(n) =~= b.skip(n).push((cur_input_handle, cur_transfer, cur_payload)));
            }
        }
//@@ end

    /// frames carried by an outgoing item
    pub open spec fn item_frames(o: Option<SessionOutgoingItem>) -> Seq<SessionFrame> {
        match o {
            None => Seq::empty(),
            Some(SessionOutgoingItem::SingleFrame(f)) => seq![f],
            Some(SessionOutgoingItem::MultipleFrames(v)) => v@,
        }
    }

//@@ fn file=fe2o3-amqp/src/session/mod.rs impl=`impl endpoint::Session for Session` name=on_outgoing_transfer
//@@ subst `.map(SessionOutgoingItem::MultipleFrames)` => `.map(|v0: Vec<SessionFrame>| -> (o: SessionOutgoingItem) ensures o == SessionOutgoingItem::MultipleFrames(v0) { SessionOutgoingItem::MultipleFrames(v0) })` rule=R18
//@@ subst `.map(Some)` => `.map(|v0: SessionOutgoingItem| -> (o: Option<SessionOutgoingItem>) ensures o == Some(v0) { Some(v0) })` rule=R18
//@@ spec
    ensures
        r is Ok,                                                                                          // [C07.send.total]
        ({
            let q = old(self).remote_incoming_window_exhausted_buffer@.push((input_handle, transfer, payload));
            let m = if old(self).remote_incoming_window as int <= q.len() { old(self).remote_incoming_window as int } else { q.len() as int };
            &&& final(self).fc(Self::item_frames(r->Ok_0)) == fc_run(old(self).fc(Seq::empty()), old(self).outgoing_channel, q.take(m))   // [C07.send.fifo] frames emitted are exactly the first m of (held-back ++ [current]), in order, each stamped with consecutive ids
            &&& final(self).remote_incoming_window_exhausted_buffer@ == q.skip(m)                                                         // [C07.send.no-loss] the rest stays held back in order (nothing dropped / duplicated / reordered)
            &&& Self::item_frames(r->Ok_0).len() == m                                                                                     // [C07.send.within-window] number of frames emitted never exceeds the peer's remaining window
            &&& final(self).next_outgoing_id == add32(old(self).next_outgoing_id, m)                                                      // [C07.send.id-accounting]
            &&& final(self).remote_incoming_window == old(self).remote_incoming_window - m                                                // [C07.send.window-accounting]
        }),
        final(self).remote_incoming_window == 0 || final(self).remote_incoming_window_exhausted_buffer@.len() == 0,   // [C07.send.drain]
        final(self).same_outside_fc(old(self)),                                                           // [C07.send.frame]
//@@ entry
        proof {
            let b = old(self).remote_incoming_window_exhausted_buffer@;
            let cur = (input_handle, transfer, payload);
            let q = b.push(cur);
            let m = if old(self).remote_incoming_window as int <= q.len() { old(self).remote_incoming_window as int } else { q.len() as int };
            let ch = old(self).outgoing_channel;
            lemma_fc_run_counts(old(self).fc(Seq::empty()), ch, q.take(m));
            assert(q.take(0) =~= Seq::empty());
            assert(q.skip(0) =~= q);
            if b.len() == 0 && old(self).remote_incoming_window > 0 {
                assert(q.take(1).drop_last() =~= Seq::empty());
                assert(q.take(1).last() == cur);
                assert(q.skip(1) =~= Seq::empty());
                assert(fc_run(old(self).fc(Seq::empty()), ch, q.take(1).drop_last()) == old(self).fc(Seq::empty()));
                assert(Seq::<SessionFrame>::empty().push(xfer_frame(ch, transfer, payload, old(self).next_outgoing_id)) =~= seq![xfer_frame(ch, transfer, payload, old(self).next_outgoing_id)]);
            }
        }
//@@ end
}

} // verus!
fn main() {}
