//@@ unit LINKFLOW
#![feature(allocator_api)]
#![allow(unused_imports, unused_variables, dead_code, unused_mut, unused_parens)]
use vstd::prelude::*;

verus! {

//@@ include common.rs
//@@ trusted parking_lot::RwLock<T> erased to T (R4): one critical section = one atomic step; contention/deadlock not modelled
//@@ trusted u32::to_be_bytes routed to a wrapper with the big-endian spec (R14)
//@@ trusted leaf stand-ins: Fields, MessageDecodeError opaque; Handle/OutputHandle one-field newtypes

pub type SequenceNo = u32;
pub type Uint = u32;
pub type Boolean = bool;

#[verifier::external_body]
pub struct Fields { _p: u8 }
impl Clone for Fields { #[verifier::external_body] fn clone(&self) -> (r: Self) ensures r == *self { unimplemented!() } }
#[verifier::external_body]
pub struct MessageDecodeError { _p: u8 }

#[derive(PartialEq, Eq)]
pub struct Handle(pub u32);
#[derive(PartialEq, Eq)]
pub struct OutputHandle(pub u32);
pub fn output_to_handle(h: OutputHandle) -> (r: Handle) ensures r.0 == h.0 { Handle(h.0) }

pub mod role {
    pub struct SenderMarker;
    pub struct ReceiverMarker;
}

pub open spec fn be_bytes(x: u32) -> Seq<u8> {
    seq![(x >> 24) as u8, ((x >> 16) & 0xff) as u8, ((x >> 8) & 0xff) as u8, (x & 0xff) as u8]
}
#[verifier::external_body]
pub fn u32_to_be_bytes(x: u32) -> (r: [u8; 4])
    ensures r@ == be_bytes(x),
{ x.to_be_bytes() }

//@@ type file=fe2o3-amqp/src/endpoint/mod.rs kind=struct name=LinkFlow
//@@ end
//@@ type file=fe2o3-amqp/src/link/state.rs kind=struct name=LinkFlowStateInner
//@@ end
//@@ type file=fe2o3-amqp/src/link/state.rs kind=struct name=LinkFlowState
//@@ subst `RwLock<LinkFlowStateInner>` => `LinkFlowStateInner` rule=R4
//@@ subst `PhantomData<R>` => `core::marker::PhantomData<R>` rule=R11
//@@ end
//@@ type file=fe2o3-amqp/src/link/error.rs kind=enum name=ReceiverTransferError
//@@ end
//@@ type file=fe2o3-amqp/src/link/state.rs kind=struct name=InsufficientCredit
//@@ end

// ---------------------------------------------------------------------------------------------
// specification vocabulary (C08 / C09)

/// link-credit_snd := delivery-count_rcv + link-credit_rcv - delivery-count_snd in serial arithmetic:
/// the receiver allows deliveries dc_rcv .. dc_rcv+credit_rcv-1; `dc_snd - dc_rcv` of them are already used.
pub open spec fn credit_from_peer(dc_rcv: u32, credit_rcv: u32, dc_snd: u32) -> u32 {
    let used = sub32(dc_snd, dc_rcv);
    if credit_rcv >= used { (credit_rcv - used) as u32 } else { 0 }
}

pub open spec fn flow_of(s: LinkFlowStateInner, h: OutputHandle, echo: bool, with_props: bool) -> LinkFlow {
    LinkFlow {
        handle: Handle(h.0),
        delivery_count: Some(s.delivery_count),
        link_credit: Some(s.link_credit),
        available: Some(s.available),
        drain: s.drain,
        echo,
        properties: if with_props { s.properties } else { None },
    }
}

/// C08 safety invariant: `limit` is the last delivery-limit stated by the receiver (delivery-count_rcv + link-credit_rcv);
/// the sender's remaining credit never exceeds the serial distance to it.
pub open spec fn within_limit(s: LinkFlowStateInner, limit: u32) -> bool {
    s.link_credit <= sub32(limit, s.delivery_count)
}

/// consuming n <= credit deliveries keeps the sender inside the receiver's limit (inductive step of C08)
pub proof fn lemma_c08_consume_preserves_limit(s: LinkFlowStateInner, limit: u32, n: u32)
    requires within_limit(s, limit), s.link_credit >= n,
    ensures within_limit(LinkFlowStateInner { delivery_count: add32(s.delivery_count, n as int), link_credit: (s.link_credit - n) as u32, ..s }, limit),
{
}

/// a flow from the receiver re-establishes the invariant with limit = dc_rcv + credit_rcv (base case of C08)
pub proof fn lemma_c08_flow_establishes_limit(s: LinkFlowStateInner, dc_rcv: u32, credit_rcv: u32)
    ensures within_limit(LinkFlowStateInner { link_credit: credit_from_peer(dc_rcv, credit_rcv, s.delivery_count), ..s }, add32(dc_rcv, credit_rcv as int)),
{
}

impl LinkFlowStateInner {
//@@ fn file=fe2o3-amqp/src/link/state.rs impl=`impl LinkFlowStateInner` name=as_link_flow
//@@ subst `output_handle.into()` => `output_to_handle(output_handle)` rule=R16
//@@ spec
    ensures
        r == flow_of(*self, output_handle, echo, include_properties),   // [C09.report.flow-from-state] a flow built from the state carries exactly its delivery-count, credit, available and drain [C08.report.flow-from-state]
//@@ end
}

impl LinkFlowState<role::SenderMarker> {
//@@ fn file=fe2o3-amqp/src/link/state.rs impl=`impl LinkFlowState<role::SenderMarker>` name=on_incoming_flow as=sender_on_incoming_flow
//@@ selfmut
//@@ subst `self.lock.write()` => `(&mut self.lock)` rule=R4
//@@ spec
    ensures
        ({
            let s0 = old(self).lock;
            let dc_rcv = if flow.delivery_count is Some { flow.delivery_count->Some_0 } else { s0.initial_delivery_count };
            let credit = if flow.link_credit is Some { credit_from_peer(dc_rcv, flow.link_credit->Some_0, s0.delivery_count) } else { s0.link_credit };
            &&& flow.drain ==> {
                    &&& final(self).lock.delivery_count == add32(s0.delivery_count, credit as int)        // [C08.drain.advance] drain: the delivery-count is advanced over all remaining credit
                    &&& final(self).lock.link_credit == 0                                                  // [C08.drain.zero-credit] ... leaving no credit
                    &&& r == Some(flow_of(final(self).lock, output_handle, false, false))                  // [C08.drain.tell-receiver] and the receiver is told so with a flow showing zero credit and the new count
                }
            &&& !flow.drain ==> {
                    &&& final(self).lock.delivery_count == s0.delivery_count                               // [C08.flow.count-untouched] only the sender's own sends advance delivery-count
                    &&& final(self).lock.link_credit == credit                                             // [C08.flow.formula] link-credit_snd := delivery-count_rcv + link-credit_rcv - delivery-count_snd (serial arithmetic; unchanged when the flow carries no credit) [C16.cancel.consumed-credit-not-resurrected] a sender that is AHEAD of the receiver's count by more than the credit granted (credits consumed by sends that were cancelled before their transfer left, or still in flight) has NO credit -- never a wrapped-around huge one: later sends wait instead of being transmitted without credit and lost
                    &&& r == (if flow.echo { Some(flow_of(final(self).lock, output_handle, false, false)) } else { None })   // [C08.flow.echo]
                }
            &&& final(self).lock.drain == flow.drain                                                       // [C08.flow.drain-recorded]
            &&& final(self).lock.initial_delivery_count == s0.initial_delivery_count
            &&& final(self).lock.available == s0.available
            &&& final(self).lock.properties == s0.properties                                               // [C08.flow.frame]
        }),
//@@ end
}

impl LinkFlowState<role::ReceiverMarker> {
//@@ fn file=fe2o3-amqp/src/link/state.rs impl=`impl LinkFlowState<role::ReceiverMarker>` name=on_incoming_flow as=receiver_on_incoming_flow
//@@ selfmut
//@@ subst `self.lock.write()` => `(&mut self.lock)` rule=R4
//@@ spec
    ensures
        final(self).lock.delivery_count == (if flow.delivery_count is Some { flow.delivery_count->Some_0 } else { old(self).lock.delivery_count }),   // [C09.flow.learn-count] the sender's delivery-count is taken from its flow
        final(self).lock.available == (if flow.available is Some { flow.available->Some_0 } else { old(self).lock.available }),
        flow.delivery_count is None ==> final(self).lock.link_credit == old(self).lock.link_credit,                      // [C09.flow.credit-is-receivers] [C01.flow.in-flight-deliveries-keep-their-credit] only the receiver chooses link-credit ... (a sender's flow that reports zero credit -- its answer to a drain -- must not zero the receiver's own credit: the deliveries still queued at the link were sent under credit the receiver issued, and would be refused and lost)
        flow.delivery_count is Some ==> final(self).lock.link_credit == credit_from_peer(old(self).lock.delivery_count, old(self).lock.link_credit, flow.delivery_count->Some_0),   // [C09.flow.sender-advance-consumes-credit] ... but credit the sender reports as used up (it advanced its delivery-count: deliveries sent, or the rest of the credit consumed in answer to drain, AMQP 2.6.7) is no longer outstanding: the delivery-limit delivery-count + link-credit the receiver enforces and advertises is NOT raised by a flow of the sender
        final(self).lock.drain == old(self).lock.drain,
        final(self).lock.initial_delivery_count == old(self).lock.initial_delivery_count,
        final(self).lock.properties == old(self).lock.properties,
        r == (if flow.echo { Some(flow_of(final(self).lock, output_handle, false, false)) } else { None }),   // [C09.flow.echo-reports-state]
//@@ end

//@@ fn file=fe2o3-amqp/src/link/state.rs impl=`impl LinkFlowState<role::ReceiverMarker>` name=consume as=receiver_consume
//@@ selfmut
//@@ subst `self.lock.write()` => `(&mut self.lock)` rule=R4
//@@ spec
    ensures
        old(self).lock.link_credit < count ==> r == Err::<(), ReceiverTransferError>(ReceiverTransferError::TransferLimitExceeded) && final(self).lock == old(self).lock,   // [C09.enforce.overrun] a delivery beyond the credit issued is refused as a transfer-limit violation; state untouched
        old(self).lock.link_credit >= count ==> r is Ok
            && final(self).lock == (LinkFlowStateInner { delivery_count: add32(old(self).lock.delivery_count, count as int), link_credit: (old(self).lock.link_credit - count) as u32, ..old(self).lock }),   // [C09.enforce.account] otherwise credit -count, delivery-count +count (serial), nothing else
//@@ end
}

//@@ fn file=fe2o3-amqp/src/link/state.rs name=consume_link_credit
//@@ param lock : &mut LinkFlowStateInner
//@@ subst `lock.write()` => `lock` rule=R4
//@@ subst `state.delivery_count.to_be_bytes()` => `u32_to_be_bytes(state.delivery_count)` rule=R14
//@@ spec
    ensures
        old(lock).link_credit < count ==> r is Err && *final(lock) == *old(lock),                            // [C08.consume.blocked] without enough credit nothing is consumed (the caller waits)
        old(lock).link_credit >= count ==> r is Ok
            && *final(lock) == (LinkFlowStateInner { delivery_count: add32(old(lock).delivery_count, count as int), link_credit: (old(lock).link_credit - count) as u32, ..*old(lock) })   // [C08.consume.account] a delivery takes exactly `count` credit and advances delivery-count by it
            && r->Ok_0@ == be_bytes(old(lock).delivery_count),                                                // [C08.consume.tag] the auto delivery-tag is the pre-increment delivery-count
        old(lock).link_credit >= count ==> forall|limit: u32| within_limit(*old(lock), limit) ==> within_limit(*final(lock), limit),   // [C08.consume.within-limit] the sender stays inside delivery-count_rcv + link-credit_rcv
//@@ end

// the non-blocking twin used by the transaction roll-back on drop (cfg_transaction!): SenderFlowState::try_consume
pub enum SenderTryConsumeError { TryLockError, InsufficientCredit }
/// `self.state().lock.try_write().ok_or(TryLockError)?` : the lock is free or not (ghost `free`); R4
pub struct TryLockS { pub inner: LinkFlowStateInner, pub free: Ghost<bool> }
#[verifier::external_body]
pub fn try_write_s(l: &mut TryLockS) -> (r: Option<&mut LinkFlowStateInner>)
    ensures final(l).free == old(l).free, (match r { Some(st) => old(l).free@ && *st == old(l).inner && final(l).inner == *final(st), None => !old(l).free@ && final(l).inner == old(l).inner }),
{ unimplemented!() }
pub struct SenderFlowStateT { pub l: TryLockS }
impl SenderFlowStateT {
//@@ fn file=fe2o3-amqp/src/link/state.rs impl=`impl crate::util::TryConsume for SenderFlowState` name=try_consume
//@@ selfmut
//@@ param item : u32
//@@ ret Result<[u8; 4], SenderTryConsumeError>
//@@ subst `self .state() .lock .try_write() .ok_or(super::error::SenderTryConsumeError::TryLockError)?` => `(match try_write_s(&mut self.l) { Some(st) => st, None => return Err(SenderTryConsumeError::TryLockError) })` rule=R4
//@@ subst `super::error::SenderTryConsumeError::InsufficientCredit` => `SenderTryConsumeError::InsufficientCredit` rule=R11
//@@ subst `state.delivery_count.to_be_bytes()` => `u32_to_be_bytes(state.delivery_count)` rule=R14
//@@ spec
    ensures
        final(self).l.free == old(self).l.free,
        (!old(self).l.free@ || old(self).l.inner.link_credit < item) ==> r is Err && final(self).l.inner == old(self).l.inner,   // [C08.consume.blocked] without the lock or without enough credit nothing is consumed
        old(self).l.free@ && old(self).l.inner.link_credit >= item ==> r is Ok
            && final(self).l.inner == (LinkFlowStateInner { delivery_count: add32(old(self).l.inner.delivery_count, item as int), link_credit: (old(self).l.inner.link_credit - item) as u32, ..old(self).l.inner })   // [C08.consume.account] the non-blocking consume (roll-back of a transaction on drop) accounts exactly as the blocking one: `item` credit taken, delivery-count advanced by it
            && r->Ok_0@ == be_bytes(old(self).l.inner.delivery_count),                                                        // [C08.consume.tag]
//@@ end
}

// ReceiverLink<T>: only the field get_link_flow touches (R11: other fields elided; touching one is a compile error => undecided)
pub struct ReceiverLink { pub flow_state: LinkFlowState<role::ReceiverMarker>, pub output_handle: Option<OutputHandle>, pub session_stop_reason: OnceCell<SessionStopReason> }
pub open spec fn flow_stop_err(stop: Option<SessionStopReason>) -> DispositionError { match stop { Some(r) => DispositionError::SessionStopped(r), None => DispositionError::IllegalState } }
/// `pub type FlowError = IllegalLinkStateError;` -- the same two variants as DispositionError here
pub type FlowError = DispositionError;

impl ReceiverLink {
//@@ fn file=fe2o3-amqp/src/link/receiver_link.rs impl=`impl<T> ReceiverLink<T>` name=get_link_flow
//@@ selfmut
//@@ subst `self.flow_state.lock.write()` => `(&mut self.flow_state.lock)` rule=R4
//@@ subst `self.flow_state.lock.read()` => `(&self.flow_state.lock)` rule=R4
//@@ spec
    ensures
        ({
            let s0 = old(self).flow_state.lock;
            let s1 = final(self).flow_state.lock;
            &&& s1.link_credit == (if link_credit is Some { link_credit->Some_0 } else { s0.link_credit })      // [C09.set-credit.recorded] the credit the receiver intends to grant is recorded ...
            &&& s1.drain == (if drain is Some { drain->Some_0 } else { s0.drain })
            &&& s1.delivery_count == s0.delivery_count                                                           // [C09.set-credit.count-untouched] issuing credit never changes the delivery-count
            &&& s1.initial_delivery_count == s0.initial_delivery_count && s1.available == s0.available && s1.properties == s0.properties
            &&& r.handle == handle
            &&& r.delivery_count == Some(s0.delivery_count)                                                      // [C09.report.delivery-count] every flow reports the sender's delivery-count as last learnt, advanced by deliveries received
            &&& r.link_credit == Some(s1.link_credit)                                                            // [C09.report.credit] ... together with the credit it grants
            &&& r.drain == s1.drain
            &&& r.echo == echo
            &&& r.available is None
            &&& r.properties == (if include_properties { s0.properties } else { None })
        }),
//@@ end

//@@ fn file=fe2o3-amqp/src/link/receiver_link.rs impl=`~endpoint::ReceiverLinkforReceiverLink<Tar>` name=send_flow
//@@ selfmut
//@@ param writer : &mut ChanSender<LinkFrame>
//@@ subst `let handle = self .output_handle .clone() .ok_or(FlowError::IllegalState)? .into();` => `let handle: Handle = output_to_handle(self.output_handle.clone().ok_or(FlowError::IllegalState)?);` rule=R16
//@@ subst `.map_err(|_v0| __E1)` => `.map_err(|_v0: ChanSendError| -> (o: DispositionError) ensures o == flow_stop_err(self.session_stop_reason.val()) { __E1 })` rule=R18 unless `\.map_err\(`
//@@ spec
    ensures
        old(self).output_handle is None ==> r is Err && final(self).flow_state == old(self).flow_state && final(writer).sent@ == old(writer).sent@,   // [C09.flow.needs-handle] a link without an output handle (detached) sends no flow and records no credit
        old(self).output_handle is Some ==> ({
            let s0 = old(self).flow_state.lock;
            let s1 = final(self).flow_state.lock;
            &&& s1.link_credit == (if link_credit is Some { link_credit->Some_0 } else { s0.link_credit })
            &&& s1.drain == (if drain is Some { drain->Some_0 } else { s0.drain })
            &&& s1.delivery_count == s0.delivery_count
            &&& (r is Ok ==> final(writer).sent@ == old(writer).sent@.push(LinkFrame::Flow(LinkFlow {
                    handle: Handle(old(self).output_handle->Some_0.0), delivery_count: Some(s0.delivery_count), link_credit: Some(s1.link_credit),
                    available: None, drain: s1.drain, echo, properties: (if include_properties { s0.properties } else { None }) })))   // [C09.flow.sent-as-recorded] the flow that goes to the sender carries exactly the credit and drain flag just recorded and the current delivery-count: what the receiver accounts and what the sender is told agree
        }),
        old(self).output_handle is Some && r is Err ==> r == Err::<(), FlowError>(flow_stop_err(final(self).session_stop_reason.val())),   // [C14.link.closed-channel-reports-stop-reason] a flow that cannot be queued because the session is gone fails with SessionStopped(reason published by the session)
//@@ end
}


// ---------------------------------------------------------------------------------------------
// ReceiverDisposer: automatic credit replenishment (C09)
//@@ trusted Arc<AtomicU32> erased to a plain counter with store/fetch_add (single disposer at a time assumed; concurrent disposal from several clones is not modelled)
//@@ trusted mpsc::Sender<LinkFrame> ghost trace (R9); Arc<OnceLock<_>> write-once cell (R8)

pub struct AtomicU32S { pub v: u32 }
pub enum Ordering { Release, Acquire, Relaxed, AcqRel, SeqCst }
impl AtomicU32S {
    pub fn store(&mut self, x: u32, o: Ordering) ensures final(self).v == x { self.v = x; }
    pub fn fetch_add(&mut self, x: u32, o: Ordering) -> (r: u32)
        ensures r == old(self).v, final(self).v == add32(old(self).v, x as int),
    { let r = self.v; self.v = self.v.wrapping_add(x); r }
}
pub struct ChanSender<T> { pub sent: Ghost<Seq<T>> }
pub struct ChanSendError { pub _p: u8 }
impl<T> ChanSender<T> {
    #[verifier::external_body]
    pub fn send(&mut self, v: T) -> (r: Result<(), ChanSendError>)
        ensures
            r is Ok ==> final(self).sent@ == old(self).sent@.push(v),
            r is Err ==> final(self).sent@ == old(self).sent@,
    { unimplemented!() }
}
#[verifier::external_body]
#[verifier::reject_recursive_types(T)]
pub struct OnceCell<T> { c: Option<T> }
impl<T> OnceCell<T> {
    pub uninterp spec fn val(&self) -> Option<T>;
    #[verifier::external_body]
    pub fn get(&self) -> (r: Option<&T>)
        ensures match r { Some(v) => self.val() == Some(*v), None => self.val() is None },
    { unimplemented!() }
}
#[verifier::external_body]
pub struct SessionStopReason { _p: u8 }
impl Clone for SessionStopReason { #[verifier::external_body] fn clone(&self) -> (r: Self) ensures r == *self { unimplemented!() } }
#[verifier::external_body]
pub struct UnsettledMapS { _p: u8 }
#[verifier::external_body]
pub struct Disposition { _p: u8 }
pub enum ReceiverSettleMode { First, Second }
pub enum LinkFrame { Flow(LinkFlow), Disposition(Disposition), Other }
pub enum DispositionError { IllegalState, SessionStopped(SessionStopReason) }
impl Clone for OutputHandle { fn clone(&self) -> (r: Self) ensures r == *self { OutputHandle(self.0) } }

//@@ type file=fe2o3-amqp/src/link/receiver.rs kind=enum name=CreditMode
//@@ end
//@@ type file=fe2o3-amqp/src/link/receiver.rs kind=struct name=ReceiverDisposer
//@@ subst `mpsc::Sender<LinkFrame>` => `ChanSender<LinkFrame>` rule=R9
//@@ subst `ArcReceiverUnsettledMap` => `UnsettledMapS` rule=R11
//@@ subst `ReceiverFlowState` => `LinkFlowState<role::ReceiverMarker>` rule=R8
//@@ subst `Arc<AtomicU32>` => `AtomicU32S` rule=R4
//@@ subst `Arc<OnceLock<SessionStopReason>>` => `OnceCell<SessionStopReason>` rule=R8
//@@ end

/// `self.outgoing.send(LinkFrame::Flow(flow))` of the detached disposer. `link_handle` (ghost): the output handle the LINK holds at the time of the call -- None once its detach has been sent
pub fn send_link_flow(tx: &mut ChanSender<LinkFrame>, flow: LinkFlow, Ghost(link_handle): Ghost<Option<OutputHandle>>) -> (r: Result<(), ChanSendError>)
    requires link_handle == Some(OutputHandle(flow.handle.0)),      // [C13.link.no-frame-after-detach.disposer] a flow is queued only for the handle the link currently holds: a disposer that works from a copy of the handle taken when it was created keeps writing flows for the handle after the link's detach (and, handles being re-used, possibly into another link)
    ensures
        r is Ok ==> final(tx).sent@ == old(tx).sent@.push(LinkFrame::Flow(flow)),
        r is Err ==> final(tx).sent@ == old(tx).sent@,
{ tx.send(LinkFrame::Flow(flow)) }

impl ReceiverDisposer {
//@@ fn file=fe2o3-amqp/src/link/receiver.rs impl=`impl ReceiverDisposer` name=refresh_credit_if_needed
//@@ selfmut
//@@ subst `self.outgoing .send(LinkFrame::Flow(flow))` => `send_link_flow(&mut self.outgoing, flow, Ghost(link_handle))` rule=R9
//@@ entry
        let ghost link_handle: Option<OutputHandle> = arbitrary();      // whatever the link holds now: the disposer lives on after Receiver::close() / drop
//@@ subst `self.flow_state.lock.write()` => `(&mut self.flow_state.lock)` rule=optional-R4
//@@ subst `self.flow_state.lock.read()` => `(&self.flow_state.lock)` rule=optional-R4
//@@ subst `let handle: Handle = self .output_handle .clone() .ok_or(DispositionError::IllegalState)? .into();` => `let handle: Handle = output_to_handle(self.output_handle.clone().ok_or(DispositionError::IllegalState)?);` rule=R16
//@@ subst `|_v0|` => `|_v0: ChanSendError|` rule=optional-R5
//@@ spec
    ensures
        ({
            let fire = old(self).credit_mode is Auto && processed >= old(self).credit_mode->Auto_0 / 2;
            let max = old(self).credit_mode->Auto_0;
            &&& !fire ==> r is Ok && *final(self) == *old(self)                                               // [C09.replenish.threshold-not-reached] below half of the maximum nothing is sent and nothing changes; Manual mode never tops up by itself
            &&& fire && old(self).output_handle is Some ==> {
                    &&& final(self).processed.v == 0                                                          // [C09.replenish.reset] the processed counter restarts
                    &&& final(self).flow_state.lock.link_credit == max                                        // [C09.replenish.top-up] credit is topped up to the configured maximum once half of it has been processed
                    &&& !final(self).flow_state.lock.drain
                    &&& final(self).flow_state.lock.delivery_count == old(self).flow_state.lock.delivery_count
                    &&& (r is Ok ==> final(self).outgoing.sent@ == old(self).outgoing.sent@.push(LinkFrame::Flow(LinkFlow {
                            handle: Handle(old(self).output_handle->Some_0.0),
                            delivery_count: Some(old(self).flow_state.lock.delivery_count),
                            link_credit: Some(max), available: None, drain: false, echo: false, properties: None })))   // [C09.replenish.flow] and the sender is told: a flow with link-credit == max and the current delivery-count
                }
            &&& fire && old(self).output_handle is None ==> r is Err
        }),
//@@ end
}

// ---- ReceiverInner: disposal counting and top-up through the link (C09) ----
#[verifier::external_body]
pub struct DeliveryInfo { _p: u8 }
#[verifier::external_body]
pub struct DeliveryState2 { _p: u8 }
/// the receiver link endpoint as ReceiverInner sees it: send_flow = get_link_flow + queueing the flow (unit LINKFLOW, get_link_flow)
pub struct RFlowStateS { pub draining: bool }
impl RFlowStateS { pub fn drain(&self) -> (r: bool) ensures r == self.draining { self.draining } }
pub struct RLinkS { pub flows: Ghost<Seq<(Option<u32>, Option<bool>, bool, bool)>>, pub disposed: Ghost<Seq<nat>>, pub fs: RFlowStateS }
impl RLinkS {
    #[verifier::external_body]
    pub fn send_flow(&mut self, writer: &mut ChanSender<LinkFrame>, link_credit: Option<u32>, drain: Option<bool>, echo: bool, include_properties: bool) -> (r: Result<(), DispositionError>)
        ensures
            r is Ok ==> final(self).flows@ == old(self).flows@.push((link_credit, drain, echo, include_properties)),
            r is Err ==> final(self).flows@ == old(self).flows@,
            final(self).disposed == old(self).disposed,
    { unimplemented!() }
    pub fn flow_state(&self) -> (r: &RFlowStateS) ensures *r == self.fs { &self.fs }
    #[verifier::external_body]
    pub fn dispose(&mut self, writer: &mut ChanSender<LinkFrame>, info: DeliveryInfo, settled: Option<bool>, state: DeliveryState2, batchable: bool) -> (r: Result<(), DispositionError>)
        ensures
            r is Ok ==> final(self).disposed@ == old(self).disposed@.push(1),
            final(self).flows == old(self).flows,
    { unimplemented!() }
    #[verifier::external_body]
    pub fn dispose_all(&mut self, writer: &mut ChanSender<LinkFrame>, infos: Vec<DeliveryInfo>, settled: Option<bool>, state: DeliveryState2, batchable: bool) -> (r: Result<(), DispositionError>)
        ensures
            r is Ok ==> final(self).disposed@ == old(self).disposed@.push(infos@.len()),
            final(self).flows == old(self).flows,
    { unimplemented!() }
}
/// `incomplete_transfer`: the partly received multi-frame delivery `recv` keeps across cancellations (unit REASM); opaque here
#[verifier::external_body]
pub struct IncompleteTransferS { _p: u8 }
pub struct ReceiverInner { pub link: RLinkS, pub credit_mode: CreditMode, pub processed: AtomicU32S, pub outgoing: ChanSender<LinkFrame>, pub incomplete_transfer: Option<IncompleteTransferS> }

impl ReceiverInner {
//@@ fn file=fe2o3-amqp/src/link/receiver.rs impl=`~impl<L>ReceiverInner<L>where` name=update_credit_if_auto
//@@ selfmut
//@@ subst `&self.outgoing` => `&mut self.outgoing` rule=R9
//@@ spec
    ensures
        ({
            let fire = old(self).credit_mode is Auto && processed >= old(self).credit_mode->Auto_0 / 2;
            &&& !fire ==> r is Ok && *final(self) == *old(self)                                                // [C09.replenish.inner-threshold] no top-up below half of the maximum / in Manual mode
            &&& fire ==> final(self).processed.v == 0
                && (r is Ok ==> final(self).link.flows@ == old(self).link.flows@.push((Some(old(self).credit_mode->Auto_0), Some(false), false, false)))   // [C09.replenish.inner-top-up] at or above half: counter reset and a flow granting the full maximum (drain off) is sent
        }),
        final(self).credit_mode == old(self).credit_mode, final(self).link.disposed == old(self).link.disposed,
//@@ end

//@@ fn file=fe2o3-amqp/src/link/receiver.rs impl=`~impl<L>ReceiverInner<L>where` name=dispose_all
//@@ selfmut
//@@ subst `&self.outgoing` => `&mut self.outgoing` rule=R9
//@@ subst `state: DeliveryState,` => `state: DeliveryState2,` rule=R11
//@@ spec
    requires
        delivery_infos@.len() < 0x8000_0000, old(self).processed.v < 0x8000_0000,     // ASSUMED: fewer than 2^31 deliveries are disposed in one batch / pending since the last top-up
    ensures
        r is Ok ==> ({
            let total = delivery_infos@.len() as int;
            let fire = old(self).credit_mode is Auto && old(self).processed.v + total >= old(self).credit_mode->Auto_0 / 2;
            &&& fire ==> final(self).processed.v == 0
                    && final(self).link.flows@ == old(self).link.flows@.push((Some(old(self).credit_mode->Auto_0), Some(false), false, false))   // [C09.replenish.batch-counts-all] a batch disposal counts ALL its deliveries towards the top-up threshold (so disposing everything at once re-issues credit)
            &&& !fire ==> final(self).processed.v == old(self).processed.v + total && final(self).link.flows@ == old(self).link.flows@
        }),
//@@ end

//@@ fn file=fe2o3-amqp/src/link/receiver.rs impl=`~impl<L>ReceiverInner<L>where` name=set_credit
//@@ ret Result<(), DispositionError>
//@@ subst `&self.outgoing` => `&mut self.outgoing` rule=R9
//@@ spec
    ensures
        final(self).processed.v == 0,
        old(self).credit_mode is Auto ==> final(self).credit_mode == CreditMode::Auto(credit),                  // [C09.set-credit.auto-max] in Auto mode the explicit credit becomes the new maximum the top-up restores
        !(old(self).credit_mode is Auto) ==> final(self).credit_mode == old(self).credit_mode,
        r is Ok ==> final(self).link.flows@ == old(self).link.flows@.push((Some(credit), Some(false), false, false)),   // [C09.set-credit.flow] set_credit sends exactly one flow granting exactly `credit`, with drain switched off
        final(self).incomplete_transfer == old(self).incomplete_transfer,                                       // [C16.set-credit.keeps-the-partial-delivery] [C10.set-credit.keeps-the-partial-delivery] changing the credit -- also to zero, to pause the link -- leaves the partly received delivery alone: its remaining frames are already under way and complete it when recv is called again
//@@ end

//@@ fn file=fe2o3-amqp/src/link/receiver.rs impl=`~impl<L>ReceiverInner<L>where` name=drain
//@@ subst `&self.outgoing` => `&mut self.outgoing` rule=R9
//@@ spec
    ensures
        final(self).processed.v == 0, final(self).credit_mode == old(self).credit_mode, final(self).incomplete_transfer == old(self).incomplete_transfer,
        old(self).link.fs.draining ==> r is Ok && final(self).link.flows@ == old(self).link.flows@,              // [C09.drain.idempotent] draining while already draining sends nothing
        !old(self).link.fs.draining && r is Ok ==> final(self).link.flows@ == old(self).link.flows@.push((None::<u32>, Some(true), false, false)),   // [C09.drain.flow] drain sends one flow with drain=true that leaves the credit as it is
//@@ end

//@@ fn file=fe2o3-amqp/src/link/receiver.rs impl=`~impl<L>ReceiverInner<L>where` name=dispose
//@@ selfmut
//@@ generics
//@@ param delivery_info : DeliveryInfo
//@@ subst `let delivery_info = delivery_info.into();` => `` rule=R16
//@@ subst `state: DeliveryState,` => `state: DeliveryState2,` rule=R11
//@@ subst `&self.outgoing` => `&mut self.outgoing` rule=R9
//@@ spec
    requires old(self).processed.v < 0x8000_0000,
    ensures
        r is Ok ==> ({
            let fire = old(self).credit_mode is Auto && old(self).processed.v + 1 >= old(self).credit_mode->Auto_0 / 2;
            &&& final(self).link.disposed@ == old(self).link.disposed@.push(1)
            &&& fire ==> final(self).processed.v == 0
                    && final(self).link.flows@ == old(self).link.flows@.push((Some(old(self).credit_mode->Auto_0), Some(false), false, false))   // [C09.replenish.single-counts-one] every single disposal counts one towards the top-up threshold
            &&& !fire ==> final(self).processed.v == old(self).processed.v + 1 && final(self).link.flows@ == old(self).link.flows@
        }),
//@@ end
}

/// C09 replenishment argument: with Auto(n), n >= 1, the threshold n/2 is reached no later than the n-th disposal since the
/// last top-up, i.e. before a sender that respects credit can be starved (covers Auto(1): 1/2 == 0).
pub proof fn lemma_c09_threshold_reached_within_credit(n: u32, k: u32)
    requires n >= 1, k >= n,
    ensures n >= n / 2, k >= n / 2,
{
}


// ---------------------------------------------------------------------------------------------
// the accessors of LinkFlowState<R> (link/state.rs): every other unit reads and writes the shared link state through them
impl<R> LinkFlowState<R> {
//@@ fn file=fe2o3-amqp/src/link/state.rs impl=`impl<R> LinkFlowState<R>` name=link_credit id=LinkFlowState::link_credit
//@@ subst `self.lock.read()` => `(&self.lock)` rule=R4
//@@ spec
    ensures r == self.lock.link_credit,       // [C08.state.accessor-reads-its-field] [C09.state.accessor-reads-its-field] link-credit is link-credit: what the sender waits on and the receiver enforces is the number the flow handlers maintain
//@@ end

//@@ fn file=fe2o3-amqp/src/link/state.rs impl=`impl<R> LinkFlowState<R>` name=drain id=LinkFlowState::drain
//@@ subst `self.lock.read()` => `(&self.lock)` rule=R4
//@@ spec
    ensures r == self.lock.drain,       // [C08.state.accessor-reads-its-field] [C09.state.accessor-reads-its-field]
//@@ end

//@@ fn file=fe2o3-amqp/src/link/state.rs impl=`impl<R> LinkFlowState<R>` name=initial_delivery_count id=LinkFlowState::initial_delivery_count
//@@ subst `self.lock.read()` => `(&self.lock)` rule=R4
//@@ spec
    ensures r == self.lock.initial_delivery_count,       // [C08.state.accessor-reads-its-field] [C09.state.accessor-reads-its-field]
//@@ end

//@@ fn file=fe2o3-amqp/src/link/state.rs impl=`impl<R> LinkFlowState<R>` name=initial_delivery_count_mut
//@@ selfmut
//@@ generics <F: Fn(u32) -> u32>
//@@ param f : F
//@@ subst `self.lock.write()` => `(&mut self.lock)` rule=R4
//@@ spec
    requires forall|x: u32| f.requires((x,)),
    ensures f.ensures((old(self).lock.initial_delivery_count,), final(self).lock.initial_delivery_count),
        final(self).lock == (LinkFlowStateInner { initial_delivery_count: final(self).lock.initial_delivery_count, ..old(self).lock }),       // [C08.state.updater-writes-its-field] [C09.state.updater-writes-its-field] the update is applied to initial-delivery-count, computed from its old value, and to nothing else
//@@ end

//@@ fn file=fe2o3-amqp/src/link/state.rs impl=`impl<R> LinkFlowState<R>` name=delivery_count_mut
//@@ selfmut
//@@ generics <F: Fn(u32) -> u32>
//@@ param f : F
//@@ subst `self.lock.write()` => `(&mut self.lock)` rule=R4
//@@ spec
    requires forall|x: u32| f.requires((x,)),
    ensures f.ensures((old(self).lock.delivery_count,), final(self).lock.delivery_count),
        final(self).lock == (LinkFlowStateInner { delivery_count: final(self).lock.delivery_count, ..old(self).lock }),       // [C08.state.updater-writes-its-field] [C09.state.updater-writes-its-field] likewise for delivery-count (what the attach hand-over and the receiver's counting go through)
//@@ end
}
} // verus!
fn main() {}
