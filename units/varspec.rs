// ---- shared specification vocabulary of units SERSTR and DESTR (TRUSTED reading of AMQP 1.0 part 1, 1.6.19-1.6.21, 1.6.24) ----
pub open spec fn be32(x: u32) -> Seq<u8> {
    seq![(x >> 24) as u8, ((x >> 16) & 0xff) as u8, ((x >> 8) & 0xff) as u8, (x & 0xff) as u8]
}
pub open spec fn utf8(s: Seq<char>) -> Seq<u8> { vstd::utf8::encode_utf8(s) }
// ---- AMQP 1.0 variable-width encodings, written from the specification (part 1, 1.6.19-1.6.21 and 1.6.24) ----
/// a variable-width value outside an array: constructor, then a size field that counts the data octets, then the data;
/// the one-octet form only if the size fits one octet
pub open spec fn var_encoding(code8: u8, code32: u8, data: Seq<u8>, out: Seq<u8>) -> bool {
    ||| (data.len() <= 255 && out =~= seq![code8, data.len() as u8] + data)
    ||| (data.len() <= 0xffff_ffff && out =~= seq![code32] + be32(data.len() as u32) + data)
}
/// inside an array every element uses the array's single (32-bit) constructor: it is written before the first element only
/// (an element that does not fit a 32-bit size field is not refused here: the element writer has no length check of its own; what it
/// appends is then at least 2^32 octets long, and the enclosing array -- write_array, unit SERHDR [C05.array.too-long] -- refuses a body that long)
pub open spec fn var_array_elem(code32: u8, e: IsArrayElement, data: Seq<u8>, out: Seq<u8>) -> bool {
    ||| (data.len() <= 0xffff_ffff && out =~= (if e is FirstElement { seq![code32] } else { Seq::<u8>::empty() }) + be32(data.len() as u32) + data)
    ||| (data.len() > 0xffff_ffff && out.len() > 0xffff_ffff)
}
/// octets taken by a variable-width value of l data octets: outside an array 2 + l in the 8-bit form (chosen up to 254) or 5 + l; as first array element 5 + l, as a later one 4 + l
pub open spec fn var_size(e: IsArrayElement, l: int) -> int {
    match e { IsArrayElement::False => if l <= 254 { 2 + l } else { 5 + l }, IsArrayElement::FirstElement => 5 + l, IsArrayElement::OtherElement => 4 + l }
}
