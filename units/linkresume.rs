//@@ unit LINKRESUME
#![feature(allocator_api)]
#![allow(unused_imports, unused_variables, dead_code, unused_mut, unused_parens)]
use vstd::prelude::*;

//@@ gsubst `error.into()` => `error.kind_into()` rule=R16
//@@ macro file=fe2o3-amqp/src/link/sender.rs name=try_as_sender
//@@ macro file=fe2o3-amqp/src/link/receiver.rs name=try_as_recver

verus! {

//@@ trusted the resume family of the public link handles (Sender::detach_then_resume_on_session, DetachedSender::resume*, and the receiver twins) is verified against stand-ins of the inner endpoints that RECORD the calls they receive together with the session the endpoint points at when it receives them (the identity of its control channel and of its outgoing frame queue: rule R8b); `mpsc::Sender::same_channel` compares those identities, `clone` keeps them
//@@ trusted `tokio::time::timeout(d, fut)` is a stand-in over the ALREADY EVALUATED inner call (.await erased, R3): it hands the call's result through or reports that the time ran out -- what a resume cut short by the timer has already put on the wire is not modelled
//@@ trusted the `error.into()` inside the code's own `try_as_sender!` / `try_as_recver!` macros (copied from the source, R10) is routed to a named conversion (R16: vstd gives the identity conversion of `Into` no specification): the error kind itself is kept, a DetachError becomes the kind's Detach variant (thiserror #[from])

macro_rules! opaque {
    ($($n:ident),*) => { verus!{ $(
        #[verifier::external_body]
        pub struct $n { _p: u8 }
    )* } }
}
opaque!(Attach, AmqpError, DetachError, InnerResumeErr, Duration, ElapsedS);
pub trait AwaitS: Sized { type Out; spec fn resolved(self) -> Self::Out; fn await_s(self) -> (r: Self::Out) ensures r == self.resolved(); }
impl<T, E> AwaitS for Result<T, E> { type Out = Result<T, E>; open spec fn resolved(self) -> Result<T, E> { self } fn await_s(self) -> (r: Result<T, E>) { self } }
/// a channel end with an identity: the session it leads to
pub struct ChanS { pub id: Ghost<int> }
impl ChanS {
    pub fn same_channel(&self, other: &ChanS) -> (r: bool) ensures r == (self.id@ == other.id@) { let ghost a = self.id@; let ghost b = other.id@; same_channel_x(self, other) }
}
#[verifier::external_body]
pub fn same_channel_x(a: &ChanS, b: &ChanS) -> (r: bool) ensures r == (a.id@ == b.id@) { unimplemented!() }
impl Clone for ChanS { fn clone(&self) -> (r: Self) ensures r == *self { ChanS { id: self.id } } }
pub struct SessionHandle { pub control: ChanS, pub outgoing: ChanS }
/// what an inner endpoint is asked to do, and on which session it stands at that moment
pub enum Op {
    Detach { session: int, outgoing: int, error: Option<AmqpError> },
    Resume { session: int, outgoing: int, remote: Option<Attach>, reattaching: bool },
}
#[verifier::external_body]
pub fn timeout_s<T>(d: Duration, fut: T) -> (r: Result<T, ElapsedS>) ensures r is Ok ==> r->Ok_0 == fut { unimplemented!() }

// ================================================================ sender
pub mod snd {
use super::*;
pub enum SenderResumeErrorKind { Inner(InnerResumeErr), Detach(DetachError), Timeout }
pub trait KindInto: Sized { spec fn kind(self) -> SenderResumeErrorKind; fn kind_into(self) -> (r: SenderResumeErrorKind) ensures r == self.kind(); }
impl KindInto for SenderResumeErrorKind { open spec fn kind(self) -> SenderResumeErrorKind { self } fn kind_into(self) -> (r: SenderResumeErrorKind) { self } }
impl KindInto for DetachError { open spec fn kind(self) -> SenderResumeErrorKind { SenderResumeErrorKind::Detach(self) } fn kind_into(self) -> (r: SenderResumeErrorKind) { SenderResumeErrorKind::Detach(self) } }
pub enum DetachThenResumeSenderError { Detach(DetachError), Resume(SenderResumeErrorKind) }
pub struct SenderInner { pub session: ChanS, pub outgoing: ChanS, pub ops: Ghost<Seq<Op>>, pub g: Ghost<int> }
pub uninterp spec fn detach_res(inner: SenderInner, error: Option<AmqpError>) -> Result<(), DetachError>;
pub uninterp spec fn resume_res(inner: SenderInner, remote: Option<Attach>, reattaching: bool) -> Result<(), SenderResumeErrorKind>;
impl SenderInner {
    #[verifier::external_body]
    pub fn detach_with_error(&mut self, error: Option<AmqpError>) -> (r: Result<(), DetachError>)
        ensures final(self).ops@ == old(self).ops@.push(Op::Detach { session: old(self).session.id@, outgoing: old(self).outgoing.id@, error }),
            final(self).session == old(self).session, final(self).outgoing == old(self).outgoing, r == detach_res(*old(self), error),
    { unimplemented!() }
    #[verifier::external_body]
    pub fn resume_incoming_attach(&mut self, remote: Option<Attach>, is_reattaching: bool) -> (r: Result<(), SenderResumeErrorKind>)
        ensures final(self).ops@ == old(self).ops@.push(Op::Resume { session: old(self).session.id@, outgoing: old(self).outgoing.id@, remote, reattaching: is_reattaching }),
            final(self).session == old(self).session, final(self).outgoing == old(self).outgoing, r == resume_res(*old(self), remote, is_reattaching),
    { unimplemented!() }
}
pub struct Sender { pub inner: SenderInner }
pub struct DetachedSender { pub inner: SenderInner }
pub struct SenderResumeError { pub detached_sender: DetachedSender, pub kind: SenderResumeErrorKind }
/// the endpoint moved to session `h` (control channel and outgoing queue of THAT session)
pub open spec fn on_session(i: SenderInner, h: SessionHandle) -> bool { i.session.id@ == h.control.id@ && i.outgoing.id@ == h.outgoing.id@ }
/// ONE resume was asked of the endpoint, standing on session (s, o), with this attach and this re-attach flag, and nothing else
pub open spec fn one_resume(i0: SenderInner, i1: SenderInner, s: int, o: int, remote: Option<Attach>, reattaching: bool) -> bool {
    i1.ops@ == i0.ops@.push(Op::Resume { session: s, outgoing: o, remote, reattaching })
}

impl Sender {
//@@ fn file=fe2o3-amqp/src/link/sender.rs impl=`impl Sender` name=detach_then_resume_on_session id=Sender::detach_then_resume_on_session
//@@ awaitcall
//@@ generics
//@@ param new_session : &SessionHandle
//@@ spec
    ensures
        final(self).inner.ops@ == old(self).inner.ops@
            .push(Op::Detach { session: old(self).inner.session.id@, outgoing: old(self).inner.outgoing.id@, error: None::<AmqpError> })
            .push(Op::Resume { session: new_session.control.id@, outgoing: new_session.outgoing.id@, remote: None::<Attach>, reattaching: old(self).inner.session.id@ != new_session.control.id@ }),
            // [C13.resume.detach-on-the-old-session-attach-on-the-new] [C11.resume.detach-on-the-old-session-attach-on-the-new] moving a link to another session detaches it on the session it IS attached on (its control channel and frame queue at that moment) and only then attaches it through the new session's channels: the detach names a handle of the old session's table, the attach gets one from the new session's; "re-attaching" (a fresh handle AND a fresh entry in the session's tables) exactly when the session really changes
        on_session(final(self).inner, *new_session),
//@@ end
}

impl DetachedSender {
//@@ fn file=fe2o3-amqp/src/link/sender.rs impl=`impl DetachedSender` name=resume_inner id=DetachedSender::resume_inner
//@@ awaitcall
//@@ ret Result<Sender, SenderResumeError>
//@@ spec
    ensures
        ({ let i1 = match r { Ok(s) => s.inner, Err(e) => e.detached_sender.inner };
           one_resume(self.inner, i1, self.inner.session.id@, self.inner.outgoing.id@, None::<Attach>, is_reattaching) && i1.session == self.inner.session && i1.outgoing == self.inner.outgoing }),       // [C13.resume.one-attach-exchange-on-the-links-session] a resume asks the endpoint for exactly one attach exchange, on the session the endpoint points at, and the endpoint is handed back whole -- attached (Ok) or still detached (Err) -- never dropped
        (r is Ok) == (resume_res(self.inner, None::<Attach>, is_reattaching) is Ok),
        r is Err ==> r->Err_0.kind == resume_res(self.inner, None::<Attach>, is_reattaching)->Err_0,       // [C14.resume.error-reported-as-it-is]
//@@ end

//@@ fn file=fe2o3-amqp/src/link/sender.rs impl=`impl DetachedSender` name=resume id=DetachedSender::resume
//@@ awaitcall
//@@ ret Result<Sender, SenderResumeError>
//@@ spec
    ensures
        ({ let i1 = match r { Ok(s) => s.inner, Err(e) => e.detached_sender.inner };
           one_resume(self.inner, i1, self.inner.session.id@, self.inner.outgoing.id@, None::<Attach>, false) && i1.session == self.inner.session && i1.outgoing == self.inner.outgoing }),       // [C13.resume.one-attach-exchange-on-the-links-session] on its own session a link is resumed, not re-attached
        (r is Ok) == (resume_res(self.inner, None::<Attach>, false) is Ok),
//@@ end

//@@ fn file=fe2o3-amqp/src/link/sender.rs impl=`impl DetachedSender` name=resume_incoming_attach id=DetachedSender::resume_incoming_attach
//@@ awaitcall
//@@ ret Result<Sender, SenderResumeError>
//@@ spec
    ensures
        ({ let i1 = match r { Ok(s) => s.inner, Err(e) => e.detached_sender.inner };
           one_resume(self.inner, i1, self.inner.session.id@, self.inner.outgoing.id@, Some(remote_attach), false) && i1.session == self.inner.session && i1.outgoing == self.inner.outgoing }),       // [C13.resume.peers-attach-handed-to-the-endpoint] the peer's attach the application took from the link acceptor is the one the endpoint completes the exchange with
        (r is Ok) == (resume_res(self.inner, Some(remote_attach), false) is Ok),
//@@ end

//@@ fn file=fe2o3-amqp/src/link/sender.rs impl=`impl DetachedSender` name=resume_on_session id=DetachedSender::resume_on_session
//@@ awaitcall
//@@ generics
//@@ param session : &SessionHandle
//@@ ret Result<Sender, SenderResumeError>
//@@ spec
    ensures
        ({ let i1 = match r { Ok(s) => s.inner, Err(e) => e.detached_sender.inner };
           one_resume(self.inner, i1, session.control.id@, session.outgoing.id@, None::<Attach>, self.inner.session.id@ != session.control.id@) && on_session(i1, *session) }),       // [C13.resume.on-the-session-named] [C11.resume.on-the-session-named] resumed on another session, every frame of the link from now on goes through THAT session's control channel and frame queue -- both of them -- and the attach is a re-attach exactly when the session differs from the one the link was on
//@@ end

//@@ fn file=fe2o3-amqp/src/link/sender.rs impl=`impl DetachedSender` name=resume_incoming_attach_on_session id=DetachedSender::resume_incoming_attach_on_session
//@@ awaitcall
//@@ generics
//@@ param session : &SessionHandle
//@@ ret Result<Sender, SenderResumeError>
//@@ spec
    ensures
        ({ let i1 = match r { Ok(s) => s.inner, Err(e) => e.detached_sender.inner };
           one_resume(self.inner, i1, session.control.id@, session.outgoing.id@, Some(remote_attach), self.inner.session.id@ != session.control.id@) && on_session(i1, *session) }),       // [C13.resume.on-the-session-named] [C11.resume.on-the-session-named]
//@@ end

//@@ fn file=fe2o3-amqp/src/link/sender.rs impl=`impl DetachedSender` name=resume_with_timeout_inner id=DetachedSender::resume_with_timeout_inner
//@@ awaitcall
//@@ ret Result<Sender, SenderResumeError>
//@@ subst `tokio::time::timeout(duration, fut)` => `timeout_s(duration, fut)` rule=R9
//@@ spec
    ensures
        ({ let i1 = match r { Ok(s) => s.inner, Err(e) => e.detached_sender.inner };
           &&& i1.session == self.inner.session && i1.outgoing == self.inner.outgoing
           &&& i1.ops@.len() >= self.inner.ops@.len() + 1 && i1.ops@.subrange(0, self.inner.ops@.len() as int) =~= self.inner.ops@ && i1.ops@[self.inner.ops@.len() as int] == (Op::Resume { session: self.inner.session.id@, outgoing: self.inner.outgoing.id@, remote: None::<Attach>, reattaching: is_reattaching })
           &&& r is Ok ==> i1.ops@.len() == self.inner.ops@.len() + 1 && resume_res(self.inner, None::<Attach>, is_reattaching) is Ok
           &&& i1.ops@.len() > self.inner.ops@.len() + 1 ==> i1.ops@.len() == self.inner.ops@.len() + 2 && i1.ops@.last() == (Op::Detach { session: self.inner.session.id@, outgoing: self.inner.outgoing.id@, error: None::<AmqpError> }) }),       // [C13.resume.timed-out-attach-is-detached] a resume that ran out of time is followed by ONE detach on the same session (the half-made attach is taken back), and nothing else; a resume that completed is followed by nothing
//@@ end

//@@ fn file=fe2o3-amqp/src/link/sender.rs impl=`impl DetachedSender` name=resume_incoming_attach_with_timeout_inner id=DetachedSender::resume_incoming_attach_with_timeout_inner
//@@ awaitcall
//@@ ret Result<Sender, SenderResumeError>
//@@ subst `tokio::time::timeout(duration, fut)` => `timeout_s(duration, fut)` rule=R9
//@@ spec
    ensures
        ({ let i1 = match r { Ok(s) => s.inner, Err(e) => e.detached_sender.inner };
           &&& i1.session == self.inner.session && i1.outgoing == self.inner.outgoing
           &&& i1.ops@.len() >= self.inner.ops@.len() + 1 && i1.ops@.subrange(0, self.inner.ops@.len() as int) =~= self.inner.ops@ && i1.ops@[self.inner.ops@.len() as int] == (Op::Resume { session: self.inner.session.id@, outgoing: self.inner.outgoing.id@, remote: Some(remote_attach), reattaching: is_reattaching })
           &&& r is Ok ==> i1.ops@.len() == self.inner.ops@.len() + 1
           &&& i1.ops@.len() > self.inner.ops@.len() + 1 ==> i1.ops@.len() == self.inner.ops@.len() + 2 && i1.ops@.last() == (Op::Detach { session: self.inner.session.id@, outgoing: self.inner.outgoing.id@, error: None::<AmqpError> }) }),       // [C13.resume.timed-out-attach-is-detached]
//@@ end

//@@ fn file=fe2o3-amqp/src/link/sender.rs impl=`impl DetachedSender` name=resume_on_session_with_timeout id=DetachedSender::resume_on_session_with_timeout
//@@ awaitcall
//@@ generics
//@@ param session : &SessionHandle
//@@ ret Result<Sender, SenderResumeError>
//@@ spec
    ensures
        ({ let i1 = match r { Ok(s) => s.inner, Err(e) => e.detached_sender.inner };
           on_session(i1, *session) && i1.ops@.len() >= self.inner.ops@.len() + 1
           && i1.ops@[self.inner.ops@.len() as int] == (Op::Resume { session: session.control.id@, outgoing: session.outgoing.id@, remote: None::<Attach>, reattaching: self.inner.session.id@ != session.control.id@ }) }),       // [C13.resume.on-the-session-named] [C11.resume.on-the-session-named]
//@@ end

//@@ fn file=fe2o3-amqp/src/link/sender.rs impl=`impl DetachedSender` name=resume_incoming_attach_on_session_with_timeout id=DetachedSender::resume_incoming_attach_on_session_with_timeout
//@@ awaitcall
//@@ generics
//@@ param session : &SessionHandle
//@@ ret Result<Sender, SenderResumeError>
//@@ spec
    ensures
        ({ let i1 = match r { Ok(s) => s.inner, Err(e) => e.detached_sender.inner };
           on_session(i1, *session) && i1.ops@.len() >= self.inner.ops@.len() + 1
           && i1.ops@[self.inner.ops@.len() as int] == (Op::Resume { session: session.control.id@, outgoing: session.outgoing.id@, remote: Some(remote_attach), reattaching: self.inner.session.id@ != session.control.id@ }) }),       // [C13.resume.on-the-session-named] [C11.resume.on-the-session-named]
//@@ end
}
} // mod snd

// ================================================================ receiver
pub mod rcv {
use super::*;
pub enum ReceiverResumeErrorKind { Inner(InnerResumeErr), Detach(DetachError), Timeout }
pub trait KindInto: Sized { spec fn kind(self) -> ReceiverResumeErrorKind; fn kind_into(self) -> (r: ReceiverResumeErrorKind) ensures r == self.kind(); }
impl KindInto for ReceiverResumeErrorKind { open spec fn kind(self) -> ReceiverResumeErrorKind { self } fn kind_into(self) -> (r: ReceiverResumeErrorKind) { self } }
impl KindInto for DetachError { open spec fn kind(self) -> ReceiverResumeErrorKind { ReceiverResumeErrorKind::Detach(self) } fn kind_into(self) -> (r: ReceiverResumeErrorKind) { ReceiverResumeErrorKind::Detach(self) } }
pub enum DetachThenResumeReceiverError { Detach(DetachError), Resume(ReceiverResumeErrorKind) }
/// the two `#[from]` conversions of the error enum (thiserror): each error kept, under the variant of its kind
pub trait DtrFrom: Sized { spec fn dtr(self) -> DetachThenResumeReceiverError; fn to_dtr(self) -> (r: DetachThenResumeReceiverError) ensures r == self.dtr(); }
impl DtrFrom for DetachError { open spec fn dtr(self) -> DetachThenResumeReceiverError { DetachThenResumeReceiverError::Detach(self) } fn to_dtr(self) -> (r: DetachThenResumeReceiverError) { DetachThenResumeReceiverError::Detach(self) } }
impl DtrFrom for ReceiverResumeErrorKind { open spec fn dtr(self) -> DetachThenResumeReceiverError { DetachThenResumeReceiverError::Resume(self) } fn to_dtr(self) -> (r: DetachThenResumeReceiverError) { DetachThenResumeReceiverError::Resume(self) } }
pub trait MapErrFrom<T>: Sized { spec fn mapped(self) -> Result<T, DetachThenResumeReceiverError>; fn map_err_from(self) -> (r: Result<T, DetachThenResumeReceiverError>) ensures r == self.mapped(); }
impl<T, E: DtrFrom> MapErrFrom<T> for Result<T, E> {
    open spec fn mapped(self) -> Result<T, DetachThenResumeReceiverError> { match self { Ok(v) => Ok(v), Err(e) => Err(e.dtr()) } }
    fn map_err_from(self) -> (r: Result<T, DetachThenResumeReceiverError>) { match self { Ok(v) => Ok(v), Err(e) => Err(e.to_dtr()) } }
}
//@@ type file=fe2o3-amqp/src/link/mod.rs kind=enum name=ReceiverAttachExchange
//@@ end
pub struct ReceiverInner { pub session: ChanS, pub outgoing: ChanS, pub ops: Ghost<Seq<Op>>, pub g: Ghost<int> }
pub uninterp spec fn detach_res(inner: ReceiverInner, error: Option<AmqpError>) -> Result<(), DetachError>;
pub uninterp spec fn resume_res(inner: ReceiverInner, remote: Option<Attach>, reattaching: bool) -> Result<ReceiverAttachExchange, ReceiverResumeErrorKind>;
impl ReceiverInner {
    #[verifier::external_body]
    pub fn detach_with_error(&mut self, error: Option<AmqpError>) -> (r: Result<(), DetachError>)
        ensures final(self).ops@ == old(self).ops@.push(Op::Detach { session: old(self).session.id@, outgoing: old(self).outgoing.id@, error }),
            final(self).session == old(self).session, final(self).outgoing == old(self).outgoing, r == detach_res(*old(self), error),
    { unimplemented!() }
    #[verifier::external_body]
    pub fn resume_incoming_attach(&mut self, remote: Option<Attach>, is_reattaching: bool) -> (r: Result<ReceiverAttachExchange, ReceiverResumeErrorKind>)
        ensures final(self).ops@ == old(self).ops@.push(Op::Resume { session: old(self).session.id@, outgoing: old(self).outgoing.id@, remote, reattaching: is_reattaching }),
            final(self).session == old(self).session, final(self).outgoing == old(self).outgoing, r == resume_res(*old(self), remote, is_reattaching),
    { unimplemented!() }
}
pub struct Receiver { pub inner: ReceiverInner }
pub struct DetachedReceiver { pub inner: ReceiverInner }
pub struct ReceiverResumeError { pub detached_recver: DetachedReceiver, pub kind: ReceiverResumeErrorKind }
//@@ type file=fe2o3-amqp/src/link/receiver.rs kind=enum name=ResumingReceiver
//@@ end
pub open spec fn on_session(i: ReceiverInner, h: SessionHandle) -> bool { i.session.id@ == h.control.id@ && i.outgoing.id@ == h.outgoing.id@ }
pub open spec fn inner_of(r: Result<ResumingReceiver, ReceiverResumeError>) -> ReceiverInner {
    match r { Ok(ResumingReceiver::Complete(x)) => x.inner, Ok(ResumingReceiver::IncompleteUnsettled(x)) => x.inner, Ok(ResumingReceiver::Resume(x)) => x.inner, Err(e) => e.detached_recver.inner }
}
/// the outcome names the state the attach exchange ended in
pub open spec fn names(r: ResumingReceiver, e: ReceiverAttachExchange) -> bool {
    match e { ReceiverAttachExchange::Complete => r is Complete, ReceiverAttachExchange::IncompleteUnsettled => r is IncompleteUnsettled, ReceiverAttachExchange::Resume => r is Resume }
}
pub open spec fn one_resume(i0: ReceiverInner, i1: ReceiverInner, s: int, o: int, remote: Option<Attach>, reattaching: bool) -> bool {
    i1.ops@ == i0.ops@.push(Op::Resume { session: s, outgoing: o, remote, reattaching })
}

impl Receiver {
//@@ fn file=fe2o3-amqp/src/link/receiver.rs impl=`impl Receiver` name=detach_then_resume_on_session id=Receiver::detach_then_resume_on_session
//@@ awaitcall
//@@ generics
//@@ param new_session : &SessionHandle
//@@ subst `.map_err(DetachThenResumeReceiverError::from)` => `.map_err_from()` rule=R17
//@@ spec
    ensures
        final(self).inner.ops@ == old(self).inner.ops@
            .push(Op::Detach { session: old(self).inner.session.id@, outgoing: old(self).inner.outgoing.id@, error: None::<AmqpError> })
            .push(Op::Resume { session: new_session.control.id@, outgoing: new_session.outgoing.id@, remote: None::<Attach>, reattaching: old(self).inner.session.id@ != new_session.control.id@ }),       // [C13.resume.detach-on-the-old-session-attach-on-the-new] [C11.resume.detach-on-the-old-session-attach-on-the-new]
        on_session(final(self).inner, *new_session),
//@@ end
}

impl DetachedReceiver {
//@@ fn file=fe2o3-amqp/src/link/receiver.rs impl=`impl DetachedReceiver` name=resume_inner id=DetachedReceiver::resume_inner
//@@ awaitcall
//@@ ret Result<ResumingReceiver, ReceiverResumeError>
//@@ spec
    ensures
        ({ let i1 = inner_of(r);
           one_resume(self.inner, i1, self.inner.session.id@, self.inner.outgoing.id@, None::<Attach>, is_reattaching) && i1.session == self.inner.session && i1.outgoing == self.inner.outgoing }),       // [C13.resume.one-attach-exchange-on-the-links-session]
        (r is Ok) == (resume_res(self.inner, None::<Attach>, is_reattaching) is Ok),
        r is Ok ==> names(r->Ok_0, resume_res(self.inner, None::<Attach>, is_reattaching)->Ok_0),       // [C13.resume.outcome-names-the-exchange] [C02.resume.outcome-names-the-exchange] the application is told how the exchange ended -- complete, incomplete unsettled maps, or deliveries to resume -- as the endpoint found it: it decides on that whether the link must be suspended and resumed again before deliveries flow
        r is Err ==> r->Err_0.kind == resume_res(self.inner, None::<Attach>, is_reattaching)->Err_0,       // [C14.resume.error-reported-as-it-is]
//@@ end

//@@ fn file=fe2o3-amqp/src/link/receiver.rs impl=`impl DetachedReceiver` name=resume id=DetachedReceiver::resume
//@@ awaitcall
//@@ ret Result<ResumingReceiver, ReceiverResumeError>
//@@ spec
    ensures
        ({ let i1 = inner_of(r);
           one_resume(self.inner, i1, self.inner.session.id@, self.inner.outgoing.id@, None::<Attach>, false) && i1.session == self.inner.session && i1.outgoing == self.inner.outgoing }),       // [C13.resume.one-attach-exchange-on-the-links-session]
        r is Ok ==> names(r->Ok_0, resume_res(self.inner, None::<Attach>, false)->Ok_0),       // [C13.resume.outcome-names-the-exchange]
//@@ end

//@@ fn file=fe2o3-amqp/src/link/receiver.rs impl=`impl DetachedReceiver` name=resume_incoming_attach id=DetachedReceiver::resume_incoming_attach
//@@ awaitcall
//@@ ret Result<ResumingReceiver, ReceiverResumeError>
//@@ spec
    ensures
        ({ let i1 = inner_of(r);
           one_resume(self.inner, i1, self.inner.session.id@, self.inner.outgoing.id@, Some(remote_attach), false) && i1.session == self.inner.session && i1.outgoing == self.inner.outgoing }),       // [C13.resume.peers-attach-handed-to-the-endpoint]
        r is Ok ==> names(r->Ok_0, resume_res(self.inner, Some(remote_attach), false)->Ok_0),       // [C13.resume.outcome-names-the-exchange]
//@@ end

//@@ fn file=fe2o3-amqp/src/link/receiver.rs impl=`impl DetachedReceiver` name=resume_on_session id=DetachedReceiver::resume_on_session
//@@ awaitcall
//@@ generics
//@@ param session : &SessionHandle
//@@ ret Result<ResumingReceiver, ReceiverResumeError>
//@@ spec
    ensures
        ({ let i1 = inner_of(r);
           one_resume(self.inner, i1, session.control.id@, session.outgoing.id@, None::<Attach>, self.inner.session.id@ != session.control.id@) && on_session(i1, *session) }),       // [C13.resume.on-the-session-named] [C11.resume.on-the-session-named]
//@@ end

//@@ fn file=fe2o3-amqp/src/link/receiver.rs impl=`impl DetachedReceiver` name=resume_incoming_attach_on_session id=DetachedReceiver::resume_incoming_attach_on_session
//@@ awaitcall
//@@ generics
//@@ param session : &SessionHandle
//@@ ret Result<ResumingReceiver, ReceiverResumeError>
//@@ spec
    ensures
        ({ let i1 = inner_of(r);
           one_resume(self.inner, i1, session.control.id@, session.outgoing.id@, Some(remote_attach), self.inner.session.id@ != session.control.id@) && on_session(i1, *session) }),       // [C13.resume.on-the-session-named] [C11.resume.on-the-session-named]
        r is Ok ==> names(r->Ok_0, resume_res(ReceiverInner { session: session.control, outgoing: session.outgoing, ..self.inner }, Some(remote_attach), self.inner.session.id@ != session.control.id@)->Ok_0),       // [C13.resume.outcome-names-the-exchange]
//@@ end

//@@ fn file=fe2o3-amqp/src/link/receiver.rs impl=`impl DetachedReceiver` name=resume_with_timeout_inner id=DetachedReceiver::resume_with_timeout_inner
//@@ awaitcall
//@@ ret Result<ResumingReceiver, ReceiverResumeError>
//@@ subst `tokio::time::timeout(duration, fut)` => `timeout_s(duration, fut)` rule=R9
//@@ spec
    ensures
        ({ let i1 = inner_of(r);
           &&& i1.session == self.inner.session && i1.outgoing == self.inner.outgoing
           &&& i1.ops@.len() >= self.inner.ops@.len() + 1 && i1.ops@.subrange(0, self.inner.ops@.len() as int) =~= self.inner.ops@ && i1.ops@[self.inner.ops@.len() as int] == (Op::Resume { session: self.inner.session.id@, outgoing: self.inner.outgoing.id@, remote: None::<Attach>, reattaching: is_reattaching })
           &&& r is Ok ==> i1.ops@.len() == self.inner.ops@.len() + 1 && resume_res(self.inner, None::<Attach>, is_reattaching) is Ok && names(r->Ok_0, resume_res(self.inner, None::<Attach>, is_reattaching)->Ok_0)
           &&& i1.ops@.len() > self.inner.ops@.len() + 1 ==> i1.ops@.len() == self.inner.ops@.len() + 2 && i1.ops@.last() == (Op::Detach { session: self.inner.session.id@, outgoing: self.inner.outgoing.id@, error: None::<AmqpError> }) }),       // [C13.resume.timed-out-attach-is-detached] [C13.resume.outcome-names-the-exchange]
//@@ end

//@@ fn file=fe2o3-amqp/src/link/receiver.rs impl=`impl DetachedReceiver` name=resume_incoming_attach_with_timeout id=DetachedReceiver::resume_incoming_attach_with_timeout
//@@ awaitcall
//@@ ret Result<ResumingReceiver, ReceiverResumeError>
//@@ subst `tokio::time::timeout(duration, fut)` => `timeout_s(duration, fut)` rule=R9
//@@ spec
    ensures
        ({ let i1 = inner_of(r);
           &&& i1.session == self.inner.session && i1.outgoing == self.inner.outgoing
           &&& i1.ops@.len() >= self.inner.ops@.len() + 1 && i1.ops@.subrange(0, self.inner.ops@.len() as int) =~= self.inner.ops@ && i1.ops@[self.inner.ops@.len() as int] == (Op::Resume { session: self.inner.session.id@, outgoing: self.inner.outgoing.id@, remote: Some(remote_attach), reattaching: false })
           &&& r is Ok ==> i1.ops@.len() == self.inner.ops@.len() + 1 && names(r->Ok_0, resume_res(self.inner, Some(remote_attach), false)->Ok_0)
           &&& i1.ops@.len() > self.inner.ops@.len() + 1 ==> i1.ops@.len() == self.inner.ops@.len() + 2 && i1.ops@.last() == (Op::Detach { session: self.inner.session.id@, outgoing: self.inner.outgoing.id@, error: None::<AmqpError> }) }),       // [C13.resume.timed-out-attach-is-detached] [C13.resume.peers-attach-handed-to-the-endpoint]
//@@ end

//@@ fn file=fe2o3-amqp/src/link/receiver.rs impl=`impl DetachedReceiver` name=resume_on_session_with_timeout id=DetachedReceiver::resume_on_session_with_timeout
//@@ awaitcall
//@@ generics
//@@ param session : &SessionHandle
//@@ ret Result<ResumingReceiver, ReceiverResumeError>
//@@ spec
    ensures
        ({ let i1 = inner_of(r);
           on_session(i1, *session) && i1.ops@.len() >= self.inner.ops@.len() + 1
           && i1.ops@[self.inner.ops@.len() as int] == (Op::Resume { session: session.control.id@, outgoing: session.outgoing.id@, remote: None::<Attach>, reattaching: self.inner.session.id@ != session.control.id@ }) }),       // [C13.resume.on-the-session-named] [C11.resume.on-the-session-named]
//@@ end

//@@ fn file=fe2o3-amqp/src/link/receiver.rs impl=`impl DetachedReceiver` name=resume_incoming_attach_on_session_with_timeout id=DetachedReceiver::resume_incoming_attach_on_session_with_timeout
//@@ awaitcall
//@@ generics
//@@ param session : &SessionHandle
//@@ ret Result<ResumingReceiver, ReceiverResumeError>
//@@ subst `tokio::time::timeout(duration, fut)` => `timeout_s(duration, fut)` rule=R9
//@@ spec
    ensures
        ({ let i1 = inner_of(r);
           &&& on_session(i1, *session)
           &&& i1.ops@.len() >= self.inner.ops@.len() + 1 && i1.ops@[self.inner.ops@.len() as int] == (Op::Resume { session: session.control.id@, outgoing: session.outgoing.id@, remote: Some(remote_attach), reattaching: self.inner.session.id@ != session.control.id@ })
           &&& i1.ops@.len() > self.inner.ops@.len() + 1 ==> i1.ops@.len() == self.inner.ops@.len() + 2 && i1.ops@.last() == (Op::Detach { session: session.control.id@, outgoing: session.outgoing.id@, error: None::<AmqpError> }) }),       // [C13.resume.on-the-session-named] [C11.resume.on-the-session-named] [C13.resume.timed-out-attach-is-detached] the attach, and the detach that takes a timed-out attach back, both go through the NEW session's control channel AND frame queue
        r is Ok ==> names(r->Ok_0, resume_res(ReceiverInner { session: session.control, outgoing: session.outgoing, ..self.inner }, Some(remote_attach), self.inner.session.id@ != session.control.id@)->Ok_0),       // [C13.resume.outcome-names-the-exchange]
//@@ end
}
} // mod rcv

} // verus!
fn main() {}
