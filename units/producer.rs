//@@ unit PRODUCER
#![feature(allocator_api)]
#![allow(unused_imports, unused_variables, dead_code, unused_mut, unused_parens)]
use vstd::prelude::*;

verus! {

//@@ trusted the producer's state (Arc<LinkFlowState<SenderMarker>>: update_state = on_incoming_flow, unit LINKFLOW) is a stand-in that records the items applied to it; tokio's Notify::notify_waiters is a stand-in whose call is rewritten to carry, as ghost arguments, the applied-items trace at function entry and at the call (R9): its precondition is the ORDER obligation
//@@ trusted this is a sequential obligation (the flow is applied to the shared state before any waiter is woken); what the woken sender task then does, and the window between a waiter's failed credit check and its registration with Notify (consume: check, then notified().await), are interleavings outside contract reach

#[verifier::external_body]
pub struct Item { _p: u8 }
#[verifier::external_body]
pub struct Outcome { _p: u8 }
pub struct StateS { pub applied: Ghost<Seq<Item>> }
impl StateS {
    #[verifier::external_body]
    pub fn update_state(&mut self, item: Item) -> (r: Outcome)
        ensures final(self).applied@ == old(self).applied@.push(item),
    { unimplemented!() }
}
pub struct NotifyS { pub g: Ghost<int> }
impl NotifyS {
    /// Notify::notify_waiters(), with the producer state's trace before the call of produce and now
    #[verifier::external_body]
    pub fn notify_waiters(&self, Ghost(item): Ghost<Item>, Ghost(before): Ghost<Seq<Item>>, Ghost(now): Ghost<Seq<Item>>)
        requires now == before.push(item),       // [C08.flow.applied-before-wakeup] the incoming flow (new link-credit) is applied to the shared link state BEFORE the waiting sender is woken: a sender woken earlier re-checks the old credit, goes back to sleep and is never woken for this grant
    { unimplemented!() }
}
pub struct Producer { pub notifier: NotifyS, pub state: StateS }

impl Producer {
//@@ fn file=fe2o3-amqp/src/util/producer.rs impl=`~impl<T>ProduceforProducer<T>where` name=produce
//@@ generics
//@@ nowhere
//@@ param item : Item
//@@ ret Outcome
//@@ subst `self.notifier.notify_waiters()` => `self.notifier.notify_waiters(Ghost(__item), Ghost(__before), Ghost(self.state.applied@))` rule=R9
//@@ entry
    let ghost __item = item;
    let ghost __before = self.state.applied@;
//@@ spec
    ensures final(self).state.applied@ == old(self).state.applied@.push(item),       // [C08.flow.applied-once] the flow is applied exactly once
//@@ end
}

} // verus!
fn main() {}
