//@@ unit PRODUCER
#![feature(allocator_api)]
#![allow(unused_imports, unused_variables, dead_code, unused_mut, unused_parens)]
use vstd::prelude::*;

verus! {

//@@ trusted the producer's state (Arc<LinkFlowState<SenderMarker>>: update_state = on_incoming_flow, unit LINKFLOW) is a stand-in that records the items applied to it; tokio's Notify::notify_waiters is a stand-in whose call is rewritten to carry, as ghost arguments, the applied-items trace at function entry and at the call (R9): its precondition is the ORDER obligation
//@@ trusted this is a sequential obligation (the flow is applied to the shared state before any waiter is woken); what the woken sender task then does, and the window between a waiter's failed credit check and its registration with Notify (consume: check, then notified().await), are interleavings outside contract reach

#[verifier::external_body]
pub struct Item { _p: u8 }
#[verifier::external_body]
pub struct Outcome { _p: u8 }
pub struct StateS { pub applied: Ghost<Seq<Item>> }
impl StateS {
    #[verifier::external_body]
    pub fn update_state(&mut self, item: Item) -> (r: Outcome)
        ensures final(self).applied@ == old(self).applied@.push(item),
    { unimplemented!() }
}
pub struct NotifyS { pub g: Ghost<int> }
impl NotifyS {
    /// Notify::notify_waiters(), with the producer state's trace before the call of produce and now
    #[verifier::external_body]
    pub fn notify_waiters(&self, Ghost(item): Ghost<Item>, Ghost(before): Ghost<Seq<Item>>, Ghost(now): Ghost<Seq<Item>>)
        requires now == before.push(item),       // [C08.flow.applied-before-wakeup] the incoming flow (new link-credit) is applied to the shared link state BEFORE the waiting sender is woken: a sender woken earlier re-checks the old credit, goes back to sleep and is never woken for this grant
    { unimplemented!() }
}
pub struct Producer { pub notifier: NotifyS, pub state: StateS }

impl Producer {
//@@ fn file=fe2o3-amqp/src/util/producer.rs impl=`~impl<T>ProduceforProducer<T>where` name=produce
//@@ generics
//@@ nowhere
//@@ param item : Item
//@@ ret Outcome
//@@ subst `self.notifier.notify_waiters()` => `self.notifier.notify_waiters(Ghost(__item), Ghost(__before), Ghost(self.state.applied@))` rule=R9
//@@ entry
    let ghost __item = item;
    let ghost __before = self.state.applied@;
//@@ spec
    ensures final(self).state.applied@ == old(self).state.applied@.push(item),       // [C08.flow.applied-once] the flow is applied exactly once
//@@ end
}

// ---------------------------------------------------------------------------------------------------------------
// the waiting side: SenderFlowState::consume (link/state.rs)
//@@ trusted tokio's Notify as used here: notify_waiters() wakes exactly the Notified futures that EXIST when it is called (it stores no permit; tokio 1.53 docs: "The Notified future is guaranteed to receive wakeups from notify_waiters() as soon as it has been created, even if it has not yet been polled"). The stand-ins count the credit checks performed; a Notified future remembers the count at its creation, and awaiting it (R3b: `.await` kept as the stand-in call `.await_s()`, given the current count as a ghost argument by R9) requires that it was created BEFORE the last check -- otherwise a grant applied between that check and the creation of the future is missed (lost wake-up)
//@@ trusted consume_link_credit (the check itself: unit LINKFLOW) is reduced to a stand-in that succeeds or not; `&self` is verified as `&mut self` so that the ghost counter can advance (sequential reasoning only)
pub struct NotifiedS { pub created_after_checks: Ghost<nat> }
impl NotifiedS {
    #[verifier::external_body]
    pub fn await_s(self, Ghost(checks_now): Ghost<nat>)
        requires self.created_after_checks@ < checks_now,      // [C08.wait.registered-before-check] the future that will deliver the wake-up exists before the credit check whose failure sends the task to sleep: a grant that lands anywhere after that check is not lost
    { unimplemented!() }
}
#[verifier::external_body]
pub struct Tag { _p: u8 }
pub struct InsufficientCredit {}
pub struct SenderFlowState { pub checks: Ghost<nat> }
impl SenderFlowState {
    #[verifier::external_body]
    pub fn notified_s(&self) -> (r: NotifiedS) ensures r.created_after_checks@ == self.checks@ { unimplemented!() }
    #[verifier::external_body]
    pub fn check_s(&mut self, item: u32) -> (r: Result<Tag, InsufficientCredit>) ensures final(self).checks@ == old(self).checks@ + 1 { unimplemented!() }

//@@ fn file=fe2o3-amqp/src/link/state.rs impl=`impl Consume for SenderFlowState` name=consume
//@@ attr #[verifier::loop_isolation(false)]
//@@ awaitcall
//@@ selfmut
//@@ attr #[verifier::exec_allows_no_decreases_clause]
//@@ ret Tag
//@@ subst `self.notifier.notified()` => `self.notified_s()` rule=R9
//@@ subst `consume_link_credit(&self.state().lock, item)` => `self.check_s(item)` rule=R9
//@@ subst `.await_s()` => `.await_s(Ghost(self.checks@))` rule=R9
//@@ spec
    ensures true,
//@@ end
}

} // verus!
fn main() {}
