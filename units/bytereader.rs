//@@ unit BYTEREADER
#![feature(allocator_api)]
#![allow(unused_imports, unused_variables, dead_code, unused_mut, unused_parens)]
use vstd::prelude::*;

verus! {

global size_of usize == 8;

//@@ trusted Payload (bytes::Bytes) is a stand-in: a ghost byte sequence; remaining() is its length, split_to(n) cuts off and returns the first n bytes, Buf::copy_to_slice(p, dst) copies all of dst.len() bytes out of p (precondition: p holds at least that many -- the real one panics otherwise)
//@@ trusted `Buf::copy_to_slice(&mut x, &mut dst[a..b])` / `&mut dst[a..]` are written as copy_to_slice_at(x, dst, a, b): the bytes go to dst[a..b], the rest of dst is untouched
//@@ trusted the payloads of one delivery together hold fewer than 2^64 bytes; usize is 64 bits

pub struct IoError { pub k: u8 }
pub struct Payload { pub b: Ghost<Seq<u8>> }
impl Payload {
    #[verifier::external_body]
    pub fn remaining(&self) -> (r: usize) ensures r == self.b@.len() { unimplemented!() }
    #[verifier::external_body]
    pub fn split_to(&mut self, at: usize) -> (r: Payload)
        requires at <= old(self).b@.len(),
        ensures r.b@ == old(self).b@.subrange(0, at as int), final(self).b@ == old(self).b@.skip(at as int),
    { unimplemented!() }
}
/// `Buf::copy_to_slice(src, &mut dst[a..b])`
#[verifier::external_body]
pub fn copy_to_slice_at(src: &mut Payload, dst: &mut [u8], a: usize, b: usize)
    requires a <= b <= old(dst)@.len(), b - a <= old(src).b@.len(),
    ensures
        final(dst)@.len() == old(dst)@.len(),
        forall|i: int| 0 <= i < a ==> final(dst)@[i] == old(dst)@[i],
        forall|i: int| a <= i < b ==> final(dst)@[i] == old(src).b@[i - a],
        forall|i: int| b <= i < old(dst)@.len() ==> final(dst)@[i] == old(dst)@[i],
        final(src).b@ == old(src).b@.skip(b - a),
{ unimplemented!() }

pub struct ByteReader { pub inner: Vec<Payload> }

/// the bytes a reader still holds: its payloads, in order, back to back
pub open spec fn flat(v: Seq<Payload>) -> Seq<u8>
    decreases v.len(),
{
    if v.len() == 0 { Seq::<u8>::empty() } else { v[0].b@ + flat(v.skip(1)) }
}
pub proof fn lemma_flat_len_nonneg(v: Seq<Payload>) ensures flat(v).len() >= 0 { }
/// all payloads before index k are empty
pub open spec fn drained(v: Seq<Payload>, k: int) -> bool { forall|j: int| 0 <= j < k ==> (#[trigger] v[j]).b@.len() == 0 }
/// with the first k payloads empty, the content is the content of the rest
pub proof fn lemma_flat_drained(v: Seq<Payload>, k: int)
    requires 0 <= k <= v.len(), drained(v, k),
    ensures flat(v) =~= flat(v.skip(k)),
    decreases k,
{
    if k > 0 {
        assert(v[0].b@.len() == 0);
        assert(flat(v) =~= flat(v.skip(1)));
        assert(drained(v.skip(1), k - 1)) by { assert forall|j: int| 0 <= j < k - 1 implies (#[trigger] v.skip(1)[j]).b@.len() == 0 by { assert(v.skip(1)[j] == v[j + 1]); } }
        lemma_flat_drained(v.skip(1), k - 1);
        assert(v.skip(1).skip(k - 1) =~= v.skip(k));
    } else {
        assert(v.skip(0) =~= v);
    }
}
pub proof fn lemma_flat_head(v: Seq<Payload>)
    requires v.len() > 0,
    ensures flat(v) =~= v[0].b@ + flat(v.skip(1)),
{ }
pub proof fn lemma_flat_empty(v: Seq<Payload>)
    requires v.len() == 0,
    ensures flat(v) =~= Seq::<u8>::empty(),
{ }

/// taking the first m bytes out of payload k (all earlier ones empty) takes the first m bytes off the content
pub proof fn lemma_after_take(v0: Seq<Payload>, v1: Seq<Payload>, k: int, m: int)
    requires
        0 <= k < v0.len(), v1.len() == v0.len(), drained(v0, k), 0 <= m <= v0[k].b@.len(),
        forall|j: int| 0 <= j < v0.len() && j != k ==> v1[j] == v0[j],
        v1[k].b@ =~= v0[k].b@.skip(m),
    ensures
        flat(v1) =~= flat(v0).skip(m),
{
    assert(drained(v1, k)) by { assert forall|j: int| 0 <= j < k implies (#[trigger] v1[j]).b@.len() == 0 by { assert(v1[j] == v0[j]); } }
    lemma_flat_drained(v0, k); lemma_flat_drained(v1, k);
    lemma_flat_head(v0.skip(k)); lemma_flat_head(v1.skip(k));
    assert(v0.skip(k)[0] == v0[k]); assert(v1.skip(k)[0] == v1[k]);
    assert(v0.skip(k).skip(1) =~= v0.skip(k + 1)); assert(v1.skip(k).skip(1) =~= v1.skip(k + 1));
    assert(v1.skip(k + 1) =~= v0.skip(k + 1));
    assert(flat(v0) =~= v0[k].b@ + flat(v0.skip(k + 1)));
    assert(flat(v1) =~= v0[k].b@.skip(m) + flat(v0.skip(k + 1)));
    assert((v0[k].b@ + flat(v0.skip(k + 1))).skip(m) =~= v0[k].b@.skip(m) + flat(v0.skip(k + 1)));
}

impl ByteReader {
//@@ fn file=fe2o3-amqp/src/util/mod.rs impl=`impl io::Read for ByteReader<Payload>` name=read
//@@ shape loops=while
//@@ attr #[verifier::loop_isolation(false)]
//@@ ret Result<usize, IoError>
//@@ subst `Buf::copy_to_slice(&mut partial, &mut dst[__E1..])` => `{ let __e = dst.len(); copy_to_slice_at(&mut partial, dst, __E1, __e) }` rule=R9
//@@ subst `Buf::copy_to_slice(payload, &mut dst[__E1..__E2])` => `copy_to_slice_at(payload, dst, __E1, __E2)` rule=R9
//@@ spec
    requires flat(old(self).inner@).len() < usize::MAX,
    ensures
        r is Ok,
        final(dst)@.len() == old(dst)@.len(),
        ({
            let all = flat(old(self).inner@);
            let n = r->Ok_0 as int;
            &&& n == (if all.len() >= old(dst)@.len() { old(dst)@.len() as int } else { all.len() as int })       // [C10.reader.fills-or-drains] [C04.reader.chunked-read-total] [C15.reader.chunked-read-total] (and it RETURNS for every way the delivery was cut into frames and every request size: no index out of range -- the function's implicit obligations) a read returns the whole request, or -- only when the payloads run out -- everything that is left
            &&& final(dst)@.subrange(0, n) =~= all.subrange(0, n)                                                 // [C10.reader.concatenation] [C01.reader.concatenation] what is read is the concatenation of the delivery's frames' payloads, in order, wherever the frames were cut
            &&& flat(final(self).inner@) =~= all.skip(n)                                                          // [C10.reader.nothing-lost] [C01.reader.nothing-lost] [C20.reader.chunked-stream-consumes-what-it-returns] and exactly those bytes are consumed: the next read continues where this one stopped
        }),
//@@ loop 0
            invariant
                dst@.len() == old(dst)@.len(),
                self.inner@.len() == old(self).inner@.len(),
                0 <= __im0 <= self.inner@.len(),
                nbytes_read <= dst@.len(),
                nbytes_read <= flat(old(self).inner@).len(),
                drained(self.inner@, __im0 as int),
                nbytes_read < dst@.len() || dst@.len() == 0,
                forall|i: int| 0 <= i < nbytes_read ==> dst@[i] == flat(old(self).inner@)[i],
                flat(self.inner@) =~= flat(old(self).inner@).skip(nbytes_read as int),
            decreases self.inner@.len() - __im0,
//@@ at `Ok(nbytes_read)` before
        proof {
            if nbytes_read < dst@.len() {
                // the loop ran to the end: everything is drained
                lemma_flat_drained(self.inner@, self.inner@.len() as int);
                assert(self.inner@.skip(self.inner@.len() as int) =~= Seq::<Payload>::empty());
                lemma_flat_empty(self.inner@.skip(self.inner@.len() as int));
            }
        }
//@@ loopstart 0
            let ghost k = __im0 as int;
            let ghost v0 = self.inner@;
            let ghost nb0 = nbytes_read as int;
            let ghost all = flat(old(self).inner@);
            proof {
                {
                    lemma_flat_drained(v0, k);
                    lemma_flat_head(v0.skip(k));
                    assert(v0.skip(k)[0] == v0[k]);
                    assert(v0.skip(k).skip(1) =~= v0.skip(k + 1));
                    // flat(v0) == v0[k].b + flat(v0.skip(k+1)) == all.skip(nb0)
                    assert(flat(v0) =~= v0[k].b@ + flat(v0.skip(k + 1)));
                    assert(v0[k].b@.len() <= flat(v0).len());
                }
            }
//@@ at `break;` before
                proof {
                    let v1 = self.inner@;
                    let m = (dst@.len() - nb0) as int;
                    assert(v1.len() == v0.len());
                    assert(forall|j: int| 0 <= j < v0.len() && j != k ==> v1[j] == v0[j]);
                    assert(v1[k].b@ =~= v0[k].b@.skip(m));
                    lemma_after_take(v0, v1, k, m);
                    assert(forall|i: int| nb0 <= i < dst@.len() ==> dst@[i] == all[i]) by {
                        assert forall|i: int| nb0 <= i < dst@.len() implies dst@[i] == all[i] by {
                            assert(dst@[i] == v0[k].b@[i - nb0]);
                            assert(flat(v0)[i - nb0] == v0[k].b@[i - nb0]);
                            assert(all.skip(nb0)[i - nb0] == all[i]);
                        }
                    }
                }
//@@ loopend 0
            proof {
                let v1 = self.inner@;
                let m = (nbytes_read - nb0) as int;
                assert(v1.len() == v0.len());
                assert(forall|j: int| 0 <= j < v0.len() && j != k ==> v1[j] == v0[j]);
                assert(m == v0[k].b@.len());
                assert(v1[k].b@ =~= v0[k].b@.skip(m));
                lemma_after_take(v0, v1, k, m);
                assert(drained(v1, k + 1)) by { assert forall|j: int| 0 <= j < k + 1 implies (#[trigger] v1[j]).b@.len() == 0 by { if j < k { assert(v1[j] == v0[j]); } } }
                assert(forall|i: int| nb0 <= i < nbytes_read ==> dst@[i] == all[i]) by {
                    assert forall|i: int| nb0 <= i < nbytes_read implies dst@[i] == all[i] by {
                        assert(dst@[i] == v0[k].b@[i - nb0]);
                        assert(flat(v0)[i - nb0] == v0[k].b@[i - nb0]);
                        assert(all.skip(nb0)[i - nb0] == all[i]);
                    }
                }
            }
//@@ end
}

} // verus!
fn main() {}
