//@@ unit ACCDELEG
#![feature(allocator_api)]
#![allow(unused_imports, unused_variables, dead_code, unused_mut, unused_parens)]
use vstd::prelude::*;

verus! {

//@@ trusted the wrapped endpoint (session::Session, under contract in unit SESSION) is an opaque value here; each of its operations is an UNINTERPRETED function step_<op>(state, arguments) -> (state', result): the contracts of this unit say that ListenerSession performs exactly that operation, once, with the arguments it was given, hands back its result unchanged and touches nothing of its own
//@@ trusted async bodies with .await erased (R3); channel ends and sinks passed by reference are opaque values (what is written through a `&` end is part of the uninterpreted step; a `&mut` sink's new value is a component of the step's result)

macro_rules! opaque {
    ($($n:ident),*) => { verus!{ $(
        #[verifier::external_body]
        pub struct $n { _p: u8 }
    )* } }
}
opaque!(SessionS, SessionState, SessionStopReason, StopArc, ConnStopArc, OutgoingChannel, IncomingChannel, LinkRelayIn, OutputHandle, AllocLinkError, Begin, End, BeginError, EndError, Disposition, SessionInnerError, SessTx, AmqpError, Attach, LinkFlow, Flow, SessionFrame, SessionOutgoingItem, InputHandle, Transfer, Payload, Detach, PendingFlows, LinkListener);

impl SessionS {
    pub uninterp spec fn get_local_state(self) -> SessionState;
    #[verifier::external_body]
    pub fn local_state(&self) -> (r: &SessionState) ensures *r == self.get_local_state() { unimplemented!() }
    pub uninterp spec fn step_set_session_stop_reason(self, reason: SessionStopReason) -> (SessionS, ());
    #[verifier::external_body]
    pub fn set_session_stop_reason(&mut self, reason: SessionStopReason) ensures (*final(self), ()) == old(self).step_set_session_stop_reason(reason) { unimplemented!() }
    pub uninterp spec fn step_abandon_pending_deliveries(self) -> (SessionS, ());
    #[verifier::external_body]
    pub fn abandon_pending_deliveries(&mut self) ensures (*final(self), ()) == old(self).step_abandon_pending_deliveries() { unimplemented!() }
    pub uninterp spec fn get_session_stop_reason(self) -> StopArc;
    #[verifier::external_body]
    pub fn session_stop_reason(&self) -> (r: &StopArc) ensures *r == self.get_session_stop_reason() { unimplemented!() }
    pub uninterp spec fn get_connection_stop_reason(self) -> ConnStopArc;
    #[verifier::external_body]
    pub fn connection_stop_reason(&self) -> (r: &ConnStopArc) ensures *r == self.get_connection_stop_reason() { unimplemented!() }
    pub uninterp spec fn get_outgoing_channel(self) -> OutgoingChannel;
    #[verifier::external_body]
    pub fn outgoing_channel(&self) -> (r: OutgoingChannel) ensures r == self.get_outgoing_channel() { unimplemented!() }
    pub uninterp spec fn step_allocate_link(self, link_name: String, link_handle: Option<LinkRelayIn>) -> (SessionS, Result<OutputHandle, AllocLinkError>);
    #[verifier::external_body]
    pub fn allocate_link(&mut self, link_name: String, link_handle: Option<LinkRelayIn>) -> (r: Result<OutputHandle, AllocLinkError>) ensures (*final(self), r) == old(self).step_allocate_link(link_name, link_handle) { unimplemented!() }
    pub uninterp spec fn step_deallocate_link(self, output_handle: OutputHandle) -> (SessionS, ());
    #[verifier::external_body]
    pub fn deallocate_link(&mut self, output_handle: OutputHandle) ensures (*final(self), ()) == old(self).step_deallocate_link(output_handle) { unimplemented!() }
    pub uninterp spec fn step_on_incoming_begin(self, channel: IncomingChannel, begin: Begin) -> (SessionS, Result<(), BeginError>);
    #[verifier::external_body]
    pub fn on_incoming_begin(&mut self, channel: IncomingChannel, begin: Begin) -> (r: Result<(), BeginError>) ensures (*final(self), r) == old(self).step_on_incoming_begin(channel, begin) { unimplemented!() }
    pub uninterp spec fn step_on_incoming_end(self, channel: IncomingChannel, end: End) -> (SessionS, Result<(), EndError>);
    #[verifier::external_body]
    pub fn on_incoming_end(&mut self, channel: IncomingChannel, end: End) -> (r: Result<(), EndError>) ensures (*final(self), r) == old(self).step_on_incoming_end(channel, end) { unimplemented!() }
    pub uninterp spec fn step_send_begin(self, writer: SessTx) -> (SessionS, Result<(), BeginError>);
    #[verifier::external_body]
    pub fn send_begin(&mut self, writer: &SessTx) -> (r: Result<(), BeginError>) ensures (*final(self), r) == old(self).step_send_begin(*writer) { unimplemented!() }
    pub uninterp spec fn step_send_end(self, writer: SessTx, error: Option<AmqpError>) -> (SessionS, Result<(), EndError>);
    #[verifier::external_body]
    pub fn send_end(&mut self, writer: &SessTx, error: Option<AmqpError>) -> (r: Result<(), EndError>) ensures (*final(self), r) == old(self).step_send_end(*writer, error) { unimplemented!() }
    pub uninterp spec fn step_on_outgoing_attach(self, attach: Attach) -> (SessionS, Result<SessionFrame, SessionInnerError>);
    #[verifier::external_body]
    pub fn on_outgoing_attach(&mut self, attach: Attach) -> (r: Result<SessionFrame, SessionInnerError>) ensures (*final(self), r) == old(self).step_on_outgoing_attach(attach) { unimplemented!() }
    pub uninterp spec fn step_on_outgoing_flow(self, flow: LinkFlow) -> (SessionS, Result<SessionFrame, SessionInnerError>);
    #[verifier::external_body]
    pub fn on_outgoing_flow(&mut self, flow: LinkFlow) -> (r: Result<SessionFrame, SessionInnerError>) ensures (*final(self), r) == old(self).step_on_outgoing_flow(flow) { unimplemented!() }
    pub uninterp spec fn step_maybe_outgoing_session_flow(self) -> (SessionS, Option<SessionOutgoingItem>);
    #[verifier::external_body]
    pub fn maybe_outgoing_session_flow(&mut self) -> (r: Option<SessionOutgoingItem>) ensures (*final(self), r) == old(self).step_maybe_outgoing_session_flow() { unimplemented!() }
    pub uninterp spec fn step_on_outgoing_transfer(self, input_handle: InputHandle, transfer: Transfer, payload: Payload) -> (SessionS, Result<Option<SessionOutgoingItem>, SessionInnerError>);
    #[verifier::external_body]
    pub fn on_outgoing_transfer(&mut self, input_handle: InputHandle, transfer: Transfer, payload: Payload) -> (r: Result<Option<SessionOutgoingItem>, SessionInnerError>) ensures (*final(self), r) == old(self).step_on_outgoing_transfer(input_handle, transfer, payload) { unimplemented!() }
    pub uninterp spec fn step_on_outgoing_disposition(self, disposition: Disposition) -> (SessionS, Result<SessionFrame, SessionInnerError>);
    #[verifier::external_body]
    pub fn on_outgoing_disposition(&mut self, disposition: Disposition) -> (r: Result<SessionFrame, SessionInnerError>) ensures (*final(self), r) == old(self).step_on_outgoing_disposition(disposition) { unimplemented!() }
    pub uninterp spec fn step_on_outgoing_detach(self, detach: Detach) -> (SessionS, SessionFrame);
    #[verifier::external_body]
    pub fn on_outgoing_detach(&mut self, detach: Detach) -> (r: SessionFrame) ensures (*final(self), r) == old(self).step_on_outgoing_detach(detach) { unimplemented!() }
    pub uninterp spec fn step_on_incoming_disposition(self, disposition: Disposition) -> (SessionS, Result<Option<Vec<Disposition>>, SessionInnerError>);
    #[verifier::external_body]
    pub fn on_incoming_disposition(&mut self, disposition: Disposition) -> (r: Result<Option<Vec<Disposition>>, SessionInnerError>) ensures (*final(self), r) == old(self).step_on_incoming_disposition(disposition) { unimplemented!() }
}
pub struct ListenerSession { pub session: SessionS, pub link_listener: LinkListener, pub pending_link_flows: PendingFlows }

impl ListenerSession {
//@@ fn file=fe2o3-amqp/src/acceptor/session.rs impl=`impl endpoint::Session for ListenerSession` name=local_state
//@@ ret &SessionState
//@@ spec
    ensures *r == self.session.get_local_state(),     // [C13.listener.state-is-the-sessions] the state the wrapper reports is the state of the session it wraps
//@@ end
//@@ fn file=fe2o3-amqp/src/acceptor/session.rs impl=`impl endpoint::Session for ListenerSession` name=set_session_stop_reason
//@@ param reason : SessionStopReason
//@@ spec
    ensures
        (final(self).session, ()) == old(self).session.step_set_session_stop_reason(reason),     // [C14.listener.stop-reason-published-in-the-sessions-cell] the stop reason is recorded in the cell of the wrapped session -- the one its handles and links read
        final(self).link_listener == old(self).link_listener && final(self).pending_link_flows == old(self).pending_link_flows,
//@@ end
//@@ fn file=fe2o3-amqp/src/acceptor/session.rs impl=`impl endpoint::Session for ListenerSession` name=abandon_pending_deliveries
//@@ spec
    ensures
        (final(self).session, ()) == old(self).session.step_abandon_pending_deliveries(),     // [C14.listener.waiters-released-by-the-session] when the engine stops, the sends still waiting on links of the wrapped session are released by it (unit SESSION [C14.session-stop.every-sending-relay-reached])
        final(self).link_listener == old(self).link_listener && final(self).pending_link_flows == old(self).pending_link_flows,
//@@ end
//@@ fn file=fe2o3-amqp/src/acceptor/session.rs impl=`impl endpoint::Session for ListenerSession` name=session_stop_reason
//@@ ret &StopArc
//@@ spec
    ensures *r == self.session.get_session_stop_reason(),     // [C14.listener.stop-reason-cell-is-the-sessions]
//@@ end
//@@ fn file=fe2o3-amqp/src/acceptor/session.rs impl=`impl endpoint::Session for ListenerSession` name=connection_stop_reason
//@@ ret &ConnStopArc
//@@ spec
    ensures *r == self.session.get_connection_stop_reason(),     // [C14.listener.connection-stop-cell-is-the-sessions]
//@@ end
//@@ fn file=fe2o3-amqp/src/acceptor/session.rs impl=`impl endpoint::Session for ListenerSession` name=outgoing_channel
//@@ ret OutgoingChannel
//@@ spec
    ensures r == self.session.get_outgoing_channel(),     // [C11.listener.channel-is-the-sessions]
//@@ end
//@@ fn file=fe2o3-amqp/src/acceptor/session.rs impl=`impl endpoint::Session for ListenerSession` name=allocate_link
//@@ param link_name : String
//@@ param link_handle : Option<LinkRelayIn>
//@@ ret Result<OutputHandle, AllocLinkError>
//@@ spec
    ensures
        (final(self).session, r) == old(self).session.step_allocate_link(link_name, link_handle),     // [C11.listener.local-link-allocated-by-the-session] a link this side initiates gets its handle from the wrapped session's table (fresh, within handle-max: unit SESSION)
        final(self).link_listener == old(self).link_listener && final(self).pending_link_flows == old(self).pending_link_flows,
//@@ end
//@@ fn file=fe2o3-amqp/src/acceptor/session.rs impl=`impl endpoint::Session for ListenerSession` name=deallocate_link
//@@ param output_handle : OutputHandle
//@@ spec
    ensures
        (final(self).session, ()) == old(self).session.step_deallocate_link(output_handle),     // [C11.listener.handle-released-by-the-session] [C13.listener.link-released-by-the-session]
        final(self).link_listener == old(self).link_listener && final(self).pending_link_flows == old(self).pending_link_flows,
//@@ end
//@@ fn file=fe2o3-amqp/src/acceptor/session.rs impl=`impl endpoint::Session for ListenerSession` name=on_incoming_begin
//@@ param channel : IncomingChannel
//@@ param begin : Begin
//@@ ret Result<(), BeginError>
//@@ spec
    ensures
        (final(self).session, r) == old(self).session.step_on_incoming_begin(channel, begin),     // [C13.listener.begin-handled-by-the-session] [C07.listener.windows-initialised-by-the-session] the peer's begin (its windows, its next-outgoing-id) is taken over by the wrapped session, unchanged
        final(self).link_listener == old(self).link_listener && final(self).pending_link_flows == old(self).pending_link_flows,
//@@ end
//@@ fn file=fe2o3-amqp/src/acceptor/session.rs impl=`impl endpoint::Session for ListenerSession` name=on_incoming_end
//@@ param channel : IncomingChannel
//@@ param end : End
//@@ ret Result<(), EndError>
//@@ spec
    ensures
        (final(self).session, r) == old(self).session.step_on_incoming_end(channel, end),     // [C13.listener.end-handled-by-the-session] [C14.listener.peer-end-error-reported]
        final(self).link_listener == old(self).link_listener && final(self).pending_link_flows == old(self).pending_link_flows,
//@@ end
//@@ fn file=fe2o3-amqp/src/acceptor/session.rs impl=`impl endpoint::Session for ListenerSession` name=send_begin
//@@ param writer : &SessTx
//@@ ret Result<(), BeginError>
//@@ spec
    ensures
        (final(self).session, r) == old(self).session.step_send_begin(*writer),     // [C13.listener.begin-sent-by-the-session]
        final(self).link_listener == old(self).link_listener && final(self).pending_link_flows == old(self).pending_link_flows,
//@@ end
//@@ fn file=fe2o3-amqp/src/acceptor/session.rs impl=`impl endpoint::Session for ListenerSession` name=send_end
//@@ param writer : &SessTx
//@@ param error : Option<AmqpError>
//@@ ret Result<(), EndError>
//@@ spec
    ensures
        (final(self).session, r) == old(self).session.step_send_end(*writer, error),     // [C13.listener.end-sent-by-the-session]
        final(self).link_listener == old(self).link_listener && final(self).pending_link_flows == old(self).pending_link_flows,
//@@ end
//@@ fn file=fe2o3-amqp/src/acceptor/session.rs impl=`impl endpoint::Session for ListenerSession` name=on_outgoing_attach
//@@ param attach : Attach
//@@ ret Result<SessionFrame, SessionInnerError>
//@@ spec
    ensures
        (final(self).session, r) == old(self).session.step_on_outgoing_attach(attach),     // [C11.listener.attach-framed-by-the-session]
        final(self).link_listener == old(self).link_listener && final(self).pending_link_flows == old(self).pending_link_flows,
//@@ end
//@@ fn file=fe2o3-amqp/src/acceptor/session.rs impl=`impl endpoint::Session for ListenerSession` name=on_outgoing_flow
//@@ param flow : LinkFlow
//@@ ret Result<SessionFrame, SessionInnerError>
//@@ spec
    ensures
        (final(self).session, r) == old(self).session.step_on_outgoing_flow(flow),     // [C07.listener.flow-reports-the-sessions-state] [C09.listener.link-flow-framed-by-the-session] a flow a link of this session sends carries the wrapped session's current window state
        final(self).link_listener == old(self).link_listener && final(self).pending_link_flows == old(self).pending_link_flows,
//@@ end
//@@ fn file=fe2o3-amqp/src/acceptor/session.rs impl=`impl endpoint::Session for ListenerSession` name=maybe_outgoing_session_flow
//@@ ret Option<SessionOutgoingItem>
//@@ spec
    ensures
        (final(self).session, r) == old(self).session.step_maybe_outgoing_session_flow(),     // [C07.listener.window-top-up-by-the-session]
        final(self).link_listener == old(self).link_listener && final(self).pending_link_flows == old(self).pending_link_flows,
//@@ end
//@@ fn file=fe2o3-amqp/src/acceptor/session.rs impl=`impl endpoint::Session for ListenerSession` name=on_outgoing_transfer
//@@ param input_handle : InputHandle
//@@ param transfer : Transfer
//@@ param payload : Payload
//@@ ret Result<Option<SessionOutgoingItem>, SessionInnerError>
//@@ spec
    ensures
        (final(self).session, r) == old(self).session.step_on_outgoing_transfer(input_handle, transfer, payload),     // [C07.listener.outgoing-transfer-accounted-by-the-session] [C01.listener.outgoing-transfer-unchanged] every transfer a sender of this session emits goes through the wrapped session's window accounting (numbered, counted, parked when the peer's window is closed) exactly once, unchanged
        final(self).link_listener == old(self).link_listener && final(self).pending_link_flows == old(self).pending_link_flows,
//@@ end
//@@ fn file=fe2o3-amqp/src/acceptor/session.rs impl=`impl endpoint::Session for ListenerSession` name=on_outgoing_disposition
//@@ param disposition : Disposition
//@@ ret Result<SessionFrame, SessionInnerError>
//@@ spec
    ensures
        (final(self).session, r) == old(self).session.step_on_outgoing_disposition(disposition),     // [C02.listener.outgoing-disposition-unchanged]
        final(self).link_listener == old(self).link_listener && final(self).pending_link_flows == old(self).pending_link_flows,
//@@ end
//@@ fn file=fe2o3-amqp/src/acceptor/session.rs impl=`impl endpoint::Session for ListenerSession` name=on_outgoing_detach
//@@ param detach : Detach
//@@ ret SessionFrame
//@@ spec
    ensures
        (final(self).session, r) == old(self).session.step_on_outgoing_detach(detach),     // [C13.listener.detach-handled-by-the-session] [C11.listener.handle-released-by-the-session]
        final(self).link_listener == old(self).link_listener && final(self).pending_link_flows == old(self).pending_link_flows,
//@@ end
//@@ fn file=fe2o3-amqp/src/acceptor/session.rs impl=`impl endpoint::Session for ListenerSession` name=on_incoming_disposition
//@@ param disposition : Disposition
//@@ ret Result<Option<Vec<Disposition>>, SessionInnerError>
//@@ spec
    ensures
        (final(self).session, r) == old(self).session.step_on_incoming_disposition(disposition),     // [C02.listener.disposition-handled-by-the-session] a disposition reaches the wrapped session unchanged and its settling echoes are handed on unchanged: settlement here is the settlement of unit SESSION
        final(self).link_listener == old(self).link_listener && final(self).pending_link_flows == old(self).pending_link_flows,
//@@ end
}

} // verus!
fn main() {}
